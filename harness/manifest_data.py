"""manifest_data.py — per-property claims. Properties not (yet) claimed are listed in
NOT_APPLICABLE with the reason; the list shrinks as verticals land."""

COMMON_NOTE = ("Trusted: Coq 8.16.1 kernel (vm_compute, no native_compute), the table translator harness/gen_tables.py, "
               "extraction with ExtrOcamlBasic only + ocaml/driver.ml.in, the correspondence harness, the Python "
               "primitive semantics written in coq/Base. Axioms per property as printed by Print Assumptions (in evidence).")

CHECKS = [
    {
        "property_id": "C19",
        "text": ("Theorem C19_holds (coq/Props/C19.v): for every regenerated EnumMap table, every member name in ANY letter case "
                 "(universally quantified over strings with the same ASCII lower-casing) resolves to its value by item access, get and "
                 "membership; every code resolves back to a member name carrying that code; contains/get/getitem agree on every key; "
                 "DataTypes.get_type returns a type with the requested code; every status byte 0..255 has a non-empty text, the fallback "
                 "containing its two-digit hex code. Generic lemmas + finite residue by vm_compute on tables regenerated from /repo; the "
                 "lookup logic of map.py is tied by exhaustive differential correspondence with the extracted model."),
        "note": COMMON_NOTE + " C19: closed under the global context. ASCII case mapping only.",
        "technique": "Coq proof (generic lemmas + vm_compute on regenerated tables) + exhaustive model/implementation correspondence",
        "design_ref": "DESIGN.md section 7, C19",
    },
]

CHECKS.append({
    "property_id": "C12",
    "text": ("Theorem C12_holds (coq/Props/C12.v) over the model of Socket.receive/Socket.send (coq/Model/Sock.v, HEADER_SIZE regenerated "
             "from const.py): for EVERY well-formed frame (any body length the 16-bit length field allows) and EVERY segmentation of it into "
             "non-empty chunks (down to one byte; chunks longer than the 256-byte read are read piecewise) receive returns exactly the frame "
             "(fuel = frame length + 1 is never exhausted: no hang); if the peer closes, times out or errors after ANY strict prefix, however "
             "segmented, receive terminates with CommError (no hang, no partial frame); send hands every byte to the kernel in order for every "
             "pattern of positive partial sends, and under ANY send script it terminates, success implies everything was sent, failure is "
             "CommError with a prefix on the wire. Proved by induction on the chunk list with an accumulated-prefix invariant. The model is tied "
             "to socket_.py by differential correspondence over scripted fake sockets (all compositions of the first bytes, every first-chunk "
             "size, peer stop after every prefix, partial-send patterns)."),
    "note": COMMON_NOTE + " C12: closed under the global context. The kernel socket is an input script (recv returns at most n bytes of what is "
            "available, b'' after close, or raises socket.error); real TCP, timeouts and the OS are not modelled.",
    "technique": "Coq proof (induction over segmentations / send scripts with explicit fuel) + model/implementation correspondence on scripted sockets",
    "design_ref": "DESIGN.md section 7, C12",
})

_PENDING = "vertical not yet built in this session (see DESIGN.md section 9 staging); decided by Coq proof + correspondence when it lands"
_CLAIMED = {c["property_id"] for c in CHECKS}
NOT_APPLICABLE = [{"property_id": f"C{i:02d}", "reason": _PENDING} for i in range(1, 20) if f"C{i:02d}" not in _CLAIMED]

NOTES = ("Every check: regenerate coq/Gen from /repo, full .vo rebuild of the property's proof cone, Print Assumptions audit, "
         "rebuild of the extracted model, correspondence + property oracle on the implementation, verdict per DESIGN.md section 5.")
