"""manifest_data.py — per-property claims. Properties not (yet) claimed are listed in
NOT_APPLICABLE with the reason; the list shrinks as verticals land."""

COMMON_NOTE = ("Trusted: Coq 8.16.1 kernel (vm_compute, no native_compute), the table translator harness/gen_tables.py, "
               "extraction with ExtrOcamlBasic only + ocaml/driver.ml.in, the correspondence harness, the Python "
               "primitive semantics written in coq/Base. Axioms per property as printed by Print Assumptions (in evidence).")

CHECKS = [
    {
        "property_id": "C19",
        "text": ("Theorem C19_holds (coq/Props/C19.v): for every regenerated EnumMap table, every member name in ANY letter case "
                 "(universally quantified over strings with the same ASCII lower-casing) resolves to its value by item access, get and "
                 "membership; every code resolves back to a member name carrying that code; contains/get/getitem agree on every key; "
                 "DataTypes.get_type returns a type with the requested code; every status byte 0..255 has a non-empty text, the fallback "
                 "containing its two-digit hex code. Generic lemmas + finite residue by vm_compute on tables regenerated from /repo; the "
                 "lookup logic of map.py is tied by exhaustive differential correspondence with the extracted model."),
        "note": COMMON_NOTE + " C19: closed under the global context. ASCII case mapping only.",
        "technique": "Coq proof (generic lemmas + vm_compute on regenerated tables) + exhaustive model/implementation correspondence",
        "design_ref": "DESIGN.md section 7, C19",
    },
]

_PENDING = "vertical not yet built in this session (see DESIGN.md section 9 staging); decided by Coq proof + correspondence when it lands"
NOT_APPLICABLE = [{"property_id": f"C{i:02d}", "reason": _PENDING} for i in range(1, 19)]

NOTES = ("Every check: regenerate coq/Gen from /repo, full .vo rebuild of the property's proof cone, Print Assumptions audit, "
         "rebuild of the extracted model, correspondence + property oracle on the implementation, verdict per DESIGN.md section 5.")
