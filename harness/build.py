"""build.py — (re)build the Coq development and the extracted model co-processes.

All builds are full .vo builds through coq_makefile (never -vos).  A flock on /verif/.lock
serialises concurrent checks.
"""
import fcntl
import glob
import os
import re
import subprocess
import sys
import time

VERIF = os.path.normpath(os.path.join(os.path.dirname(os.path.abspath(__file__)), ".."))
COQ = os.path.join(VERIF, "coq")
OCAML = os.path.join(VERIF, "ocaml")
BIN = os.path.join(VERIF, "bin")
REPO = os.environ.get("VERIF_REPO", "/repo")

ENV = dict(os.environ, PYTHONPATH=REPO, PYTHONHASHSEED="0", PIP_NO_INDEX="1", LC_ALL="C.UTF-8")


class Lock:
    def __enter__(self):
        self.f = open(os.path.join(VERIF, ".lock"), "w")
        fcntl.flock(self.f, fcntl.LOCK_EX)
        return self

    def __exit__(self, *a):
        fcntl.flock(self.f, fcntl.LOCK_UN)
        self.f.close()


def regen_tables():
    """run gen_tables in a fresh interpreter (so /repo is imported fresh). -> (changed, failed)"""
    p = subprocess.run(["/venv/bin/python", os.path.join(VERIF, "harness", "gen_tables.py")],
                       env=ENV, capture_output=True, text=True, timeout=300)
    changed = re.findall(r"^regenerated (\S+)", p.stdout, re.M)
    failed = re.findall(r"^GEN-FAIL (\S+) (.*)$", p.stdout, re.M)
    if p.returncode != 0 and not failed:
        failed = [("gen_tables.py", (p.stderr or p.stdout).strip()[-500:])]
    return changed, failed


def all_v_files():
    fs = []
    for d in ("Base", "Gen", "Model", "Spec", "Proofs", "Props", "Extract"):
        fs += sorted(glob.glob(os.path.join(COQ, d, "*.v")))
    return [os.path.relpath(f, COQ) for f in fs]


def write_coqproject():
    text = "-Q . PV\n-arg -w -arg -notation-overridden,-deprecated-hint-without-locality,-deprecated-instance-without-locality\n" + "\n".join(all_v_files()) + "\n"
    path = os.path.join(COQ, "_CoqProject")
    old = open(path).read() if os.path.exists(path) else None
    if old != text:
        with open(path, "w") as f:
            f.write(text)
        subprocess.run(["coq_makefile", "-f", "_CoqProject", "-o", "Makefile"], cwd=COQ, check=True,
                       capture_output=True, timeout=120)
    elif not os.path.exists(os.path.join(COQ, "Makefile")):
        subprocess.run(["coq_makefile", "-f", "_CoqProject", "-o", "Makefile"], cwd=COQ, check=True,
                       capture_output=True, timeout=120)


def make(targets, timeout=1500, jobs=16):
    """make the given .vo targets. -> (ok, output, wall_s, cmd)"""
    os.makedirs(os.path.join(OCAML, "gen"), exist_ok=True)
    cmd = ["timeout", str(timeout), "make", "-j", str(jobs), "-k"] + list(targets)
    t0 = time.time()
    # each coqc is capped at 24 GB of address space so a runaway vm_compute cannot take the machine down
    p = subprocess.run(["bash", "-c", "ulimit -v 24000000 2>/dev/null; exec \"$@\"", "make"] + cmd, cwd=COQ, capture_output=True, text=True)
    return p.returncode == 0, p.stdout + p.stderr, time.time() - t0, "cd coq && " + " ".join(cmd)


def failing_statement(output):
    """map coqc error locations to (file, enclosing statement name)."""
    res = []
    for m in re.finditer(r'File "\./([^"]+)", line (\d+), characters', output):
        f, line = m.group(1), int(m.group(2))
        name = "?"
        try:
            lines = open(os.path.join(COQ, f)).read().split("\n")
            for i in range(min(line, len(lines)) - 1, -1, -1):
                mm = re.match(r"\s*(?:Local\s+|Global\s+)?(Theorem|Lemma|Example|Corollary|Definition|Fixpoint|Fact|Remark|Proposition)\s+([A-Za-z0-9_']+)", lines[i])
                if mm:
                    name = mm.group(2)
                    break
        except OSError:
            pass
        if (f, name) not in res:
            res.append((f, name))
    return res


def build_modelrun(prop):
    """compile ocaml/gen/<prop>_model.ml + driver -> bin/modelrun_<prop>. -> (ok, msg)"""
    low = prop.lower()
    ml = os.path.join(OCAML, "gen", f"{low}_model.ml")
    if not os.path.exists(ml):
        return False, f"{ml} missing (extraction did not run)"
    exe = os.path.join(BIN, f"modelrun_{low}")
    if os.path.exists(exe) and os.path.getmtime(exe) >= max(os.path.getmtime(ml), os.path.getmtime(os.path.join(OCAML, "driver.ml.in"))):
        return True, "up to date"
    drv = open(os.path.join(OCAML, "driver.ml.in")).read().replace("@MODEL@", f"{low.capitalize()}_model")
    with open(os.path.join(OCAML, "gen", f"{low}_driver.ml"), "w") as f:
        f.write(drv)
    mli = ml + "i"
    srcs = ([f"{low}_model.mli"] if os.path.exists(mli) else []) + [f"{low}_model.ml", f"{low}_driver.ml"]
    p = subprocess.run(["timeout", "300", "ocamlfind", "ocamlopt", "-O3", "-w", "-a", "-o", exe] + srcs,
                       cwd=os.path.join(OCAML, "gen"), capture_output=True, text=True)
    if p.returncode != 0:
        p = subprocess.run(["timeout", "300", "ocamlfind", "ocamlopt", "-w", "-a", "-o", exe] + srcs,
                           cwd=os.path.join(OCAML, "gen"), capture_output=True, text=True)
    return p.returncode == 0, (p.stdout + p.stderr)[-2000:]


def count_obligations(vfiles):
    """number of Theorem/Lemma/Example/... statements in the given coq files."""
    n = 0
    names = []
    for f in vfiles:
        try:
            txt = open(os.path.join(COQ, f)).read()
        except OSError:
            continue
        txt = re.sub(r"\(\*.*?\*\)", "", txt, flags=re.S)
        for m in re.finditer(r"^\s*(?:Local\s+|Global\s+)?(Theorem|Lemma|Example|Corollary|Fact|Remark|Proposition)\s+([A-Za-z0-9_']+)", txt, re.M):
            n += 1
            names.append(f"{f}:{m.group(2)}")
    return n, names


def deps_of(vfile):
    """transitive project-local dependencies of a .v file (via coqdep)."""
    p = subprocess.run(["coqdep", "-Q", ".", "PV", "-sort"] + all_v_files(), cwd=COQ, capture_output=True, text=True)
    # fall back to parsing .Makefile.d style output
    p = subprocess.run(["coqdep", "-Q", ".", "PV"] + all_v_files(), cwd=COQ, capture_output=True, text=True)
    dep = {}
    for line in p.stdout.split("\n"):
        if ":" not in line:
            continue
        lhs, rhs = line.split(":", 1)
        tgt = [x for x in lhs.split() if x.endswith(".vo")]
        if not tgt:
            continue
        src = tgt[0][:-1]  # .vo -> .v
        dep[src] = [x[:-1] for x in rhs.split() if x.endswith(".vo")]
    seen, todo = [], [vfile]
    while todo:
        f = todo.pop()
        if f in seen:
            continue
        seen.append(f)
        todo += dep.get(f, [])
    return seen


def extra_models_of(prop):
    """EXTRA_MODELS declared (as a literal list) in harness/props/<prop>.py, read without importing it."""
    try:
        txt = open(os.path.join(VERIF, "harness", "props", f"{prop.lower()}.py")).read()
    except OSError:
        return []
    m = re.search(r"^EXTRA_MODELS\s*=\s*\[([^\]]*)\]", txt, re.M)
    return re.findall(r"[\"']([A-Za-z0-9_]+)[\"']", m.group(1)) if m else []


def claimed_properties():
    import json
    try:
        man = json.load(open(os.path.join(VERIF, "MANIFEST.json")))
        return [c["property_id"] for c in man.get("checks", [])]
    except Exception:
        return []


if __name__ == "__main__":
    # MANIFEST.setup_cmd: regenerate coq/Gen from /repo, full .vo build of the whole development
    # (make -k: a file outside every claimed property's cone that does not build is reported but
    # does not fail the setup), then the extracted co-processes of the claimed properties.
    with Lock():
        ch, fl = regen_tables()
        print("regenerated:", ch, "failed:", fl)
        if fl:
            sys.exit(1)
        write_coqproject()
        ok, out, wall, cmd = make(["all"], timeout=3000)
        print(out[-3000:])
        print("make all", "ok" if ok else "INCOMPLETE", f"{wall:.1f}s")
        bad = []
        for prop in claimed_properties():
            for t in (f"Props/{prop}.vo", f"Extract/Ex{prop}.vo"):
                if os.path.exists(os.path.join(COQ, t[:-1])) and not os.path.exists(os.path.join(COQ, t)):
                    bad.append(t)
            for m in ([prop] if os.path.exists(os.path.join(COQ, f"Extract/Ex{prop}.v")) else []) + extra_models_of(prop):
                okm, msg = build_modelrun(m)
                print("modelrun", m, "ok" if okm else "FAILED " + msg)
                if not okm:
                    bad.append("modelrun_" + m.lower())
        if bad:
            print("setup FAILED for claimed targets:", bad)
            sys.exit(1)
