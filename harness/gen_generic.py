"""gen_generic.py — regenerated facts for the C14 vertical (generic messaging): coq/Gen/GenericFacts.v.

Fail-closed like gen_tables.py: every fact is read from the source with `ast` (declared shape) and,
where a runtime object exists, cross-checked against it; anything outside the recognised shape
raises GenError(<construct>).

Facts:
  * RequestPacket._timeout, the driver's `_cfg["context"]` / `_cfg["option"]` literals;
  * the DEFAULTS of CIPDriver.generic_message (connected / unconnected_send / route_path /
    attribute / request_data / data_type / name): the C14 finding is about a default;
  * the keyword arguments of the single `self.generic_message(...)` call inside each helper
    (get_module_info, get_plc_name, get_plc_info, get_plc_time, set_plc_time) as a `gm_call`
    record: service / class (EnumMap members, by value), instance / attribute literals, literal
    request data, data type (by name, or the members of an inline Struct(...)), name, the
    connected / unconnected_send flags (False, True, `not self._micro800`), and the shape of the
    route expression of get_module_info;
  * get_plc_time: whether the datetime arithmetic is guarded by `except OverflowError`;
  * set_plc_time: the members of `_struct = Struct(...)` and the literal prefix of the list passed
    to `_struct.encode([...])`; get_plc_time: the key used to read the decoded value;
  * wrap_unconnected_send: the class member, the instance literal and the order of the joined parts;
  * datetime.max as microseconds since 1970-01-01 (a fact of the Python runtime, not of /repo).
"""
import ast
import datetime

from gen_tables import GenError, HEADER, _import, _parse, zb, zs, coq_bool


def _find_method(tree, cls, name):
    for node in tree.body:
        if isinstance(node, ast.ClassDef) and node.name == cls:
            hits = [st for st in node.body if isinstance(st, ast.FunctionDef) and st.name == name]
            if len(hits) != 1:
                raise GenError(f"{cls}.{name}: {len(hits)} definitions")
            return hits[0]
    raise GenError(f"{cls}: class not found")


def _find_func(tree, name):
    hits = [st for st in tree.body if isinstance(st, ast.FunctionDef) and st.name == name]
    if len(hits) != 1:
        raise GenError(f"{name}: {len(hits)} definitions")
    return hits[0]


def _gm_calls(fn):
    out = []
    for n in ast.walk(fn):
        if isinstance(n, ast.Call) and isinstance(n.func, ast.Attribute) and n.func.attr == "generic_message" \
                and isinstance(n.func.value, ast.Name) and n.func.value.id == "self":
            out.append(n)
    return out


def _enum_member(node, clsname, mod, where):
    """`ClsName.member` -> (member, bytes value), cross-checked with the runtime class"""
    if not (isinstance(node, ast.Attribute) and isinstance(node.value, ast.Name) and node.value.id == clsname):
        raise GenError(f"{where}: not {clsname}.<member>")
    cls = getattr(mod, clsname, None)
    if cls is None or node.attr not in cls.__dict__:
        raise GenError(f"{where}: {clsname}.{node.attr} is not a declared member")
    v = cls.__dict__[node.attr]
    if not isinstance(v, bytes):
        raise GenError(f"{where}: {clsname}.{node.attr} is not bytes")
    return node.attr, v


def _id_literal(node, where):
    """int or bytes literal -> Coq `Z + list Z`"""
    if isinstance(node, ast.Constant) and isinstance(node.value, bytes):
        return "inr " + zb(node.value)
    if isinstance(node, ast.Constant) and isinstance(node.value, int) and not isinstance(node.value, bool):
        return f"inl {node.value}"
    raise GenError(f"{where}: not an int/bytes literal")


def _flag(node, where):
    """-> 0 False, 1 True, 2 `not self._micro800`"""
    if isinstance(node, ast.Constant) and node.value is False:
        return 0
    if isinstance(node, ast.Constant) and node.value is True:
        return 1
    if isinstance(node, ast.UnaryOp) and isinstance(node.op, ast.Not) and isinstance(node.operand, ast.Attribute) \
            and node.operand.attr == "_micro800" and isinstance(node.operand.value, ast.Name) and node.operand.value.id == "self":
        return 2
    raise GenError(f"{where}: unrecognised flag expression")


def _struct_members(node, where):
    """Struct(A, B("name"), n_bytes(k), ...) -> [(None | member name, type name, parameter)]"""
    if not (isinstance(node, ast.Call) and isinstance(node.func, ast.Name) and node.func.id == "Struct" and not node.keywords):
        raise GenError(f"{where}: not Struct(...)")
    ms = []
    for a in node.args:
        if isinstance(a, ast.Name):
            ms.append((None, a.id, 0))
        elif isinstance(a, ast.Call) and isinstance(a.func, ast.Name) and a.func.id == "n_bytes" and len(a.args) == 1 \
                and isinstance(a.args[0], ast.Constant) and isinstance(a.args[0].value, int) and not a.keywords:
            ms.append(("", "BYTES", a.args[0].value))
        elif isinstance(a, ast.Call) and isinstance(a.func, ast.Name) and len(a.args) == 1 and not a.keywords \
                and isinstance(a.args[0], ast.Constant) and isinstance(a.args[0].value, str):
            ms.append((a.args[0].value, a.func.id, 0))
        else:
            raise GenError(f"{where}: unrecognised Struct member")
    return ms


def _members_term(ms):
    """same shape as Gen/CodecFacts.v member descriptors: (key, (type name, parameter))"""
    return "[" + "; ".join(f"({'None' if n is None else 'Some ' + zs(n)}, ({zs(t)}, {p}))" for n, t, p in ms) + "]"


MODULE_INFO_ROUTE = ("Call(func=Attribute(value=Name(id='PADDED_EPATH'), attr='encode'), args=[Tuple(elts=[Starred(value=Subscript("
                     "value=Subscript(value=Attribute(value=Name(id='self'), attr='_cfg'), slice=Constant(value='cip_path')), "
                     "slice=Slice(upper=UnaryOp(op=USub(), operand=Constant(value=1))))), Call(func=Name(id='PortSegment'), "
                     "args=[Constant(value='bp'), Name(id='slot')], keywords=[])])], keywords=[keyword(arg='length', "
                     "value=Constant(value=True)), keyword(arg='pad_length', value=Constant(value=True))])")


def _dump(node):
    import re
    s = ast.dump(node, annotate_fields=True, include_attributes=False)
    return re.sub(r", ctx=(Load|Store)\(\)", "", s)


def _call_record(defname, fn, where, mods, struct_env=None):
    calls = _gm_calls(fn)
    if len(calls) != 1:
        raise GenError(f"{where}: {len(calls)} generic_message calls")
    call = calls[0]
    if call.args:
        raise GenError(f"{where}: positional arguments")
    kw = {}
    for k in call.keywords:
        if k.arg is None or k.arg in kw:
            raise GenError(f"{where}: **kwargs / repeated keyword")
        kw[k.arg] = k.value
    known = {"service", "class_code", "instance", "attribute", "request_data", "data_type", "name", "connected",
             "unconnected_send", "route_path"}
    if set(kw) - known:
        raise GenError(f"{where}: unknown keywords {sorted(set(kw) - known)}")
    for need in ("service", "class_code", "instance"):
        if need not in kw:
            raise GenError(f"{where}: no {need}=")
    sname, sval = _enum_member(kw["service"], "Services", mods["services"], where + ".service")
    cname, cval = _enum_member(kw["class_code"], "ClassCode", mods["objlib"], where + ".class_code")
    inst = _id_literal(kw["instance"], where + ".instance")
    attr = "Some (" + _id_literal(kw["attribute"], where + ".attribute") + ")" if "attribute" in kw else "None"
    extra = []
    # request data: a bytes literal, or `<name>.encode([lits..., <param>])` with <name> a local Struct
    rd = "None"
    if "request_data" in kw:
        v = kw["request_data"]
        if isinstance(v, ast.Constant) and isinstance(v.value, bytes):
            rd = "Some " + zb(v.value)
        elif isinstance(v, ast.Call) and isinstance(v.func, ast.Attribute) and v.func.attr == "encode" \
                and isinstance(v.func.value, ast.Name) and struct_env and v.func.value.id in struct_env \
                and len(v.args) == 1 and isinstance(v.args[0], ast.List) and not v.keywords:
            elts = v.args[0].elts
            lits = []
            for e in elts[:-1]:
                if not (isinstance(e, ast.Constant) and isinstance(e.value, int) and not isinstance(e.value, bool)):
                    raise GenError(f"{where}.request_data: non-literal before the last list element")
                lits.append(e.value)
            params = [a.arg for a in fn.args.args]
            if not (elts and isinstance(elts[-1], ast.Name) and elts[-1].id in params):
                raise GenError(f"{where}.request_data: last list element is not a parameter of the helper")
            extra.append(f"Definition {defname}_encode_members : list (option (list Z) * (list Z * Z)) := {_members_term(struct_env[v.func.value.id])}.\n")
            extra.append(f"Definition {defname}_encode_prefix : list Z := [{'; '.join(str(x) for x in lits)}].\n")
            extra.append(f"(* the last encoded value is the helper's parameter number (self = 0): *)\n"
                         f"Definition {defname}_encode_param : Z := {params.index(elts[-1].id)}.\n")
            rd = "None"
        else:
            raise GenError(f"{where}.request_data: unrecognised expression")
    # data type: a name, or an inline Struct(...)
    dt = zs("")
    if "data_type" in kw:
        v = kw["data_type"]
        if isinstance(v, ast.Name):
            dt = zs(v.id)
        elif isinstance(v, ast.Call):
            ms = _struct_members(v, where + ".data_type")
            extra.append(f"Definition {defname}_struct : list (option (list Z) * (list Z * Z)) := {_members_term(ms)}.\n")
            dt = zs("Struct")
        elif isinstance(v, ast.Constant) and v.value is None:
            dt = zs("")
        else:
            raise GenError(f"{where}.data_type: unrecognised expression")
    nm = "None"
    if "name" in kw:
        if not (isinstance(kw["name"], ast.Constant) and isinstance(kw["name"].value, str)):
            raise GenError(f"{where}.name: not a str literal")
        nm = "Some " + zs(kw["name"].value)
    conn = _flag(kw["connected"], where + ".connected") if "connected" in kw else -1
    ucs = _flag(kw["unconnected_send"], where + ".unconnected_send") if "unconnected_send" in kw else -1
    route = -1
    if "route_path" in kw:
        if _dump(kw["route_path"]) != MODULE_INFO_ROUTE:
            raise GenError(f"{where}.route_path: not the recognised PADDED_EPATH.encode((*cip_path[:-1], PortSegment('bp', slot)), length=True, pad_length=True)")
        route = 5
    rec = (f"Definition {defname} : gm_call :=\n"
           f"  {{| gc_service := {zb(sval)} (* Services.{sname} *); gc_class := {zb(cval)} (* ClassCode.{cname} *);\n"
           f"     gc_instance := {inst}; gc_attribute := {attr}; gc_request_data := {rd};\n"
           f"     gc_data_type := {dt}; gc_name := {nm};\n"
           f"     gc_connected := {conn}; gc_unconnected_send := {ucs}; gc_route := {route} |}}.\n")
    return rec + "".join(extra)


def _local_structs(fn, where):
    env = {}
    for st in ast.walk(fn):
        if isinstance(st, ast.Assign) and len(st.targets) == 1 and isinstance(st.targets[0], ast.Name) \
                and isinstance(st.value, ast.Call) and isinstance(st.value.func, ast.Name) and st.value.func.id == "Struct":
            env[st.targets[0].id] = _struct_members(st.value, where + "." + st.targets[0].id)
    return env


def gen_generic_facts():
    out = [HEADER]
    # ---- packets/base.py: RequestPacket._timeout
    base_tree = _parse("pycomm3/packets/base.py")
    base_mod = _import("pycomm3.packets.base")
    tmo = None
    for node in base_tree.body:
        if isinstance(node, ast.ClassDef) and node.name == "RequestPacket":
            for st in node.body:
                if isinstance(st, ast.Assign) and len(st.targets) == 1 and isinstance(st.targets[0], ast.Name) and st.targets[0].id == "_timeout":
                    if tmo is not None or not (isinstance(st.value, ast.Constant) and isinstance(st.value.value, bytes)):
                        raise GenError("RequestPacket._timeout: not a single bytes literal")
                    tmo = st.value.value
    if tmo is None or base_mod.RequestPacket._timeout != tmo:
        raise GenError("RequestPacket._timeout: AST view differs from runtime")
    out.append(f"Definition packet_timeout : list Z := {zb(tmo)}.\n")

    # ---- cip_driver.py: _cfg literals, generic_message defaults
    drv_tree = _parse("pycomm3/cip_driver.py")
    drv_mod = _import("pycomm3.cip_driver")
    init = _find_method(drv_tree, "CIPDriver", "__init__")
    cfg = None
    for st in ast.walk(init):
        if isinstance(st, ast.Assign) and len(st.targets) == 1 and isinstance(st.targets[0], ast.Attribute) \
                and st.targets[0].attr == "_cfg" and isinstance(st.value, ast.Dict):
            if cfg is not None:
                raise GenError("CIPDriver.__init__: _cfg assigned twice")
            cfg = st.value
    if cfg is None:
        raise GenError("CIPDriver.__init__: no `self._cfg = {...}`")
    lits = {}
    for k, v in zip(cfg.keys, cfg.values):
        if isinstance(k, ast.Constant) and k.value in ("context", "option"):
            if not isinstance(v, ast.Constant):
                raise GenError(f"_cfg[{k.value!r}]: not a literal")
            lits[k.value] = v.value
    if not isinstance(lits.get("context"), bytes) or len(lits["context"]) != 8:
        raise GenError("_cfg['context']: not an 8-byte literal")
    if not isinstance(lits.get("option"), int) or isinstance(lits["option"], bool):
        raise GenError("_cfg['option']: not an int literal")
    probe = drv_mod.CIPDriver("10.0.0.1")
    if probe._cfg["context"] != lits["context"] or probe._cfg["option"] != lits["option"]:
        raise GenError("_cfg context/option: AST view differs from runtime")
    out.append(f"Definition driver_context : list Z := {zb(lits['context'])}.\n")
    out.append(f"Definition driver_option : Z := {lits['option']}.\n")

    gm = _find_method(drv_tree, "CIPDriver", "generic_message")
    names = [a.arg for a in gm.args.args]
    defaults = dict(zip(names[len(names) - len(gm.args.defaults):], gm.args.defaults))
    want = ["self", "service", "class_code", "instance", "attribute", "request_data", "data_type", "name", "connected",
            "unconnected_send", "route_path"]
    if names != want:
        raise GenError(f"generic_message: parameters are {names}")

    def lit(n):
        v = defaults.get(n)
        if not isinstance(v, ast.Constant):
            raise GenError(f"generic_message: default of {n} is not a literal")
        return v.value
    if lit("attribute") != b"" or lit("request_data") != b"" or lit("data_type") is not None:
        raise GenError("generic_message: defaults of attribute / request_data / data_type changed")
    for n in ("connected", "unconnected_send", "route_path"):
        if not isinstance(lit(n), bool):
            raise GenError(f"generic_message: default of {n} is not a bool literal")
    import inspect
    sig = inspect.signature(drv_mod.CIPDriver.generic_message)
    for n in ("connected", "unconnected_send", "route_path", "name"):
        if sig.parameters[n].default != lit(n):
            raise GenError(f"generic_message: default of {n}: AST view differs from runtime")
    out.append(f"Definition gm_default_connected : bool := {coq_bool(lit('connected'))}.\n")
    out.append(f"Definition gm_default_unconnected_send : bool := {coq_bool(lit('unconnected_send'))}.\n")
    out.append(f"Definition gm_default_route_path_true : bool := {coq_bool(lit('route_path'))}.\n")
    out.append(f"Definition gm_default_name : list Z := {zs(lit('name'))}.\n")

    # ---- helper calls
    out.append("\n(* the keyword arguments of the one `self.generic_message(...)` call of each helper.\n"
               "   flags: -1 absent (the default applies), 0 False, 1 True, 2 `not self._micro800`;\n"
               "   gc_route: -1 absent, 5 = PADDED_EPATH.encode(( *cip_path[:-1], PortSegment(\"bp\", slot)), length=True, pad_length=True);\n"
               "   gc_data_type: \"\" absent/None, a class name, or \"Struct\" (members in <helper>_struct);\n"
               "   struct members as in Gen/CodecFacts.v: (key, (type name, parameter)); key None = a type CLASS, Some name = an\n"
               "   instance (n_bytes(k) = BYTES k with the default name \"\") *)\n"
               "Record gm_call := {\n"
               "  gc_service : list Z; gc_class : list Z; gc_instance : Z + list Z; gc_attribute : option (Z + list Z);\n"
               "  gc_request_data : option (list Z); gc_data_type : list Z; gc_name : option (list Z);\n"
               "  gc_connected : Z; gc_unconnected_send : Z; gc_route : Z }.\n\n")
    mods = {"services": _import("pycomm3.cip.services"), "objlib": _import("pycomm3.cip.object_library")}
    lgx_tree = _parse("pycomm3/logix_driver.py")
    out.append(_call_record("call_get_module_info", _find_method(drv_tree, "CIPDriver", "get_module_info"),
                            "CIPDriver.get_module_info", mods))
    for h in ("get_plc_name", "get_plc_info", "get_plc_time", "set_plc_time"):
        fn = _find_method(lgx_tree, "LogixDriver", h)
        out.append(_call_record("call_" + h, fn, "LogixDriver." + h, mods, _local_structs(fn, "LogixDriver." + h)))
    # get_plc_time reads <result>.value["<key>"], <result> = the local the generic_message call is assigned to
    # (whatever it is called): the key(s) used
    gpt = _find_method(lgx_tree, "LogixDriver", "get_plc_time")
    results = set()
    for n in ast.walk(gpt):
        if isinstance(n, ast.Assign) and len(n.targets) == 1 and isinstance(n.targets[0], ast.Name) \
                and n.value in _gm_calls(gpt):
            results.add(n.targets[0].id)
    if len(results) != 1:
        raise GenError(f"get_plc_time: the generic_message result is assigned to {sorted(results)}")
    result = next(iter(results))
    keys = set()
    for n in ast.walk(gpt):
        if isinstance(n, ast.Subscript) and isinstance(n.value, ast.Attribute) and n.value.attr == "value" \
                and isinstance(n.value.value, ast.Name) and n.value.value.id == result:
            if not isinstance(n.slice, ast.Constant):
                raise GenError("get_plc_time: <result>.value[...] with a non-literal key")
            keys.add(n.slice.value)
    if len(keys) != 1 or not isinstance(next(iter(keys)), str):
        raise GenError(f"get_plc_time: <result>.value[...] keys are {sorted(map(repr, keys))}")
    out.append(f"Definition get_plc_time_key : list Z := {zs(next(iter(keys)))}.\n")
    # the decorated helper: get_plc_name is @with_forward_open
    gpn = _find_method(lgx_tree, "LogixDriver", "get_plc_name")
    decos = [d.id for d in gpn.decorator_list if isinstance(d, ast.Name)]
    out.append(f"Definition get_plc_name_with_forward_open : bool := {coq_bool('with_forward_open' in decos)}.\n")

    # ---- packets/util.py: wrap_unconnected_send
    util_tree = _parse("pycomm3/packets/util.py")
    wus = _find_func(util_tree, "wrap_unconnected_send")
    rp_call = None
    join_list = None
    rp_name = len_name = None
    params = [a.arg for a in wus.args.args]
    if len(params) != 2:
        raise GenError("wrap_unconnected_send: parameters changed")
    p_msg, p_route = params
    for n in ast.walk(wus):
        if isinstance(n, ast.Assign) and len(n.targets) == 1 and isinstance(n.targets[0], ast.Name):
            if isinstance(n.value, ast.Call) and isinstance(n.value.func, ast.Name) and n.value.func.id == "request_path":
                rp_name = n.targets[0].id
            if _dump(n.value) == f"Call(func=Name(id='len'), args=[Name(id='{p_msg}')], keywords=[])":
                len_name = n.targets[0].id
        if isinstance(n, ast.Call) and isinstance(n.func, ast.Name) and n.func.id == "request_path":
            rp_call = n
        if isinstance(n, ast.Call) and isinstance(n.func, ast.Attribute) and n.func.attr == "join" and n.args \
                and isinstance(n.args[0], ast.List):
            join_list = n.args[0]
    if rp_call is None or join_list is None or rp_name is None or len_name is None:
        raise GenError("wrap_unconnected_send: request_path(...) / len(message) / b''.join([...]) not found")
    kws = {k.arg: k.value for k in rp_call.keywords}
    if set(kws) != {"class_code", "instance"} or rp_call.args:
        raise GenError("wrap_unconnected_send: request_path keywords changed")
    cname, cval = _enum_member(kws["class_code"], "ClassCode", mods["objlib"], "wrap_unconnected_send.class_code")
    out.append(f"\nDefinition ucsend_class : list Z := {zb(cval)} (* ClassCode.{cname} *).\n")
    out.append(f"Definition ucsend_instance : Z + list Z := {_id_literal(kws['instance'], 'wrap_unconnected_send.instance')}.\n")
    parts = []
    for e in join_list.elts:
        d = _dump(e)
        known = {
            "Attribute(value=Name(id='ConnectionManagerServices'), attr='unconnected_send')": "service",
            f"Name(id='{rp_name}')": "path", "Name(id='PRIORITY')": "priority", "Name(id='TIMEOUT_TICKS')": "ticks",
            f"Call(func=Attribute(value=Name(id='UINT'), attr='encode'), args=[Name(id='{len_name}')], keywords=[])": "length",
            f"Name(id='{p_msg}')": "message",
            f"IfExp(test=BinOp(left=Name(id='{len_name}'), op=Mod(), right=Constant(value=2)), body=Constant(value=b'\\x00'), orelse=Constant(value=b''))": "pad",
            f"Name(id='{p_route}')": "route",
            # `route_path or b"\x00\x00"`: an absent route is sent as an empty route (size 0, reserved 0)
            f"BoolOp(op=Or(), values=[Name(id='{p_route}'), Constant(value=b'\\x00\\x00')])": "route_or_empty",
        }
        if d not in known:
            raise GenError(f"wrap_unconnected_send: unrecognised joined part {d[:80]}")
        parts.append(known[d])
    out.append("(* order of the parts joined by wrap_unconnected_send *)\n")
    out.append("Definition ucsend_parts : list (list Z) := [" + "; ".join(zs(p) for p in parts) + "].\n")
    cms = _import("pycomm3.cip.services").ConnectionManagerServices
    out.append(f"Definition ucsend_service : list Z := {zb(cms.__dict__['unconnected_send'])}.\n")

    # ---- Python runtime: datetime.max in microseconds since the epoch used by get_plc_time
    ep = None
    for n in ast.walk(gpt):
        if isinstance(n, ast.Call) and _dump(n.func) == "Attribute(value=Name(id='datetime'), attr='datetime')":
            try:
                ep = tuple(ast.literal_eval(a) for a in n.args)
            except Exception:
                raise GenError("get_plc_time: epoch is not a literal date")
    if ep is None:
        raise GenError("get_plc_time: no datetime.datetime(...) epoch")
    epoch = datetime.datetime(*ep)
    d = datetime.datetime.max - epoch
    us = (d.days * 86400 + d.seconds) * 1000000 + d.microseconds
    # is the datetime arithmetic of get_plc_time inside `try: ... except OverflowError:`?
    catches = False
    for n in ast.walk(gpt):
        if isinstance(n, ast.Try):
            inside = any(isinstance(m, ast.Call) and _dump(m.func) == "Attribute(value=Name(id='datetime'), attr='datetime')"
                         for b in n.body for m in ast.walk(b))
            names = [h.type.id for h in n.handlers if isinstance(h.type, ast.Name)]
            if inside:
                if names != ["OverflowError"] or n.orelse or n.finalbody:
                    raise GenError("get_plc_time: unrecognised try/except around the datetime arithmetic")
                catches = True
    out.append(f"\n(* get_plc_time: `try: datetime(...) + timedelta(...); strftime except OverflowError: None` *)\n")
    out.append(f"Definition get_plc_time_catches_overflow : bool := {coq_bool(catches)}.\n")
    out.append(f"Definition ucsend_empty_route : list Z := [0; 0].\n")
    out.append(f"\nDefinition plc_time_epoch : list Z := [{'; '.join(str(x) for x in ep)}].\n")
    out.append(f"Definition datetime_max_us : Z := {us}.\n")
    return "".join(out)


GENERATORS = {"GenericFacts.v": gen_generic_facts}
