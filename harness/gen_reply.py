"""gen_reply.py — regenerated facts for the C13 vertical (reply classification): coq/Gen/ReplyTables.v.

Fail-closed like gen_tables.py: every fact is read from the source with `ast` (declared shape) and
cross-checked against the imported runtime object; anything not in the recognised shape raises
GenError(<construct>).

Facts:
  multi_packet_services : the members of cip/services.py:MULTI_PACKET_SERVICES (a set literal of
      `Services.<member>` attributes), as (member name, bytes value) in declaration order;
  reply_exc_bases : which of the library exception classes derive from PycommError / DataError
      (the model's `is_library` relies on BufferEmptyError <: DataError <: PycommError).
"""
import ast

from gen_tables import GenError, HEADER, _import, _parse, zb, zs


def gen_reply_tables():
    tree = _parse("pycomm3/cip/services.py")
    mod = _import("pycomm3.cip.services")
    node = None
    for st in tree.body:
        if isinstance(st, ast.Assign) and len(st.targets) == 1 and isinstance(st.targets[0], ast.Name) \
                and st.targets[0].id == "MULTI_PACKET_SERVICES":
            if node is not None:
                raise GenError("MULTI_PACKET_SERVICES: assigned twice")
            node = st.value
    if node is None:
        raise GenError("MULTI_PACKET_SERVICES: not assigned at module level")
    if not isinstance(node, ast.Set):
        raise GenError("MULTI_PACKET_SERVICES: not a set literal")
    names = []
    for e in node.elts:
        if not (isinstance(e, ast.Attribute) and isinstance(e.value, ast.Name) and e.value.id == "Services"):
            raise GenError("MULTI_PACKET_SERVICES: element is not Services.<member>")
        names.append(e.attr)
    rt = mod.MULTI_PACKET_SERVICES
    if not isinstance(rt, (set, frozenset)):
        raise GenError("MULTI_PACKET_SERVICES: runtime object is not a set")
    rows = []
    for n in names:
        if n not in mod.Services.__dict__:
            raise GenError(f"MULTI_PACKET_SERVICES: Services.{n} not a declared member")
        v = mod.Services.__dict__[n]
        if not isinstance(v, bytes) or len(v) != 1:
            raise GenError(f"MULTI_PACKET_SERVICES: Services.{n} is not a one-byte value")
        rows.append((n, v))
    if {v for _, v in rows} != set(rt) or len(rows) != len(rt):
        raise GenError("MULTI_PACKET_SERVICES: AST view differs from the runtime set")
    # any later rebinding / mutation of the name in the module would make the literal meaningless
    for st in ast.walk(tree):
        if isinstance(st, (ast.AugAssign, ast.AnnAssign)) and isinstance(getattr(st, "target", None), ast.Name) \
                and st.target.id == "MULTI_PACKET_SERVICES":
            raise GenError("MULTI_PACKET_SERVICES: rebound")
        if isinstance(st, ast.Attribute) and isinstance(st.value, ast.Name) and st.value.id == "MULTI_PACKET_SERVICES" \
                and st.attr in ("add", "update", "discard", "remove", "clear", "pop"):
            raise GenError("MULTI_PACKET_SERVICES: mutated")

    # exception hierarchy (exceptions.py): class X(Base) statements, cross-checked with issubclass
    etree = _parse("pycomm3/exceptions.py")
    emod = _import("pycomm3.exceptions")
    bases = {}
    for st in etree.body:
        if isinstance(st, ast.ClassDef):
            if len(st.bases) != 1 or not isinstance(st.bases[0], ast.Name):
                raise GenError(f"exceptions.{st.name}: unrecognised bases")
            bases[st.name] = st.bases[0].id
    want = ["PycommError", "CommError", "DataError", "BufferEmptyError", "ResponseError", "RequestError"]
    for n in want:
        if n not in bases:
            raise GenError(f"exceptions.{n}: not declared")
        cls = getattr(emod, n)
        if cls.__bases__[0].__name__ != bases[n]:
            raise GenError(f"exceptions.{n}: AST base differs from runtime")

    def derives(n, root):
        seen = 0
        while n != root:
            if n not in bases or seen > 10:
                return False
            n = bases[n]
            seen += 1
        return True

    for n in want:
        if derives(n, "PycommError") != issubclass(getattr(emod, n), emod.PycommError):
            raise GenError(f"exceptions.{n}: PycommError ancestry differs AST/runtime")
    if bases["PycommError"] != "Exception":
        raise GenError("exceptions.PycommError: not derived from Exception")

    out = [HEADER]
    out.append("(* cip/services.py: MULTI_PACKET_SERVICES = {Services.<member>, ...}: (member, value) *)\n")
    out.append("Definition multi_packet_services : list (list Z * list Z) := [\n")
    out.append(";\n".join(f"  ({zs(n)}, {zb(v)})" for n, v in rows))
    out.append("].\n\n")
    out.append("(* exceptions.py: (class, derives from PycommError, derives from DataError) *)\n")
    out.append("Definition library_exceptions : list (list Z * bool * bool) := [\n")
    out.append(";\n".join(
        f"  ({zs(n)}, {'true' if derives(n, 'PycommError') else 'false'}, {'true' if derives(n, 'DataError') else 'false'})"
        for n in want))
    out.append("].\n")
    return "".join(out)


GENERATORS = {"ReplyTables.v": gen_reply_tables}
