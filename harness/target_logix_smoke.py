"""target_logix_smoke.py — smoke / calibration run of the LOGIX half of the reference target against
the REAL pycomm3 LogixDriver (run: cd /verif && PYTHONPATH=/repo timeout 600 /venv/bin/python
harness/target_logix_smoke.py [--n 30] [--seed 1] [--no-calib] [--no-sweep] [-v]).

 1. N random scenarios (harness/scenarios.py): open() with full tag upload, compare tags /
    data_types / programs with `view`; read a sample of requests and compare with `refread`;
    write values and compare the target memory with `refwrite` and a following read.
 2. size sweep: array tags around the connection size, read and written, looking for oversize /
    reply-too-large events and wrong fragment tiling.
 3. calibration: projects rebuilt from /repo/tests/offline/*.json (real-controller uploads) are
    served by the target, uploaded by the real driver and must reproduce the fixture.
This is not a property check: it prints observations; the exit status is 1 only when the
calibration fails (= the target is wrong)."""
import argparse
import collections
import json
import os
import random
import signal
import sys
import time
import traceback

HERE = os.path.dirname(os.path.abspath(__file__))
sys.path.insert(0, HERE)
import target as T          # noqa: E402
import scenarios as S       # noqa: E402
import refview as RV        # noqa: E402

from pycomm3 import LogixDriver          # noqa: E402
import logging                           # noqa: E402
logging.disable(logging.CRITICAL)

REPO = os.environ.get("VERIF_REPO", "/repo")


class Timeout(Exception):
    pass


def _alarm(sig, frm):
    raise Timeout()


signal.signal(signal.SIGALRM, _alarm)


class Obs:
    def __init__(self, verbose=False):
        self.c = collections.Counter()
        self.examples = collections.defaultdict(list)
        self.verbose = verbose

    def note(self, cls, detail=None, keep=4):
        self.c[cls] += 1
        if detail is not None and len(self.examples[cls]) < keep:
            self.examples[cls].append(detail)

    def report(self):
        for k in sorted(self.c):
            print(f"  {self.c[k]:6d}  {k}")
            for e in self.examples.get(k, []):
                print(f"            e.g. {e}")


def load(tp, sc):
    tp.reset()
    tp.lines(sc.cfg_lines())
    tp.lines(sc.lines())
    wf = tp.ask("wf")
    if wf[1:3] != [1, 1]:
        raise RuntimeError(f"generated scenario is not well-formed: {wf}")


def uses_big_instance(sc, req, drv):
    """the request goes out with a symbol instance id above 65535 (32-bit logical segment)"""
    if not drv._cfg["use_instance_ids"] or req.startswith("Program:"):
        return False
    base = req.split(".")[0].split("[")[0].split("{")[0]
    for g in sc.tags:
        if g["prog"] is None and g["name"] == base:
            return g["inst"] > 65535
    return False


def run_scenario(seed, obs, n_reads=25, n_writes=12):
    rng = random.Random(seed)
    sc = S.gen_scenario(rng)
    tp = T.TargetProc("target")
    try:
        load(tp, sc)
        signal.alarm(60)
        t0 = time.time()
        try:
            drv = T.open_driver(LogixDriver, "10.0.0.1", tp)
        except Exception as e:        # noqa: BLE001
            obs.note("open() FAILED", f"seed {seed} big_ids={sc.note['big_ids']}: {e!r} / {e.__cause__!r}")
            return
        obs.note("scenarios opened")
        v = RV.view(tp)
        diffs = RV.diff_upload(v, drv)
        obs.c["tags uploaded"] += len(drv.tags)
        for d in diffs:
            obs.note("UPLOAD DIFFERENCE", f"seed {seed}: {d}", keep=12)
        try:
            json.dumps(drv.tags_json)
        except Exception as e:        # noqa: BLE001
            obs.note("tags_json not serialisable", f"seed {seed}: {e!r}")
        bad = T.bad_events(tp.log())
        for e in bad:
            obs.note(f"bad event during upload: {e['ev']} {e.get('service')} why={e.get('why')}", f"seed {seed}: {e}")
        mark = tp.log_size()

        # ---- reads, one call with several requests and single calls
        reqs = S.gen_read_requests(rng, sc, n_reads)
        results = drv.read(*reqs)
        if not isinstance(results, list):
            results = [results]
        if len(results) != len(reqs):
            obs.note("READ RESULT COUNT", f"seed {seed}: {len(results)} for {len(reqs)} requests")
        singles = [(r, drv.read(r)) for r in reqs[:6]]
        for e in T.bad_events(tp.log(mark)):
            if not (e["ev"] == "malformed" and e["why"] == 8 and False):
                obs.note(f"bad event during VALID reads: {e['ev']} svc={e.get('service')} why={e.get('why')}", f"seed {seed}: {e}")
        # invalid requests mixed with valid ones
        inval = S.gen_invalid_requests(rng, sc, 4)
        mixed = reqs[:5] + [r for _, r in inval]
        rng.shuffle(mixed)
        mres = drv.read(*mixed)
        for req, res in list(zip(reqs, results)) + singles + list(zip(mixed, mres)):
            exp = RV.refread(tp, req)
            if exp is None:
                if res:
                    obs.note("READ of a non-existent address succeeded", f"seed {seed}: {req} -> {res!r}")
                else:
                    obs.note("invalid read answered falsy")
                continue
            if not res:
                obs.note("VALID READ FAILED", f"seed {seed} rev {drv.revision_major} big={uses_big_instance(sc, req, drv)}: {req}: {res.error}", keep=10)
                continue
            okv = RV.same_value(exp["value"], res.value)
            okt = res.type == exp["type"]
            if okv and okt:
                obs.note("reads correct")
                if uses_big_instance(sc, req, drv):
                    obs.note("reads correct through a symbol instance id > 65535")
            else:
                if not okv:
                    obs.note("READ VALUE DIFFERS", f"seed {seed}: {req}: got {res.value!r} expected {RV.to_python(exp['value'])!r}", keep=10)
                if not okt:
                    obs.note("READ TYPE STRING DIFFERS", f"seed {seed}: {req}: got {res.type!r} expected {exp['type']!r}", keep=10)
        mark = tp.log_size()

        # ---- writes
        for req, val in S.gen_write_requests(rng, sc, n_writes):
            exp = RV.refwrite(tp, req, val)
            if exp is None:
                obs.note("generated write has no reference (generator slip)", f"seed {seed}: {req} {val!r}")
                continue
            inst, image = exp
            before = {i: RV.dump_mem(tp, i) for i in sc.mem}
            m0 = tp.log_size()
            try:
                res = drv.write((req, RV.to_python(val)))
            except Exception as e:    # noqa: BLE001
                obs.note("WRITE RAISED", f"seed {seed}: {req}: {e!r}")
                continue
            evs = tp.log(m0)
            applied = [e for e in evs if e["ev"] == "app" and e["tag"] == 1]
            if not res:
                obs.note("VALID WRITE FAILED", f"seed {seed} big={uses_big_instance(sc, req, drv)}: {req} = {RV.to_python(val)!r}: {res.error}", keep=10)
                continue
            after = {i: RV.dump_mem(tp, i) for i in sc.mem}
            if after[inst] != image:
                # bytes the reference leaves unspecified (hidden members / padding of a structure) may differ:
                # compare through the reference reading
                back = RV.refread(tp, req)
                want = val[1][0] if (back is not None and back["count"] == 1 and val[0] == "L") else val
                if back is None or RV.to_python(back["value"]) != RV.to_python(want):
                    obs.note("WRITE: MEMORY DIFFERS FROM REFERENCE", f"seed {seed}: {req} = {RV.to_python(val)!r}", keep=10)
                else:
                    obs.note("write correct up to unspecified bytes")
            else:
                obs.note("writes correct (memory byte-for-byte)")
            for i in sc.mem:
                if i != inst and before[i] != after[i]:
                    obs.note("WRITE CHANGED ANOTHER TAG", f"seed {seed}: {req} changed instance {i}")
            if len(applied) < 1:
                obs.note("WRITE reported success but nothing was applied", f"seed {seed}: {req}")
            rb = drv.read(req)
            e2 = RV.refread(tp, req)
            if not rb or e2 is None or not RV.same_value(e2["value"], rb.value):
                obs.note("READ AFTER WRITE DIFFERS", f"seed {seed}: {req}: {rb!r}")
            sc.mem[inst] = after[inst]
        # ---- strings longer than the capacity: truncated (C02)
        for g in [g for g in sc.data_tags() if g["kind"] == "s" and not g["dims"] and not S._hidden_tag(g)
                  and sc.is_string(sc.template(g["code"]))][:2]:
            cap = sc.template(g["code"])["members"][1]["arr"]
            name = sc.full_name(g)
            for n in (cap + 1, cap + rng.randint(2, 9)):
                text = "".join(chr(rng.randint(65, 90)) for _ in range(n))
                inst, image = RV.refwrite(tp, name, ("s", text))
                res = drv.write((name, text))
                if not res:
                    obs.note("OVER-CAPACITY STRING WRITE FAILED", f"seed {seed}: {name} capacity {cap}, {n} chars: {res.error}")
                elif RV.dump_mem(tp, inst) != image:
                    obs.note("OVER-CAPACITY STRING: MEMORY DIFFERS FROM REFERENCE", f"seed {seed}: {name} capacity {cap}, {n} chars")
                else:
                    obs.note("over-capacity string writes truncated correctly")
                sc.mem[inst] = RV.dump_mem(tp, inst)
        for e in T.bad_events(tp.log(mark)):
            if not (e["ev"] == "malformed" and e["why"] == 8 and False):
                obs.note(f"bad event during writes: {e['ev']} svc={e.get('service')} why={e.get('why')}", f"seed {seed}: {e}")
        drv.close()
        obs.c["seconds in scenarios"] += int(time.time() - t0)
    except Timeout:
        obs.note("TIMEOUT (hang?)", f"seed {seed}")
    except Exception:                 # noqa: BLE001
        obs.note("HARNESS ERROR", f"seed {seed}: {traceback.format_exc()[-600:]}")
    finally:
        signal.alarm(0)
        tp.close()


# ------------------------------------------------------------------ size sweep
def sweep(obs, large, sizes, tname="SINT", frag=()):
    """tags of `sizes` elements: single read, multi read, single write, multi write"""
    rng = random.Random(7)
    sc = S.gen_scenario(rng, n_tags=1, big_ids=0, sized=[(tname, n) for n in sizes], programs=False, policies=False)
    sc.policy["frag"] = list(frag)
    sc.cfg["accept_large_fo"] = 1 if large else 0
    tp = T.TargetProc("target")
    try:
        load(tp, sc)
        signal.alarm(280)
        drv = T.open_driver(LogixDriver, "10.0.0.1", tp)
        conn = drv.connection_size
        mark = tp.log_size()
        bigs = [g for g in sc.tags if g["name"].startswith("Big")]
        small = [g for g in sc.data_tags() if not S._hidden_tag(g) and not g["name"].startswith("Big")][0]
        esize = S.ATOMS[tname][1]
        for g in bigs:
            n = g["dims"][0]
            req = f"{g['name']}{{{n}}}"
            exp = RV.refread(tp, req)
            for mode in ("single", "multi"):
                m0 = tp.log_size()
                if mode == "single":
                    res = drv.read(req)
                else:
                    res = drv.read(req, sc.full_name(small))[0]
                evs = tp.log(m0)
                bad = T.bad_events(evs)
                key = f"sweep conn={conn} {tname} {mode} read"
                if bad:
                    obs.note(f"{key}: BAD EVENT {bad[0]['ev']}", f"{n} elements ({n * esize} bytes): {bad[0]}", keep=8)
                if not res or not RV.same_value(exp["value"], res.value):
                    obs.note(f"{key}: WRONG/FAILED", f"{n} elements ({n * esize} bytes): {getattr(res, 'error', None)}", keep=8)
                else:
                    obs.note(f"{key}: ok")
                # fragment tiling
                fr = [e for e in evs if e["ev"] == "request" and e["service"] == 0x52]
                offs = [int.from_bytes(e["data"][2:6], "little") for e in fr]
                if fr and (offs[0] != 0 or sorted(offs) != offs or len(set(offs)) != len(offs)):
                    obs.note(f"{key}: FRAGMENT OFFSETS", f"{n} elements: {offs[:8]}")
            val = S.rand_value(rng, sc, "a", g["code"], n)
            for mode in ("single", "multi"):
                image = RV.refwrite(tp, req, val)[1]
                m0 = tp.log_size()
                if mode == "single":
                    res = drv.write((req, RV.to_python(val)))
                else:
                    res = drv.write((req, RV.to_python(val)), (sc.full_name(small), RV.to_python(S.rand_value(rng, sc, small["kind"], small["code"]))))[0]
                evs = tp.log(m0)
                bad = T.bad_events(evs)
                key = f"sweep conn={conn} {tname} {mode} write"
                fr = [e for e in evs if e["ev"] == "request" and e["service"] == 0x53]
                if fr:
                    pos, tiled = 0, True
                    for e in fr:
                        tl = 4 if e["data"][:2] == b"\xa0\x02" else 2
                        off = int.from_bytes(e["data"][tl + 2:tl + 6], "little")
                        tiled = tiled and off == pos
                        pos = off + len(e["data"]) - tl - 6
                    if not tiled or pos != n * esize:
                        obs.note(f"{key}: FRAGMENTS DO NOT TILE THE VALUE", f"{n} elements")
                    obs.note(f"{key}: fragmented transfers")
                    if any(e["ev"] == "app" and e["tag"] == 3 for e in evs):
                        obs.note(f"{key}: transfers with fragments that split an element (accepted, EvApp 3)")
                if any(e["ev"] == "request" and len(e["path"]) + len(e["data"]) + 4 > conn for e in evs):
                    obs.note(f"{key}: REQUEST LARGER THAN THE CONNECTION", f"{n} elements")
                if bad:
                    obs.note(f"{key}: BAD EVENT {bad[0]['ev']} why={bad[0].get('why')}", f"{n} elements ({n * esize} bytes): {bad[0]}", keep=8)
                if not res or RV.dump_mem(tp, g["inst"]) != image:
                    obs.note(f"{key}: WRONG/FAILED", f"{n} elements ({n * esize} bytes): {getattr(res, 'error', None)}", keep=8)
                else:
                    obs.note(f"{key}: ok")
        drv.close()
    except Timeout:
        obs.note("sweep TIMEOUT")
    except Exception:                 # noqa: BLE001
        obs.note("sweep HARNESS ERROR", traceback.format_exc()[-800:])
    finally:
        signal.alarm(0)
        tp.close()


# ------------------------------------------------------------------ calibration
NAME_CODE = {n: c for c, n in RV.ATOM_NAMES.items()}
ACCESS_CODE = {v: k for k, v in RV.EXTERNAL_ACCESS.items()}


def project_from_fixture(path):
    """rebuild a project (Scenario) from a tags_json fixture uploaded from a real controller"""
    fx = json.load(open(path))
    sc = S.Scenario()
    by_name = {}                      # data type name -> template dict
    next_free = [0xEFF]

    def ensure(dt, tid_hint=None):
        name = dt["name"]
        if name in by_name:
            t = by_name[name]
            if tid_hint is not None and t.get("_auto"):
                t["id"] = tid_hint
                t["_auto"] = False
            return t
        members = []
        for mn, mi in dt["internal_tags"].items():
            if mi["tag_type"] == "struct":
                sub = ensure(mi["data_type"])
                kind, code = "s", sub
            else:
                kind, code = "a", NAME_CODE[mi["data_type"]]
            hidden = mn not in dt["attributes"] or mn.startswith(("ZZZZZZZZZZ", "__"))
            members.append({"name": mn, "kind": kind, "code": code, "arr": mi.get("array", 0) or 0, "off": mi["offset"],
                            "bit": mi.get("bit", 0) if mi["data_type_name"] == "BOOL" else 0, "hidden": hidden})
        tm = dt["template"]
        wire_name = "ASCIISTRING82" if name == "STRING" else name
        t = {"id": tid_hint, "_auto": tid_hint is None, "name": wire_name, "tail": "n0", "handle": tm["structure_handle"],
             "size": tm["structure_size"], "defsize": tm["object_definition_size"], "members": members,
             "fixture_member_count": tm["member_count"]}
        by_name[name] = t
        sc.templates.append(t)
        return t

    for name, tag in fx.items():
        if tag["tag_type"] == "struct":
            ensure(tag["data_type"], tag["template_instance_id"])
    used = {t["id"] for t in sc.templates if t["id"] is not None}
    for t in sc.templates:
        if t["id"] is None:
            while next_free[0] in used:
                next_free[0] -= 1
            t["id"] = next_free[0]
            used.add(t["id"])
    for t in sc.templates:
        for m in t["members"]:
            if m["kind"] == "s":
                m["code"] = m["code"]["id"]
        # predefined-range ids name their type without ";"; their CTL / Control host is internal
        if t["id"] < 0x100 or t["id"] > 0xEFF:
            t["tail"] = None
            for m in t["members"]:
                if m["name"] in ("CTL", "Control"):
                    m["hidden"] = True
    # nested templates must come first
    order, done = [], set()

    def visit(t):
        if t["id"] in done:
            return
        for m in t["members"]:
            if m["kind"] == "s":
                visit(next(x for x in sc.templates if x["id"] == m["code"]))
        done.add(t["id"])
        order.append(t)
    for t in list(sc.templates):
        visit(t)
    sc.templates = order
    progs = set()
    for name, tag in fx.items():
        prog, base = None, name
        if name.startswith("Program:"):
            prog, base = name[8:].split(".", 1)
            if prog not in progs:
                progs.add(prog)
                sc.tags.append({"name": "Program:" + prog, "inst": 60000 + len(progs), "prog": None, "kind": "o", "code": 0x1068,
                                "dims": [], "bitpos": 0, "system": False, "access": 0, "attr3": 0, "attr5": 0, "attr6": 0})
        if tag["tag_type"] == "struct":
            kind, code = "s", tag["template_instance_id"]
        else:
            kind, code = "a", NAME_CODE[tag["data_type"]]
        sc.tags.append({"name": base, "inst": tag["instance_id"], "prog": prog, "kind": kind, "code": code,
                        "dims": tag["dimensions"][:tag["dim"]], "bitpos": tag.get("bit_position", 0), "system": False,
                        "access": ACCESS_CODE[tag["external_access"]], "attr3": tag["symbol_address"],
                        "attr5": tag["symbol_object_address"], "attr6": tag["software_control"]})
    # instance ids must be distinct over all scopes in the target: move colliding program tags
    seen = set()
    taken = {g["inst"] for g in sc.tags}
    for g in sc.tags:
        if g["inst"] in seen:
            g["_moved"] = g["inst"]
            g["inst"] = next(i for i in range(20000, 65536) if i not in taken)
            taken.add(g["inst"])
        seen.add(g["inst"])
    for g in sc.data_tags():
        sc.mem[g["inst"]] = bytes(sc.tag_size(g))
    return fx, sc


def calibrate(obs, path):
    fx, sc = project_from_fixture(path)
    label = os.path.basename(path)
    moved = {sc.full_name(g): g["_moved"] for g in sc.tags if "_moved" in g}
    sc.cfg["rev_major"] = 32
    tp = T.TargetProc("target")
    ok = True
    try:
        tp.reset()
        tp.lines(sc.cfg_lines())
        tp.lines(sc.lines())
        wf = tp.ask("wf")
        if wf[1:3] != [1, 1]:
            obs.note(f"calibration {label}: rebuilt project NOT well-formed {wf}")
            return False
        for t in sc.templates:
            if t["fixture_member_count"] != len(t["members"]):
                obs.note(f"calibration {label}: member_count of fixture differs from its own member list",
                         f"{t['name']}: {t['fixture_member_count']} vs {len(t['members'])}")
        signal.alarm(120)
        drv = T.open_driver(LogixDriver, "10.0.0.1", tp)
        got = json.loads(json.dumps(drv.tags_json))
        # the fixtures predate pycomm3's rule that the CTL / Control host of a predefined type is internal
        predefined = {("STRING" if t["name"] == "ASCIISTRING82" else t["name"]) for t in sc.templates if t["tail"] is None}

        def norm(d):
            if isinstance(d, dict):
                d = {k: norm(x) for k, x in d.items()}
                if "attributes" in d and d.get("name") in predefined:
                    d["attributes"] = [a for a in d["attributes"] if a not in ("CTL", "Control")]
                return d
            if isinstance(d, list):
                return [norm(x) for x in d]
            return d
        fx = norm(fx)
        got = norm(got)
        for name, e in fx.items():
            g = got.get(name)
            if g is None:
                obs.note(f"calibration {label}: TAG MISSING", name)
                ok = False
                continue
            if name in moved:
                e = dict(e, instance_id=g["instance_id"])
            if g != e:
                ok = False
                diffs = [k for k in set(e) | set(g) if e.get(k) != g.get(k)]
                obs.note(f"calibration {label}: TAG DIFFERS", f"{name}: fields {diffs}: " +
                         "; ".join(f"{k}: fixture {str(e.get(k))[:120]} / upload {str(g.get(k))[:120]}" for k in diffs[:3]), keep=6)
            else:
                obs.note(f"calibration {label}: tags reproduced")
        for name in got:
            if name not in fx:
                ok = False
                obs.note(f"calibration {label}: TAG INVENTED", name)
        for e in T.bad_events(tp.log()):
            obs.note(f"calibration {label}: bad event {e['ev']} {e.get('service')} why={e.get('why')}", str(e))
        drv.close()
    except Timeout:
        obs.note(f"calibration {label}: TIMEOUT")
        ok = False
    except Exception:                 # noqa: BLE001
        obs.note(f"calibration {label}: ERROR", traceback.format_exc()[-1200:])
        ok = False
    finally:
        signal.alarm(0)
        tp.close()
    return ok


def defsize_consistency(obs, path):
    """the target's COMPUTED object definition size vs the real controller's figure"""
    fx, sc = project_from_fixture(path)
    tp = T.TargetProc("target")
    try:
        real = {t["id"]: t["defsize"] for t in sc.templates}
        for t in sc.templates:
            t["defsize"] = 0
        tp.lines(sc.lines())
        v = RV.view(tp)
        for tid, vt in v["types"].items():
            d = vt["defsize"] - real[tid]
            obs.note(f"calibration {os.path.basename(path)}: computed definition size - controller's = {d:+d} words",
                     f"{vt['name']}: computed {vt['defsize']}, controller {real[tid]} ({vt['member_count']} members)", keep=3)
    finally:
        tp.close()


def main():
    ap = argparse.ArgumentParser()
    ap.add_argument("--n", type=int, default=30)
    ap.add_argument("--seed", type=int, default=1)
    ap.add_argument("--no-calib", action="store_true")
    ap.add_argument("--no-sweep", action="store_true")
    ap.add_argument("--no-random", action="store_true")
    ap.add_argument("-v", action="store_true")
    a = ap.parse_args()
    obs = Obs(a.v)
    t0 = time.time()
    ok = True
    if not a.no_calib:
        for f in ("all_tags.json", "controller_tags.json"):
            p = os.path.join(REPO, "tests", "offline", f)
            ok = calibrate(obs, p) and ok
            defsize_consistency(obs, p)
    if not a.no_random:
        for k in range(a.n):
            if time.time() - t0 > 400:
                obs.note("stopped early (time budget)")
                break
            run_scenario(a.seed * 1000 + k, obs)
    if not a.no_sweep:
        for large, centre in ((True, 4000), (False, 500)):
            if time.time() - t0 > 520:
                obs.note("sweep skipped (time budget)")
                break
            sizes = list(range(centre - 40, centre + 13)) + [2 * centre + 3, 3 * centre + 1]
            sweep(obs, large, sizes, "SINT")
            for tn, es in (("DINT", 4), ("REAL", 4), ("LINT", 8), ("INT", 2)):
                if time.time() - t0 > 540:
                    obs.note("sweep cut short (time budget)")
                    break
                c = centre // es
                ns = sorted(set([c + k for k in range(-8, 4)] + [2 * c + k for k in (-7, -6, -5, -4, -3, -2, -1, 0, 1)] + [3 * c + 1]))
                sweep(obs, large, ns, tn, frag=(7,) if tn == "DINT" else ())
    print(f"== target_logix_smoke: {time.time() - t0:.0f}s")
    obs.report()
    print("CALIBRATION", "OK" if ok else "FAILED")
    sys.exit(0 if ok else 1)


if __name__ == "__main__":
    main()
