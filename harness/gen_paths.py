"""gen_paths.py — regenerated facts of the CIP-path vertical (C09, C15) -> coq/Gen/PathTables.v.

Fail-closed like gen_tables.py: the class-body literals of PortSegment / LogicalSegment /
DataSegment (dict literals and integer constants) are read with `ast` and cross-checked with the
imported runtime classes; the `_auto_slot_cip_path` flags of the three drivers, the `padded` flags
of the EPATH classes and the class codes used by the path builders are taken the same way."""
import ast

from gen_tables import GenError, HEADER, _import, _parse, zb, zs, coq_bool


def _classdef(tree, name, where):
    for node in tree.body:
        if isinstance(node, ast.ClassDef) and node.name == name:
            return node
    raise GenError(f"{where}.{name}: class not found")


def _class_assign(cdef, attr):
    found = None
    for st in cdef.body:
        if isinstance(st, ast.Assign) and len(st.targets) == 1 and isinstance(st.targets[0], ast.Name) and st.targets[0].id == attr:
            found = st.value  # later assignment wins, as in Python
        elif isinstance(st, ast.AnnAssign) and isinstance(st.target, ast.Name) and st.target.id == attr and st.value is not None:
            found = st.value
    if found is None:
        raise GenError(f"{cdef.name}.{attr}: not assigned in the class body")
    return found


def _literal(cdef, attr):
    node = _class_assign(cdef, attr)
    try:
        return ast.literal_eval(node)
    except Exception:
        raise GenError(f"{cdef.name}.{attr}: not a literal")


def _checked(cdef, cls, attr, typ):
    lit = _literal(cdef, attr)
    rv = cls.__dict__.get(attr, None)
    if attr not in cls.__dict__:
        raise GenError(f"{cdef.name}.{attr}: missing in the runtime class dict")
    if lit != rv or type(lit) is not type(rv):
        raise GenError(f"{cdef.name}.{attr}: AST literal differs from runtime value")
    if not isinstance(rv, typ) or isinstance(rv, bool) and typ is int:
        raise GenError(f"{cdef.name}.{attr}: unexpected type {type(rv).__name__}")
    if isinstance(rv, dict):
        # literal_eval collapses duplicate keys exactly as the class body does; keep insertion order
        if list(lit.keys()) != list(rv.keys()):
            raise GenError(f"{cdef.name}.{attr}: key order differs")
    return rv


def gen_path_tables():
    tree = _parse("pycomm3/cip/data_types.py")
    mod = _import("pycomm3.cip.data_types")
    out = [HEADER]

    port_c, log_c, data_c, seg_c = (_classdef(tree, n, "data_types") for n in
                                    ("PortSegment", "LogicalSegment", "DataSegment", "CIPSegment"))
    # the methods the models follow must be where the models expect them
    for cdef, cls, meths in ((port_c, mod.PortSegment, ["_encode"]), (log_c, mod.LogicalSegment, ["_encode"]),
                             (data_c, mod.DataSegment, ["_encode"]), (seg_c, mod.CIPSegment, ["encode"])):
        for m in meths:
            if m not in cls.__dict__:
                raise GenError(f"{cdef.name}.{m}: method moved")
    for cls in (mod.PortSegment, mod.LogicalSegment, mod.DataSegment):
        if "encode" in cls.__dict__:
            raise GenError(f"{cls.__name__}.encode: overrides the CIPSegment wrapper")

    ports = _checked(port_c, mod.PortSegment, "port_segments", dict)
    for k, v in ports.items():
        if not isinstance(k, str) or isinstance(v, bool) or not isinstance(v, int):
            raise GenError(f"PortSegment.port_segments[{k!r}]: not str -> int")
    out.append("Definition port_segments : list (list Z * Z) := [\n" + ";\n".join(
        f"  ({zs(k)}, {v})" for k, v in ports.items()) + "].\n\n")
    out.append(f"Definition port_segment_type : Z := {_checked(port_c, mod.PortSegment, 'segment_type', int)}.\n")
    out.append(f"Definition port_extended_link : Z := {_checked(port_c, mod.PortSegment, 'extended_link', int)}.\n\n")

    ltypes = _checked(log_c, mod.LogicalSegment, "logical_types", dict)
    for k, v in ltypes.items():
        if not isinstance(k, str) or isinstance(v, bool) or not isinstance(v, int):
            raise GenError(f"LogicalSegment.logical_types[{k!r}]: not str -> int")
    out.append("Definition logical_types : list (list Z * Z) := [\n" + ";\n".join(
        f"  ({zs(k)}, {v})" for k, v in ltypes.items()) + "].\n\n")
    lfmt = _checked(log_c, mod.LogicalSegment, "logical_format", dict)
    for k, v in lfmt.items():
        if isinstance(k, bool) or not isinstance(k, int) or isinstance(v, bool) or not isinstance(v, int):
            raise GenError(f"LogicalSegment.logical_format[{k!r}]: not int -> int")
    out.append("(* value length in bytes -> format bits *)\n")
    out.append("Definition logical_format : list (Z * Z) := [" + "; ".join(f"({k}, {v})" for k, v in lfmt.items()) + "].\n")
    out.append(f"Definition logical_segment_type : Z := {_checked(log_c, mod.LogicalSegment, 'segment_type', int)}.\n\n")

    out.append(f"Definition data_segment_type : Z := {_checked(data_c, mod.DataSegment, 'segment_type', int)}.\n")
    out.append(f"Definition data_extended_symbol : Z := {_checked(data_c, mod.DataSegment, 'extended_symbol', int)}.\n\n")

    # padded flags of the EPATH classes
    for cname in ("EPATH", "PADDED_EPATH", "PACKED_EPATH"):
        cdef = _classdef(tree, cname, "data_types")
        v = _checked(cdef, getattr(mod, cname), "padded", bool)
        out.append(f"Definition padded_{cname} : bool := {coq_bool(v)}.\n")
    if "encode" in mod.PADDED_EPATH.__dict__ or "encode" in mod.PACKED_EPATH.__dict__:
        raise GenError("PADDED_EPATH/PACKED_EPATH.encode: overrides EPATH.encode")
    out.append("\n")

    # class codes used by the path builders (values of ClassCode members, bytes)
    ol = _import("pycomm3.cip.object_library")
    oltree = _parse("pycomm3/cip/object_library.py")
    cc = _classdef(oltree, "ClassCode", "object_library")
    for member in ("symbol_object", "connection_manager", "message_router"):
        v = _checked(cc, ol.ClassCode, member, bytes)
        out.append(f"Definition class_{member} : list Z := {zb(v)}.\n")
    out.append("\n")

    # the drivers that enable the bare-address / address-slot shortcuts
    for rel, modname, cname in (("pycomm3/cip_driver.py", "pycomm3.cip_driver", "CIPDriver"),
                                ("pycomm3/logix_driver.py", "pycomm3.logix_driver", "LogixDriver"),
                                ("pycomm3/slc_driver.py", "pycomm3.slc_driver", "SLCDriver")):
        t = _parse(rel)
        m = _import(modname)
        cdef = _classdef(t, cname, modname)
        cls = getattr(m, cname)
        try:
            lit = _literal(cdef, "_auto_slot_cip_path")
            declared = True
        except GenError:
            declared = False
        rv = getattr(cls, "_auto_slot_cip_path", None)
        if not isinstance(rv, bool):
            raise GenError(f"{cname}._auto_slot_cip_path: not a bool at runtime")
        if declared and lit is not rv:
            raise GenError(f"{cname}._auto_slot_cip_path: AST literal differs from runtime value")
        if not declared and "_auto_slot_cip_path" in cls.__dict__:
            raise GenError(f"{cname}._auto_slot_cip_path: assigned outside the class body")
        out.append(f"Definition auto_slot_{cname} : bool := {coq_bool(rv)}.\n")
    return "".join(out)


GENERATORS = {"PathTables.v": gen_path_tables}
