"""codec_common.py — shared machinery of the codec verticals (C06 round trip, C07 wire format,
C08 error algebra): type-term grammar, value generators, the implementation runner, the
canonical form of values/outcomes and the model <-> implementation correspondence.

Type descriptors ("td", plain tuples, hashable):
    ("elem", NAME)                       an exported elementary class (BOOL ... STRINGI), by name
    ("named", NAME)                      IPAddress Revision ModuleIdentityObject ListIdentityObject PCCC_ASCII PCCC_STRING
    ("nbytes", n)                        n_bytes(n)           (always an instance, as in the library)
    ("arr", n, e)                        Array(n, E) / E[n]
    ("arrp", inst, lt, e)                Array(L, E) with L a type class (inst=0) or an instance L() (inst=1)
    ("arrall", e)                        Array(None, E)
    ("struct", ((name|None, t), ...))    Struct(...): name None = the class itself / an unnamed instance
    ("fss", size, LENNAME, capacity)     FixedSizeString(size, LENNAME, capacity_=capacity); capacity None = default (= size)
    ("stag", ((name, off, t), ...), ((bitname, off, bit), ...), (private, ...), size)   StructTag(...)
`ty_tokens(td)` is the token form for bin/modelrun_codec, `ty_build(td)` the real pycomm3 type.

Python values are used as they are (None, bool, int, float, str, bytes, list, tuple, dict with
None/str keys, and pycomm3 type classes inside STRINGI tuples).  `val_tokens(v)` is the model's
token form, `canon(v)` the canonical comparable form:
    ("N",) ("B",0/1) ("I",n) ("F",bits64 with every NaN = 0x7ff8000000000000) ("S",(code points))
    ("Y",hex) ("L",(...)) ("T",(...)) ("D",((key,val),...)) in insertion order, key None or ("S",..)
    ("C",name)
Outcomes:  enc: ("ok",kind,hex) (kind 1 = a str was returned: code points instead of hex) | ("err",code) | ("hang",)
           dec: ("ok",canon,pos) | ("err",code) | ("empty",pos) | ("hang",)
with code as Base/Res.v exn_code (1 DataError, 2 BufferEmptyError, 10 TypeError, 11 ValueError,
12 KeyError, 13 IndexError, 14 struct.error, 15 OverflowError, 16 AttributeError, 17 StopIteration,
18 UnicodeError, 19 ZeroDivisionError, 20 NotImplementedError, 99 anything else).
"""
import math
import os
import pickle
import resource
import signal
import struct
import sys
from io import BytesIO

import framework as fw

NAN64 = 0x7FF8000000000000

NAMED = ("IPAddress", "Revision", "ModuleIdentityObject", "ListIdentityObject", "PCCC_ASCII", "PCCC_STRING")
INT_NAMES = {"SINT": (True, 1), "INT": (True, 2), "DINT": (True, 4), "LINT": (True, 8),
             "USINT": (False, 1), "UINT": (False, 2), "UDINT": (False, 4), "ULINT": (False, 8),
             "STIME": (True, 4), "DATE": (False, 2), "TIME_OF_DAY": (False, 4), "FTIME": (True, 4),
             "LTIME": (True, 8), "ITIME": (True, 2), "TIME": (True, 4)}
BITS_NAMES = {"BYTE": 1, "WORD": 2, "DWORD": 4, "LWORD": 8, "ENGUNIT": 2}
STR_NAMES = {"STRING": (2, "latin1"), "LOGIX_STRING": (4, "latin1"), "SHORT_STRING": (1, "latin1"), "STRING2": (2, "utf16")}


def _dt():
    import pycomm3.cip.data_types as dt
    return dt


def elem_names():
    """every exported concrete elementary class except the EPATH family (property C09)"""
    dt = _dt()
    out = []
    for n in dt.__all__:
        o = getattr(dt, n)
        if isinstance(o, type) and issubclass(o, dt.ElementaryDataType) and not issubclass(o, dt.EPATH):
            if o in (dt.ElementaryDataType, dt.StringDataType, dt.BytesDataType, dt.BitArrayType):
                continue
            out.append(n)
    return out


# ------------------------------------------------------------------ type terms
def _key_tok(k):
    return "-" if k is None else fw.t_text(k)


def ty_tokens(td):
    k = td[0]
    if k in ("elem", "named"):
        return [td[1]]
    if k == "nbytes":
        return ["nbytes", str(td[1])]
    if k == "arr":
        return ["arr", str(td[1])] + ty_tokens(td[2])
    if k == "arrp":
        return ["arrp", str(int(td[1]))] + ty_tokens(td[2]) + ty_tokens(td[3])
    if k == "arrall":
        return ["arrall"] + ty_tokens(td[1])
    if k == "struct":
        out = ["struct", str(len(td[1]))]
        for name, t in td[1]:
            out += [_key_tok(name)] + ty_tokens(t)
        return out
    if k == "fss":
        return ["fss", str(td[1]), td[2], str(td[1] if td[3] is None else td[3])]
    if k == "stag":
        out = ["stag", str(len(td[1]))]
        for name, off, t in td[1]:
            out += [_key_tok(name), str(off)] + ty_tokens(t)
        out.append(str(len(td[2])))
        for name, off, bit in td[2]:
            out += [fw.t_text(name), str(off), str(bit)]
        out.append(str(len(td[3])))
        out += [fw.t_text(p) for p in td[3]]
        out.append(str(td[4]))
        return out
    raise ValueError(f"bad type descriptor {td!r}")


_BUILD_CACHE = {}


def ty_build(td):
    """the real pycomm3 type object (a class; an instance for n_bytes) denoted by td"""
    if td in _BUILD_CACHE:
        return _BUILD_CACHE[td]
    import pycomm3.custom_types as ct
    import pycomm3.cip.pccc as pc
    dt = _dt()
    k = td[0]
    if k == "elem":
        T = getattr(dt, td[1])
    elif k == "named":
        T = {"IPAddress": ct.IPAddress, "Revision": ct.Revision, "ModuleIdentityObject": ct.ModuleIdentityObject,
             "ListIdentityObject": ct.ListIdentityObject, "PCCC_ASCII": pc.PCCC_ASCII, "PCCC_STRING": pc.PCCC_STRING}[td[1]]
    elif k == "nbytes":
        T = dt.n_bytes(td[1])
    elif k == "arr":
        E = ty_build(td[2])
        T = E[td[1]] if isinstance(E, type) and td[1] % 2 == 0 else dt.Array(td[1], E)
    elif k == "arrp":
        L = ty_build(td[2])
        T = dt.Array(L() if td[1] else L, ty_build(td[3]))
    elif k == "arrall":
        T = dt.Array(None, ty_build(td[1]))
    elif k == "struct":
        T = dt.Struct(*[member_obj(t, name) for name, t in td[1]])
    elif k == "fss":
        T = ct.FixedSizeString(td[1], getattr(dt, td[2])) if td[3] is None else ct.FixedSizeString(td[1], getattr(dt, td[2]), td[3])
    elif k == "stag":
        T = ct.StructTag(*[(member_obj(t, name), off) for name, off, t in td[1]],
                         bit_members={n: (o, b) for n, o, b in td[2]}, private_members=set(td[3]), struct_size=td[4])
    else:
        raise ValueError(f"bad type descriptor {td!r}")
    _BUILD_CACHE[td] = T
    return T


def member_obj(td, name):
    """a struct member: the class itself when unnamed, an instance carrying the name otherwise"""
    T = ty_build(td)
    if td[0] == "nbytes":
        return _dt().n_bytes(td[1], name)
    if name is None:
        return T
    return T(name)


def ty_kind(td):
    return td[1] if td[0] in ("elem", "named") else td[0]


def ty_depth(td):
    k = td[0]
    if k in ("arr", "arrall"):
        return 1 + ty_depth(td[-1])
    if k == "arrp":
        return 1 + max(ty_depth(td[2]), ty_depth(td[3]))
    if k == "struct":
        return 1 + max([ty_depth(t) for _, t in td[1]] or [0])
    if k == "stag":
        return 1 + max([ty_depth(t) for _, _, t in td[1]] or [0])
    return 0


# ------------------------------------------------------------------ values
def f2b(x):
    if x != x:
        return NAN64
    return struct.unpack("<Q", struct.pack("<d", x))[0]


def b2f(b):
    return struct.unpack("<d", struct.pack("<Q", b))[0]


def val_tokens(v):
    dt = _dt()
    if v is None:
        return ["N"]
    if v is True:
        return ["T"]
    if v is False:
        return ["F"]
    if isinstance(v, int):
        return [str(v)]
    if isinstance(v, float):
        return ["f", str(f2b(v))]
    if isinstance(v, str):
        return [fw.t_text(v)]
    if isinstance(v, (bytes, bytearray)):
        return [fw.t_bytes(v)]
    if isinstance(v, list):
        out = ["l", str(len(v))]
        for x in v:
            out += val_tokens(x)
        return out
    if isinstance(v, tuple):
        out = ["t", str(len(v))]
        for x in v:
            out += val_tokens(x)
        return out
    if isinstance(v, dict):
        out = ["d", str(len(v))]
        for k, x in v.items():
            out += [_key_tok(k)] + val_tokens(x)
        return out
    if isinstance(v, type) and issubclass(v, dt.DataType):
        return ["c", v.__name__]
    raise ValueError(f"value outside the model's domain: {v!r}")


def canon(v):
    dt = _dt()
    if v is None:
        return ("N",)
    if isinstance(v, bool):
        return ("B", int(v))
    if isinstance(v, int):
        return ("I", v)
    if isinstance(v, float):
        return ("F", f2b(v))
    if isinstance(v, str):
        return ("S", tuple(ord(c) for c in v))
    if isinstance(v, (bytes, bytearray)):
        return ("Y", bytes(v).hex())
    if isinstance(v, list):
        return ("L", tuple(canon(x) for x in v))
    if isinstance(v, tuple):
        return ("T", tuple(canon(x) for x in v))
    if isinstance(v, dict):
        return ("D", tuple((None if k is None else canon(k), canon(x)) for k, x in v.items()))
    if isinstance(v, type) and issubclass(v, dt.DataType):
        return ("C", v.__name__)
    return ("?", repr(v)[:80])


def parse_val_tokens(ts, i=0):
    """canonical form of a model value term starting at ts[i] -> (canon, next index)"""
    t = ts[i]
    if isinstance(t, fw.Sym):
        s = str(t)
        if s == "N":
            return ("N",), i + 1
        if s == "T":
            return ("B", 1), i + 1
        if s == "F":
            return ("B", 0), i + 1
        if s == "f":
            return ("F", ts[i + 1]), i + 2
        if s == "c":
            return ("C", str(ts[i + 1])), i + 2
        if s in ("l", "t"):
            n, j, out = ts[i + 1], i + 2, []
            for _ in range(n):
                x, j = parse_val_tokens(ts, j)
                out.append(x)
            return (("L" if s == "l" else "T"), tuple(out)), j
        if s == "d":
            n, j, out = ts[i + 1], i + 2, []
            for _ in range(n):
                kt = ts[j]
                key = None if isinstance(kt, fw.Sym) and str(kt) == "-" else ("S", tuple(ord(c) for c in kt))
                x, j = parse_val_tokens(ts, j + 1)
                out.append((key, x))
            return ("D", tuple(out)), j
        raise ValueError(f"bad value token {s}")
    if isinstance(t, bool):
        raise ValueError("bool token")
    if isinstance(t, int):
        return ("I", t), i + 1
    if isinstance(t, str):
        return ("S", tuple(ord(c) for c in t)), i + 1
    if isinstance(t, bytes):
        return ("Y", t.hex()), i + 1
    raise ValueError(f"bad token {t!r}")


# ------------------------------------------------------------------ exception -> code
def exn_code(e):
    from pycomm3.exceptions import DataError, BufferEmptyError
    if isinstance(e, BufferEmptyError):
        return 2
    if isinstance(e, DataError):
        return 1
    for cls, c in ((TypeError, 10), (UnicodeError, 18), (KeyError, 12), (IndexError, 13), (struct.error, 14),
                   (OverflowError, 15), (ZeroDivisionError, 19), (AttributeError, 16), (StopIteration, 17),
                   (NotImplementedError, 20), (ValueError, 11)):
        if isinstance(e, cls):
            return c
    return 99


CODE_NAMES = {1: "DataError", 2: "BufferEmptyError", 10: "TypeError", 11: "ValueError", 12: "KeyError", 13: "IndexError",
              14: "struct.error", 15: "OverflowError", 16: "AttributeError", 17: "StopIteration(=model hang marker)",
              18: "UnicodeError", 19: "ZeroDivisionError", 20: "NotImplementedError(=outside the model)", 99: "other"}


# ------------------------------------------------------------------ implementation runner
class _Hang(BaseException):
    pass


def _alarm(signum, frame):
    raise _Hang()


def _caused_by_memory(e):
    seen = 0
    while e is not None and seen < 10:
        if isinstance(e, MemoryError):
            return True
        e = e.__cause__ or e.__context__
        seen += 1
    return False


def run_one(case, budget=0.5):
    """run one case on the real implementation IN THIS PROCESS (call it in a forked child)."""
    op = case[0]
    try:
        T = ty_build(case[1])
    except Exception as e:  # a type the library refuses to construct
        return ("noconstruct", type(e).__name__)
    signal.setitimer(signal.ITIMER_REAL, budget)
    try:
        if op in ("enc", "enca"):
            try:
                r = T.encode(case[2]) if op == "enc" else T.encode(*case[2])
            except _Hang:
                return ("hang",)
            except MemoryError:
                return ("hang",)
            except Exception as e:
                signal.setitimer(signal.ITIMER_REAL, 0)
                if _caused_by_memory(e):
                    return ("hang",)
                return ("err", exn_code(e))
            signal.setitimer(signal.ITIMER_REAL, 0)
            if isinstance(r, (bytes, bytearray)):
                return ("ok", 0, bytes(r).hex())
            if isinstance(r, str):
                return ("ok", 1, tuple(ord(c) for c in r))
            if isinstance(r, (list, tuple)) and all(isinstance(x, int) and 0 <= x < 256 for x in r):
                return ("ok", 2 if isinstance(r, list) else 3, bytes(int(x) for x in r).hex())
            return ("ok", 9, repr(r)[:60])
        else:
            s = BytesIO(case[2])
            try:
                v = T.decode(s) if op == "dec" else T.decode(s, case[3])
            except _Hang:
                return ("hang",)
            except MemoryError:
                return ("hang",)
            except Exception as e:
                signal.setitimer(signal.ITIMER_REAL, 0)
                if _caused_by_memory(e):
                    return ("hang",)
                c = exn_code(e)
                return ("empty", s.tell()) if c == 2 else ("err", c)
            signal.setitimer(signal.ITIMER_REAL, 0)
            return ("ok", canon(v), s.tell())
    except _Hang:
        return ("hang",)
    finally:
        signal.setitimer(signal.ITIMER_REAL, 0)


def run_impl(cases, budget=0.5, mem_mb=3072, fn=run_one):
    """run the cases in a forked child (alarm per case, address-space limit); a case on which the
    child dies is reported ("crash",) and the rest continues in a fresh child."""
    out = []
    i = 0
    while i < len(cases):
        r, w = os.pipe()
        pid = os.fork()
        if pid == 0:  # child
            try:
                os.close(r)
                try:
                    lim = mem_mb * 1024 * 1024
                    resource.setrlimit(resource.RLIMIT_AS, (lim, lim))
                except Exception:
                    pass
                signal.signal(signal.SIGALRM, _alarm)
                sys.setrecursionlimit(10000)
                with os.fdopen(w, "wb") as f:
                    for c in cases[i:]:
                        try:
                            res = fn(c, budget)
                        except _Hang:
                            res = ("hang",)
                        except MemoryError:
                            res = ("hang",)
                        pickle.dump(res, f)
                        f.flush()
            finally:
                os._exit(0)
        os.close(w)
        got = 0
        with os.fdopen(r, "rb") as f:
            while True:
                try:
                    out.append(pickle.load(f))
                    got += 1
                except EOFError:
                    break
                except Exception:
                    break
        os.waitpid(pid, 0)
        i += got
        if i < len(cases):      # the child died on cases[i]
            out.append(("crash",))
            i += 1
    return out


# ------------------------------------------------------------------ model side
def model_line(case):
    op = case[0]
    if op == "enc":
        return " ".join(["enc"] + ty_tokens(case[1]) + val_tokens(case[2]))
    if op == "enca":
        toks = ["enca"] + ty_tokens(case[1]) + [str(len(case[2]))]
        for a in case[2]:
            toks += val_tokens(a)
        return " ".join(toks)
    if op == "dec":
        return " ".join(["dec"] + ty_tokens(case[1]) + [fw.t_bytes(case[2])])
    if op == "decl":
        return " ".join(["decl"] + ty_tokens(case[1]) + val_tokens(case[3]) + [fw.t_bytes(case[2])])
    raise ValueError(op)


def model_outcome(case, line):
    """parse a model answer into the outcome form of run_one"""
    ts = fw.parse_line(line)
    head = str(ts[0])
    if head == "ERR":
        return ("modelparse",)
    if head == "err":
        return ("err", ts[1])
    if head == "fuel":
        return ("hang",)
    if case[0] in ("enc", "enca"):
        return ("ok", ts[1], tuple(ord(c) for c in ts[2]) if ts[1] == 1 else ts[2].hex())
    if head == "empty":
        return ("empty", len(case[2]) - len(ts[1]))
    v, j = parse_val_tokens(ts, 1)
    return ("ok", v, len(case[2]) - len(ts[j]))


def outcome_class(o):
    if o[0] == "err":
        return "err:" + CODE_NAMES.get(o[1], str(o[1]))
    return o[0]


def corr(R, mp, cases, stream="valid", budget=0.5, impl=None):
    """differential correspondence on `cases`; records distributions; returns [(case, model, impl)].
    A model answer 20 (NotImplementedError marker) means the input is outside the modelled value
    domain: counted under `model_gap`, not compared."""
    if not cases:
        return []
    lines = [model_line(c) for c in cases]
    outs = mp.batch(lines)
    impls = impl if impl is not None else run_impl(cases, budget)
    res = []
    for c, o, im in zip(cases, outs, impls):
        mo = model_outcome(c, o)
        R.count("corr_stream", stream)
        R.count("corr_op", c[0])
        R.count("corr_type_kind", ty_kind(c[1]))
        R.count("corr_type_depth", ty_depth(c[1]))
        R.count("corr_outcome", outcome_class(im))
        if mo == ("err", 20):
            R.count("model_gap", ty_kind(c[1]))
            res.append((c, mo, im))
            continue
        R.corr_checked += 1
        R.case((c[0], c[1], repr(c[2])[:200]), nontrivial=True)
        if mo != im and ("hang",) in (mo, im) and x_hang_prone(expand(c[1])):
            # a huge decoded count over elements of no size: the model's loop bound (count_limit)
            # and the implementation's time budget need not coincide
            R.count("hang_grey_zone", ty_kind(c[1]))
        elif mo != im:
            R.disagree(f"codec {c[0]} {ty_kind(c[1])}", [c[0], " ".join(ty_tokens(c[1])), repr(c[2:])[:400]], list(mo), list(im))
        res.append((c, mo, im))
    return res


# ------------------------------------------------------------------ generators: types
def gen_elem(rng, names=None):
    return ("elem", rng.choice(names or elem_names()))


def _name(rng, used):
    pool = ["a", "b", "c", "x", "y", "val", "LEN", "DATA", "µs", "n1", "Tag_2", "z"]
    for _ in range(20):
        n = rng.choice(pool) + (str(rng.randrange(10)) if rng.random() < 0.3 else "")
        if n not in used:
            used.add(n)
            return n
    n = "m%d" % len(used)
    used.add(n)
    return n


LEAF_WEIGHTS = (("elem", 10), ("nbytes", 1), ("fss", 1), ("named", 1))


def gen_type(rng, depth=4, ctx="top", wild=False):
    """a random type term of nesting depth <= depth.  wild=True also produces the shapes the
    round-trip law excludes (length-prefixed arrays, duplicate / unnamed members, greedy members in
    the middle, zero sizes)."""
    if depth <= 0 or rng.random() < 0.35:
        r = rng.random()
        if r < 0.78:
            return gen_elem(rng)
        if r < 0.84:
            return ("nbytes", rng.choice([0, 1, 2, 3, 4, 6, 8, 16] + ([-1] if wild or ctx == "last" else [])))
        if r < 0.92:
            size = rng.choice([1, 2, 4, 8, 16, 82] + ([0] if wild else []))
            cap = None if rng.random() < 0.5 else rng.choice([size, max(0, size - 1), max(0, size - 2)] + ([size + 1, size + 3, 0] if wild else []))
            return ("fss", size, rng.choice(["UDINT", "UINT", "USINT", "DINT"]), cap)
        return ("named", rng.choice(NAMED))
    r = rng.random()
    if r < 0.30:
        n = rng.choice([0, 1, 2, 3, 4, 5, 8]) if rng.random() < 0.9 else rng.randrange(9, 40)
        return ("arr", n, gen_type(rng, depth - 1, "elem", wild))
    if r < 0.36:
        if wild or rng.random() < 0.5:
            return ("arrp", rng.random() < 0.5, ("elem", rng.choice(["USINT", "UINT", "UDINT", "ULINT"])), gen_type(rng, depth - 1, "elem", wild))
        return ("arr", rng.randrange(4), gen_type(rng, depth - 1, "elem", wild))
    if r < 0.46:
        return ("arrall", gen_type(rng, depth - 1, "elem", wild))
    if r < 0.86:
        k = rng.choice([0, 1, 1, 2, 2, 3, 3, 4, 5]) if wild else rng.choice([1, 1, 2, 2, 3, 3, 4, 5])
        used, ms = set(), []
        for i in range(k):
            t = gen_type(rng, depth - 1, "last" if i == k - 1 else "member", wild)
            q = rng.random()
            if q < 0.08:
                name = None
            elif q < 0.12:
                name = ""
            elif wild and q < 0.16 and used:
                name = rng.choice(sorted(used))
            else:
                name = _name(rng, used)
            ms.append((name, t))
        return ("struct", tuple(ms))
    return gen_stag(rng, depth, wild)


def fixed_width(td):
    """bytes every in-domain value encodes to, or None (mirrors Model/CodecDom.v fixed_width)"""
    k = td[0]
    if k == "elem":
        n = td[1]
        if n == "BOOL":
            return 1
        if n in INT_NAMES:
            return INT_NAMES[n][1]
        if n in BITS_NAMES:
            return BITS_NAMES[n]
        if n == "REAL":
            return 4
        if n == "LREAL":
            return 8
        if n == "DATE_AND_TIME":
            return 6
        return None
    if k == "nbytes":
        return td[1] if td[1] >= 0 else None
    if k == "named":
        return {"IPAddress": 4, "PCCC_ASCII": 2}.get(td[1])
    if k == "fss":
        return INT_NAMES[td[2]][1] + td[1]
    if k == "arr":
        w = fixed_width(td[2])
        return None if w is None else td[1] * w
    if k == "stag":
        return td[4]
    return None


def gen_fixed_type(rng, depth):
    """a type of constant encoded width (what Logix templates are made of)"""
    for _ in range(50):
        if depth <= 0 or rng.random() < 0.6:
            r = rng.random()
            if r < 0.7:
                t = ("elem", rng.choice(["BOOL", "SINT", "INT", "DINT", "LINT", "USINT", "UINT", "UDINT", "ULINT", "REAL", "LREAL",
                                         "BYTE", "WORD", "DWORD", "LWORD", "TIME", "DATE", "DATE_AND_TIME"])) if rng.random() < 0.9 else ("nbytes", rng.choice([0, 1, 2, 5]))
            elif r < 0.85:
                sz = rng.choice([1, 2, 4, 8, 12])
                t = ("fss", sz, "UDINT", rng.choice([None, sz, max(1, sz - 2)]))
            else:
                t = ("named", "IPAddress")
        else:
            r = rng.random()
            if r < 0.5:
                t = ("arr", rng.choice([1, 2, 3, 4]), gen_fixed_type(rng, depth - 1))
            else:
                t = gen_stag(rng, depth - 1, False)
        if fixed_width(t) is not None:
            return t
    return ("elem", "DINT")


def gen_stag(rng, depth, wild=False):
    """a StructTag in the shape the Logix driver builds: named members at increasing offsets (with
    padding), hidden SINT/DINT hosts carrying BOOL bit members, struct_size >= the extent"""
    used, ms, bits, priv = set(), [], [], []
    pos = 0
    for i in range(rng.choice([1, 2, 2, 3, 4])):
        if rng.random() < 0.3:
            host = ("elem", rng.choice(["SINT", "DINT", "USINT", "INT"]))
            hn = "ZZZZZZZZZZ" + _name(rng, used)
            pos += rng.choice([0, 0, 1, 3])
            w = fixed_width(host)
            ms.append((hn, pos, host))
            priv.append(hn)
            nb = rng.randrange(1, 5)
            positions = rng.sample([(o, b) for o in range(pos, pos + w) for b in range(8)], nb)
            for (o, b) in positions:
                bits.append((_name(rng, used), o, b))
            pos += w
        else:
            t = gen_fixed_type(rng, max(depth - 1, 0))
            pos += rng.choice([0, 0, 0, 1, 2, 4])
            ms.append((_name(rng, used), pos, t))
            pos += fixed_width(t)
    size = pos + rng.choice([0, 0, 1, 4])
    if rng.random() < 0.3:
        rng.shuffle(ms)        # members are read at their offsets, whatever the order of the list
    if wild and rng.random() < 0.5:
        r = rng.random()
        if r < 0.3 and ms:
            size = max(0, size - rng.choice([1, 2]))           # struct_size smaller than the extent
        elif r < 0.6 and len(ms) > 1:
            n, o, t = ms[-1]
            ms[-1] = (n, max(0, o - rng.choice([1, 2])), t)     # overlapping members
        elif r < 0.8:
            bits.append((_name(rng, used), size + rng.randrange(2), rng.randrange(8)))   # bit outside
        else:
            bits.append((_name(rng, used), rng.randrange(max(size, 1)), rng.choice([8, 9])))   # bit number > 7
    return ("stag", tuple(ms), tuple(bits), tuple(priv), size)


# ------------------------------------------------------------------ generators: values
FLOATS_SPECIAL = [0.0, -0.0, 1.0, -1.0, 0.1, 1.5, math.pi, float("inf"), float("-inf"), float("nan"),
                  5e-324, 2.2250738585072014e-308, 1.7976931348623157e308,           # double denormal / min normal / max
                  1.401298464324817e-45, 1.1754943508222875e-38, 3.4028234663852886e38,  # single denormal / min normal / max
                  3.4028235677973366e38, 3.4028235677973362e38, 3.402823669209385e38,   # around the REAL overflow threshold
                  7.006492321624085e-46, 7.006492321624087e-46, 1e-46,                  # half the smallest single denormal
                  1.0000000596046448, 1.0000000596046447, 1.000000059604645, 1.0000001788139343,  # halfway cases (ties to even)
                  16777217.0, 16777219.0, 1e39, -1e39, 123456.789e3]


def gen_float(rng, single=False):
    r = rng.random()
    if r < 0.35:
        return rng.choice(FLOATS_SPECIAL)
    if r < 0.55:
        return b2f(rng.getrandbits(64)) if rng.random() < 0.5 else struct.unpack("<f", struct.pack("<I", rng.getrandbits(32)))[0]
    if r < 0.75:
        # a binary32 halfway case: a single plus exactly half an ulp
        s = rng.getrandbits(31) & 0x7F7FFFFF
        x = struct.unpack("<f", struct.pack("<I", s))[0]
        y = struct.unpack("<f", struct.pack("<I", s + 1))[0]
        if math.isfinite(x) and math.isfinite(y):
            h = (x + y) / 2
            return rng.choice([h, math.nextafter(h, math.inf), math.nextafter(h, -math.inf), -h])
        return x
    return rng.choice([rng.uniform(-1e6, 1e6), rng.uniform(-1, 1) * 10 ** rng.randrange(-50, 50)])


def _canon_float(x):
    return float("nan") if x != x else x


def gen_int(rng, signed, w, mode="valid"):
    lo, hi = (-(1 << (8 * w - 1)), (1 << (8 * w - 1)) - 1) if signed else (0, (1 << (8 * w)) - 1)
    if mode == "valid":
        r = rng.random()
        if r < 0.3:
            return rng.choice([lo, hi, lo + 1, hi - 1, 0, 1, hi // 2, hi // 2 + 1] + ([-1] if signed else []))
        if r < 0.5:
            return max(lo, min(hi, (1 << rng.randrange(8 * w)) + rng.choice([-1, 0, 1]) + (lo if signed and rng.random() < 0.5 else 0)))
        if r < 0.6:
            pat = rng.choice([0x55, 0xAA, 0x0F, 0xF0, 0x01, 0x80, 0xFF, 0x7F])
            v = int.from_bytes(bytes([pat]) * w, "little")
            return v if v <= hi else v - (1 << (8 * w))
        return rng.randint(lo, hi)
    return rng.choice([lo - 1, hi + 1, lo - 256, hi + 256, 1 << 64, -(1 << 63) - 1, 1 << 70])


def gen_text(rng, n, cls="latin1"):
    if cls == "ascii":
        return "".join(chr(rng.randrange(32, 127)) if rng.random() < 0.9 else chr(rng.randrange(0, 128)) for _ in range(n))
    if cls == "latin1":
        return "".join(chr(rng.randrange(32, 127)) if rng.random() < 0.7 else chr(rng.randrange(0, 256)) for _ in range(n))
    if cls == "astral":
        return "".join(chr(rng.choice([rng.randrange(32, 127), rng.randrange(0x10000, 0x110000), rng.randrange(0xA0, 0xD800)])) for _ in range(n))
    if cls == "bmp":
        return "".join(chr(rng.choice([rng.randrange(32, 127), rng.randrange(0xA0, 0xD800), rng.randrange(0xE000, 0x10000)])) for _ in range(n))
    return "".join(chr(rng.choice([rng.randrange(32, 127), rng.randrange(0x10000, 0x110000), rng.randrange(0xD800, 0xE000), rng.randrange(0x100, 0x800)]))
                   for _ in range(n))


def str_len(rng, limit, big=False):
    """a string length: all small lengths, and the neighbourhood of the prefix limit when `big`"""
    r = rng.random()
    if big and r < 0.5:
        return max(0, limit + rng.choice([-2, -1, 0, 1, 2]))
    if r < 0.7:
        return rng.randrange(0, 12)
    return rng.randrange(0, 301)


def vendor_names():
    from pycomm3.cip.status_info import VENDORS, PRODUCT_TYPES
    return [k for k in VENDORS if isinstance(k, str)], [k for k in PRODUCT_TYPES if isinstance(k, str)]


def scramble_dict(rng, d, extra=True):
    """the same name -> value map in another insertion order, possibly with a key that names no
    member: a dict is read by member name, so none of this may change the encoding"""
    items = list(d.items())
    rng.shuffle(items)
    if extra and rng.random() < 0.4:
        k = rng.choice(["zz_extra", "__unused", "Zz9"])
        if k not in d:
            items.insert(rng.randrange(len(items) + 1), (k, rng.choice([0, "x", None, b"\x00", [1, 2]])))
    return dict(items)


def gen_value(rng, td, big=False):
    """a value in the documented domain of the type (what a user would pass); NOT filtered by the
    defects of the code: STRING2 gets non-empty strings, FixedSizeString may exceed its capacity
    (rarely), fixed arrays may be over-long."""
    dt = _dt()
    k = td[0]
    if k == "elem":
        n = td[1]
        if n == "BOOL":
            return rng.random() < 0.5
        if n in INT_NAMES:
            return gen_int(rng, *INT_NAMES[n])
        if n in ("REAL", "LREAL"):
            return _canon_float(gen_float(rng))
        if n in BITS_NAMES:
            return [rng.random() < 0.5 for _ in range(8 * BITS_NAMES[n])]
        if n in STR_NAMES:
            w, enc = STR_NAMES[n]
            lim = (1 << (8 * w)) - 1
            ln = str_len(rng, lim, big and w <= 2)
            return gen_text(rng, ln, "latin1" if enc == "latin1" else rng.choice(["ascii", "bmp", "astral"]))
        if n == "STRINGN":
            return gen_text(rng, str_len(rng, 65535, big), rng.choice(["ascii", "latin1", "latin1", "bmp"]))
        if n == "DATE_AND_TIME":
            return (gen_int(rng, False, 4), gen_int(rng, False, 2))
        if n == "STRINGI":
            st = rng.choice([dt.STRING, dt.STRING2, dt.STRINGN, dt.SHORT_STRING])
            s = gen_text(rng, rng.randrange(0, 10), "ascii" if rng.random() < 0.7 else "latin1")
            return (s, st, rng.choice(["eng", "fra", "deu", "jpn", "zho"]), rng.choice([4, 1000, 1001, 0, 65535]))
        raise ValueError(n)
    if k == "named":
        n = td[1]
        if n == "IPAddress":
            return ".".join(str(rng.choice([0, 1, 9, 10, 99, 100, 192, 255, rng.randrange(256)])) for _ in range(4))
        if n == "Revision":
            d = {"major": rng.randrange(256), "minor": rng.randrange(256)}
            if rng.random() < 0.4:
                return scramble_dict(rng, d)
            return d if rng.random() < 0.6 else list(d.values())
        if n == "PCCC_ASCII":
            return gen_text(rng, 2, "latin1")
        if n == "PCCC_STRING":
            return gen_text(rng, 2 * rng.randrange(0, 42), "latin1")
        vn, pn = vendor_names()
        ident = {"vendor": rng.choice(vn), "product_type": rng.choice(pn), "product_code": rng.randrange(65536),
                 "revision": {"major": rng.randrange(256), "minor": rng.randrange(256)},
                 "status": bytes(rng.randrange(256) for _ in range(2)), "serial": "%08x" % rng.getrandbits(32),
                 "product_name": gen_text(rng, rng.randrange(0, 33), "latin1")}
        if n == "ModuleIdentityObject":
            if rng.random() < 0.5:
                ident["revision"] = scramble_dict(rng, ident["revision"])
                return scramble_dict(rng, ident)
            return ident
        from pycomm3.cip.status_info import VENDORS, PRODUCT_TYPES
        # ListIdentityObject has no _encode: its encoder takes the numeric ids, positionally or by dict
        vals = [rng.randrange(65536), rng.randrange(65536), rng.randrange(65536), gen_int(rng, True, 2), rng.randrange(65536),
                gen_value(rng, ("named", "IPAddress")), rng.getrandbits(64), VENDORS[ident["vendor"]], PRODUCT_TYPES[ident["product_type"]],
                ident["product_code"], ident["revision"], ident["status"], rng.getrandbits(32), ident["product_name"], rng.randrange(256)]
        return vals
    if k == "nbytes":
        n = td[1]
        if n < 0:
            return bytes(rng.randrange(256) for _ in range(rng.randrange(1, 20)))
        return bytes(rng.randrange(256) for _ in range(n if rng.random() < 0.9 else max(0, n + rng.choice([-1, 1, 3]))))
    if k == "fss":
        cap = td[1] if td[3] is None else td[3]
        ln = rng.randrange(0, cap + 1) if rng.random() < 0.85 else cap + rng.randrange(1, 4)
        return gen_text(rng, ln, "latin1")
    if k == "arr":
        n, e = td[1], td[2]
        if e[0] == "elem" and e[1] in BITS_NAMES:
            return [rng.random() < 0.5 for _ in range(n * 8 * BITS_NAMES[e[1]])]
        extra = rng.choice([0, 0, 0, 0, 1, 3])
        return [gen_value(rng, e, big and n + extra <= 2) for _ in range(n + extra)]
    if k in ("arrp", "arrall"):
        e = td[-1]
        ln = rng.choice([0, 1, 2, 3, 5]) if rng.random() < 0.9 else rng.randrange(6, 301 if ty_depth(e) == 0 else 12)
        if e[0] == "elem" and e[1] in BITS_NAMES:
            return [rng.random() < 0.5 for _ in range(ln * 8 * BITS_NAMES[e[1]])]
        return [gen_value(rng, e) for _ in range(ln)]
    if k == "struct":
        vals = [gen_value(rng, t, big and len(td[1]) <= 2) for _, t in td[1]]
        names = [n for n, _ in td[1]]
        if rng.random() < 0.6 and len(set(names)) == len(names):
            d = dict(zip(names, vals))
            return scramble_dict(rng, d) if rng.random() < 0.5 else d
        return vals
    if k == "stag":
        d = {}
        for name, off, t in td[1]:
            if name not in td[3]:
                d[name] = gen_value(rng, t)
        for name, off, bit in td[2]:
            d[name] = rng.random() < 0.5
        return d
    raise ValueError(td)


def gen_positional_calls(rng, n=60):
    """positional calls T.encode(*args) with the boundary values of every argument:
    DATE_AND_TIME(time, date) over {0, 1, max-1, max} x {0, 1, max-1, max} (+ out-of-range and junk),
    STRINGN(value, char_size) for each legal size and the illegal ones, STRINGI(*items) from no item
    at all to several, Array.encode(values, length) around the declared length"""
    dt = _dt()
    out = []
    tb = [0, 1, (1 << 32) - 2, (1 << 32) - 1]
    db = [0, 1, (1 << 16) - 2, (1 << 16) - 1]
    for t in tb:
        for d in db:
            out.append(("enca", ("elem", "DATE_AND_TIME"), (t, d)))
    for t, d in ((-1, 0), (0, -1), (1 << 32, 0), (0, 1 << 16), (None, 0), (0, None), ("a", 0), (0, "a"), (0, 0.0), (0, False), (0, True), ((1, 2), None), ((1, 0), None)):
        out.append(("enca", ("elem", "DATE_AND_TIME"), (t, d)))
    for _ in range(n):
        out.append(("enca", ("elem", "DATE_AND_TIME"), (gen_int(rng, False, 4), gen_int(rng, False, 2))))
    out += [("enca", ("elem", "DATE_AND_TIME"), ()), ("enca", ("elem", "DATE_AND_TIME"), (1, 2, 3))]
    for cs in (1, 2, 4, 0, 3, 8, True, False, None, "1"):
        for s in ("", "a", "é", "Ā", "\U0001F600", gen_text(rng, rng.randrange(0, 9), rng.choice(["ascii", "latin1", "bmp", "astral"]))):
            out.append(("enca", ("elem", "STRINGN"), (s, cs)))
    items = lambda: gen_value(rng, ("elem", "STRINGI"))
    for k in (0, 0, 1, 2, 3, 5):
        out.append(("enca", ("elem", "STRINGI"), tuple(items() for _ in range(k))))
    for _ in range(n // 3):
        k = rng.randrange(0, 5)
        td = ("arr", k, ("elem", rng.choice(["UINT", "SINT", "BOOL", "SHORT_STRING", "BYTE"])))
        v = gen_value(rng, td)
        for ln in (None, 0, 1, max(0, k - 1), k, k + 1, True):
            out.append(("enca", td, (v, ln)))
    return out


JUNK = [None, True, False, 0, 1, -1, 255, 256, 65535, 65536, 1 << 32, 1 << 64, -(1 << 63) - 1, 0.0, 1.5, float("nan"), float("inf"), 1e39,
        "", "a", "ab", "abc", "Ā", "\U0001F600", "\ud800", b"", b"\x00", b"ab", b"abcd", [], [1], [1, 2], [True] * 8, [None], ["a", "b"],
        (), (1, 2), (1,), {}, {"a": 1}, {None: 1}, {"": 2}, [[1]], [b"ab"], "1.2.3.4", "1.2.3", "01.2.3.4", "256.1.1.1", [1.5]]


def gen_bad_value(rng, td):
    """a value OUTSIDE the type's domain: type confusion, boundary+1, None, wrong container shape,
    unencodable characters, too few elements."""
    k = td[0]
    r = rng.random()
    if r < 0.4:
        return rng.choice(JUNK)
    if k == "elem":
        n = td[1]
        if n in INT_NAMES:
            return gen_int(rng, *INT_NAMES[n], mode="bad")
        if n in BITS_NAMES:
            w = 8 * BITS_NAMES[n]
            return [rng.random() < 0.5 for _ in range(rng.choice([0, 1, w - 1, w + 1, 2 * w]))]
        if n in STR_NAMES or n == "STRINGN":
            lim = (1 << (8 * STR_NAMES[n][0])) if n in STR_NAMES else 65536
            return rng.choice([gen_text(rng, rng.randrange(1, 6), "wide"), "x" * lim if lim <= 65536 else b"abc", b"abc", 5])
        if n in ("REAL", "LREAL"):
            return rng.choice([1e39, -1e39, 3.4028235677973366e38, 1 << 2000, "1.0", None, 10 ** 400])
    if k in ("arr", "arrp", "arrall"):
        e = td[-1]
        n = td[1] if k == "arr" else 3
        q = rng.random()
        if q < 0.4 and n > 0:
            return [gen_value(rng, e) for _ in range(rng.randrange(0, n))]      # too few
        return [gen_bad_value(rng, e) if rng.random() < 0.5 else gen_value(rng, e) for _ in range(n + rng.randrange(2))]
    if k == "struct" and td[1]:
        vals = [gen_value(rng, t) for _, t in td[1]]
        q = rng.random()
        i = rng.randrange(len(vals))
        if q < 0.3:
            return vals[:i]                                                     # too short a sequence
        if q < 0.5:
            d = dict(zip([n for n, _ in td[1]], vals))
            d.pop(td[1][i][0], None)                                            # missing key
            return d
        vals[i] = gen_bad_value(rng, td[1][i][1])
        return vals if rng.random() < 0.5 else dict(zip([n for n, _ in td[1]], vals))
    if k == "stag":
        d = gen_value(rng, td)
        if d and rng.random() < 0.5:
            d.pop(rng.choice(sorted(d, key=str)))
            return d
        for name, off, t in td[1]:
            if name in d and rng.random() < 0.5:
                d[name] = gen_bad_value(rng, t)
        return d
    if k == "fss":
        return rng.choice(["x" * (td[1] + 1 + rng.randrange(3)), "Ā", b"ab", 7, None])
    if k == "nbytes":
        return rng.choice(["abc", [1, 2, 3], (1, 2), 5, None, b""])
    if k == "named" and td[1] == "IPAddress":
        return rng.choice(["1.2.3", "1.2.3.256", "01.2.3.4", "a.b.c.d", "", "1.2.3.4.5", " 1.2.3.4", 1 << 32, -1, b"abc", 16909060, b"\x01\x02\x03\x04"])
    return rng.choice(JUNK)


def modelable(v, top=True):
    """can the value be sent to the model?  (type classes only inside tuples; str given to n_bytes
    only below U+0100 — checked by the caller)"""
    try:
        val_tokens(v)
        return True
    except ValueError:
        return False


# ------------------------------------------------------------------ malformed byte streams
def truncations(bs, limit=40, rng=None):
    """every truncation point of a valid encoding (sampled when it is long)"""
    n = len(bs)
    if n <= limit or rng is None:
        pts = range(n)
    else:
        pts = sorted(set(list(range(min(12, n))) + [n - 1, n - 2, n // 2] + [rng.randrange(n) for _ in range(limit - 15)]))
    return [bs[:i] for i in pts]


def random_bytes(rng, td=None):
    n = rng.choice([0, 1, 2, 3, 4, 5, 7, 8, 9, 12, 16, 17, 33, 64, 100]) if rng.random() < 0.9 else rng.randrange(0, 400)
    r = rng.random()
    if r < 0.6:
        return bytes(rng.randrange(256) for _ in range(n))
    if r < 0.8:
        return bytes(rng.choice([0, 1, 2, 3, 4, 0xFF, 0x80, 0x7F]) for _ in range(n))
    return bytes([rng.choice([0, 1, 2, 3, 5])] + [0] * min(n, 3) + [rng.randrange(32, 127) for _ in range(n)])


# ------------------------------------------------------------------ JSON forms (corpus, replays)
def td_to_json(td):
    return [td_to_json(x) if isinstance(x, tuple) else x for x in td]


def td_from_json(j):
    return tuple(td_from_json(x) if isinstance(x, list) else x for x in j)


def canon_to_json(c):
    return [canon_to_json(x) if isinstance(x, tuple) else x for x in c]


def val_from_canon(c):
    """the Python value of a canonical form (tuples or JSON lists)"""
    dt = _dt()
    k = c[0]
    if k == "N":
        return None
    if k == "B":
        return bool(c[1])
    if k == "I":
        return int(c[1])
    if k == "F":
        return b2f(c[1])
    if k == "S":
        return "".join(chr(x) for x in c[1])
    if k == "Y":
        return bytes.fromhex(c[1])
    if k == "L":
        return [val_from_canon(x) for x in c[1]]
    if k == "T":
        return tuple(val_from_canon(x) for x in c[1])
    if k == "D":
        return {(None if kk is None else val_from_canon(kk)): val_from_canon(x) for kk, x in c[1]}
    if k == "C":
        return getattr(dt, c[1])
    raise ValueError(c)


def canon_unordered(c):
    """canonical form with dict items sorted (Python dict equality ignores insertion order)"""
    if c[0] in ("L", "T"):
        return (c[0], tuple(canon_unordered(x) for x in c[1]))
    if c[0] == "D":
        return ("D", tuple(sorted(((k, canon_unordered(x)) for k, x in c[1]), key=repr)))
    return c


# ------------------------------------------------------------------ the statement's side conditions, in Python
# Mirrors of Model/CodecDom.v (doc_dom, wf_ty, in_dom, norm, greedy, ...), written independently and
# cross-checked against the extracted Coq definitions on every generated case (`domain_check`).
def expand(td):
    """type descriptor -> the constructor form of Model/Codec.v `ty` (names resolved)"""
    k = td[0]
    if k == "elem":
        n = td[1]
        if n == "BOOL":
            return ("bool",)
        if n in INT_NAMES:
            return ("int",) + INT_NAMES[n]
        if n in ("REAL", "LREAL"):
            return ("real", n == "LREAL")
        if n == "DATE_AND_TIME":
            return ("datetime",)
        if n in STR_NAMES:
            return ("str", False, STR_NAMES[n][0], STR_NAMES[n][1])
        if n == "STRINGN":
            return ("stringn",)
        if n == "STRINGI":
            return ("stringi",)
        if n in BITS_NAMES:
            return ("bits", BITS_NAMES[n])
        raise ValueError(n)
    if k == "named":
        n = td[1]
        rev = ("struct", "plain", (("major", ("int", False, 1)), ("minor", ("int", False, 1))))
        ident = (("vendor", ("int", False, 2)), ("product_type", ("int", False, 2)), ("product_code", ("int", False, 2)),
                 ("revision", rev), ("status", ("nbytes", 2)), ("serial", ("int", False, 4)), ("product_name", ("str", False, 1, "latin1")))
        if n == "IPAddress":
            return ("ip",)
        if n == "Revision":
            return rev
        if n == "ModuleIdentityObject":
            return ("struct", "module", ident)
        if n == "ListIdentityObject":
            return ("struct", "list", ((None, ("int", False, 2)), (None, ("int", False, 2)), ("encap_protocol_version", ("int", False, 2)),
                                       (None, ("int", True, 2)), (None, ("int", False, 2)), ("ip_address", ("ip",)), (None, ("int", False, 8)))
                    + ident + (("state", ("int", False, 1)),))
        return ("pccc_ascii",) if n == "PCCC_ASCII" else ("pccc_string",)
    if k == "nbytes":
        return td
    if k == "arr":
        return ("arr", td[1], expand(td[2]))
    if k == "arrp":
        return ("arrp", td[1], expand(td[2]), expand(td[3]))
    if k == "arrall":
        return ("arrall", expand(td[1]))
    if k == "struct":
        return ("struct", "plain", tuple((n, expand(t)) for n, t in td[1]))
    if k == "fss":
        sg, w = INT_NAMES[td[2]]
        return ("fss", td[1], sg, w, td[1] if td[3] is None else td[3])
    if k == "stag":
        return ("stag", tuple((n, o, expand(t)) for n, o, t in td[1]), td[2], td[3], td[4])
    raise ValueError(td)


def x_greedy(x):
    k = x[0]
    if k == "nbytes":
        return x[1] < 0
    if k in ("arrall", "pccc_string"):
        return True
    if k == "struct":
        return bool(x[2]) and x_greedy(x[2][-1][1])
    return False


def x_doc_greedy(x):
    k = x[0]
    if k == "nbytes":
        return x[1] == -1
    if k == "arrall":
        return True
    if k == "struct":
        return bool(x[2]) and x_doc_greedy(x[2][-1][1])
    return False


def x_fixed_width(x):
    k = x[0]
    if k == "bool":
        return 1
    if k == "int":
        return x[2]
    if k == "real":
        return 8 if x[1] else 4
    if k == "bits":
        return x[1]
    if k == "datetime":
        return 6
    if k == "nbytes":
        return x[1] if x[1] >= 0 else None
    if k == "fss":
        return x[3] + x[1]
    if k == "ip":
        return 4
    if k == "pccc_ascii":
        return 2
    if k == "arr":
        w = x_fixed_width(x[2])
        return None if w is None else x[1] * w
    if k == "stag":
        return x[4]
    return None


def x_consumes(x):
    k = x[0]
    if k in ("bool", "real", "datetime", "stringn", "stringi", "ip"):
        return True
    if k == "int":
        return x[2] > 0
    if k == "bits":
        return x[1] > 0
    if k == "nbytes":
        return x[1] > 0
    if k == "str":
        return x[2] > 0
    if k == "fss":
        return x[3] > 0
    if k == "arr":
        return x[1] > 0 and x_consumes(x[2])
    if k == "struct":
        return bool(x[2]) and x_consumes(x[2][0][1])
    if k == "stag":
        return x[4] > 0 and bool(x[1]) and x_consumes(x[1][0][2])
    return False


def x_hang_prone(x):
    """contains an Array(<length type>, T) whose element type can occupy no bytes: a large decoded
    count then loops that many times over nothing (the model bounds the loop by count_limit, the
    implementation by the time budget)"""
    k = x[0]
    if k == "arrp":
        return not x_consumes(x[3]) or x_hang_prone(x[2]) or x_hang_prone(x[3])
    if k == "arrall":
        return x_hang_prone(x[1])
    if k == "arr":
        return x_hang_prone(x[2])
    if k == "struct":
        return any(x_hang_prone(t) for _, t in x[2])
    if k == "stag":
        return any(x_hang_prone(t) for _, _, t in x[1])
    return False


def x_always_decodes(x):
    k = x[0]
    if k in ("bool", "real", "datetime", "ip"):
        return True
    if k == "int":
        return x[2] > 0
    if k == "bits":
        return x[1] > 0
    if k == "nbytes":
        return x[1] >= 0
    if k == "arr":
        return x_always_decodes(x[2])
    return False


def _unnamed(k):
    return k is None or k == ""


def _int_in_range(sg, w, z):
    return (-(1 << (8 * w - 1)) <= z < (1 << (8 * w - 1))) if sg else (0 <= z < (1 << (8 * w)))


def _is_int(v):
    return isinstance(v, int) and not isinstance(v, bool)


def _encodable(enc, s):
    try:
        s.encode({"latin1": "iso-8859-1", "utf8": "utf-8", "utf16": "utf-16-le", "utf32": "utf-32-le"}[enc])
        return True
    except UnicodeError:
        return False


def _code_units(enc, s):
    codec, size = {"latin1": ("iso-8859-1", 1), "utf8": ("utf-8", 1), "utf16": ("utf-16-le", 2), "utf32": ("utf-32-le", 4)}[enc]
    return len(s.encode(codec)) // size


def _single_byte(enc, s):
    lim = {"latin1": 256, "utf8": 128}.get(enc, 0)
    return all(ord(c) < lim for c in s)


def _ip_ok(s):
    parts = s.split(".")
    return len(parts) == 4 and all(p.isascii() and p.isdigit() and len(p) <= 3 and (p == "0" or p[0] != "0") and int(p) <= 255 for p in parts)


def round_binary32(x):
    """nearest binary32 (ties to even) of a double, as a double; None = beyond the binary32 range.
    Integer arithmetic only (independent of struct.pack)."""
    from fractions import Fraction
    if x != x or x in (float("inf"), float("-inf")) or x == 0:
        return x
    a = Fraction(abs(x))
    m, ex = math.frexp(abs(x))
    q = max(ex - 1 - 23, -149)
    n = a / Fraction(2) ** q
    fl = n.numerator // n.denominator
    r = n - fl
    if r > Fraction(1, 2) or (r == Fraction(1, 2) and fl % 2 == 1):
        fl += 1
    res = Fraction(fl) * Fraction(2) ** q
    if res >= Fraction(2) ** 128:
        return None
    return math.copysign(float(res), x)


def _stringi_parts(v):
    dt = _dt()
    if not (isinstance(v, tuple) and len(v) == 4 and isinstance(v[0], str) and isinstance(v[1], type)
            and isinstance(v[2], str) and _is_int(v[3])):
        return None
    names = {dt.STRING: "STRING", dt.STRING2: "STRING2", dt.STRINGN: "STRINGN", dt.SHORT_STRING: "SHORT_STRING"}
    if v[1] not in names:
        return None
    return v[0], expand(("elem", names[v[1]])), v[2], v[3]


def py_doc_val(x, v):
    """mirror of CodecDom.doc_val: value documented to be accepted by the type"""
    k = x[0]
    if k == "bool":
        return isinstance(v, bool)
    if k == "int":
        return x[2] > 0 and _is_int(v) and _int_in_range(x[1], x[2], v)
    if k == "real":
        return isinstance(v, float) and (x[1] or round_binary32(v) is not None)
    if k == "datetime":
        return isinstance(v, tuple) and len(v) == 2 and _is_int(v[0]) and _is_int(v[1]) and 0 <= v[0] < 1 << 32 and 0 <= v[1] < 1 << 16
    if k == "str":
        return isinstance(v, str) and x[2] > 0 and _encodable(x[3], v) and _int_in_range(x[1], x[2], _code_units(x[3], v))
    if k == "stringn":
        return isinstance(v, str) and len(v) < 65536 and _single_byte("latin1", v)
    if k == "stringi":
        p = _stringi_parts(v)
        return p is not None and py_doc_val(p[1], p[0]) and len(p[2]) == 3 and p[2].isascii() and 0 <= p[3] < 65536
    if k == "nbytes":
        return isinstance(v, bytes) and (len(v) > 0 if x[1] == -1 else (x[1] >= 0 and len(v) == x[1]))
    if k == "bits":
        return x[1] > 0 and isinstance(v, list) and len(v) == 8 * x[1] and all(isinstance(b, bool) for b in v)
    if k == "arr":
        if not isinstance(v, list):
            return False
        if x[2][0] == "bits":
            return x[2][1] > 0 and len(v) >= x[1] * 8 * x[2][1] and all(isinstance(b, bool) for b in v)
        return not x_greedy(x[2]) and len(v) >= x[1] and all(py_doc_val(x[2], e) for e in v[:x[1]])
    if k == "arrp":
        lt = x[2]
        return (lt[0] == "int" and isinstance(v, list) and not x_greedy(x[3]) and lt[2] > 0 and _int_in_range(lt[1], lt[2], len(v))
                and all(py_doc_val(x[3], e) for e in v))
    if k == "arrall":
        if not isinstance(v, list):
            return False
        if x[1][0] == "bits":
            return x[1][1] > 0 and len(v) % (8 * x[1][1]) == 0 and all(isinstance(b, bool) for b in v)
        return not x_greedy(x[1]) and x_consumes(x[1]) and all(py_doc_val(x[1], e) for e in v)
    if k == "struct":
        ms = x[2]
        if any(x_greedy(t) for _, t in ms[:-1]):
            return False
        if x[1] == "plain":
            if isinstance(v, dict):
                return all(n in v and py_doc_val(t, v[n]) for n, t in ms)
            return isinstance(v, list) and len(v) == len(ms) and all(py_doc_val(t, e) for (_, t), e in zip(ms, v))
        pre = identity_pre(v)
        return pre is not None and all(_unnamed(n) or (n in pre and py_doc_val(t, pre[n])) for n, t in ms)
    if k == "fss":
        return isinstance(v, str) and _int_in_range(x[2], x[3], len(v[:x[4]])) and _encodable("latin1", v[:x[4]])
    if k == "stag":
        ms, bits, priv, size = x[1], x[2], x[3], x[4]
        if not stag_layout_ok(ms, size) or len(set([n for n, _, _ in ms] + [n for n, _, _ in bits])) != len(ms) + len(bits):
            return False
        if not all(o < size and b < 8 for _, o, b in bits) or not isinstance(v, dict):
            return False
        return (all(n in priv or (n in v and py_doc_val(t, v[n])) for n, _, t in ms)
                and all(n in v and isinstance(v[n], bool) for n, _, _ in bits))
    if k == "ip":
        return isinstance(v, str) and _ip_ok(v)
    if k == "pccc_ascii":
        return isinstance(v, str) and len(v) == 2 and _single_byte("latin1", v)
    if k == "pccc_string":
        return isinstance(v, str) and len(v) <= 82 and _single_byte("latin1", v)
    raise ValueError(x)


def x_doc_wf(x):
    """mirror of CodecDom.doc_wf: a type term the constructors are documented to build"""
    k = x[0]
    if k == "int":
        return x[2] > 0
    if k == "bits":
        return x[1] > 0
    if k == "str":
        return x[2] > 0
    if k == "nbytes":
        return x[1] >= -1
    if k == "arr":
        return x_doc_wf(x[2]) and not x_greedy(x[2])
    if k == "arrp":
        return x[2][0] == "int" and x[2][2] > 0 and x_doc_wf(x[3]) and not x_greedy(x[3])
    if k == "arrall":
        return x_doc_wf(x[1]) and not x_greedy(x[1]) and (x[1][0] == "bits" or x_consumes(x[1]))
    if k == "struct":
        named = [n for n, _ in x[2] if not _unnamed(n)]
        return all(x_doc_wf(t) for _, t in x[2]) and not any(x_greedy(t) for _, t in x[2][:-1]) and len(set(named)) == len(named)
    if k == "fss":
        return x[4] <= x[1] and x[3] > 0
    if k == "stag":
        ms, bits, priv, size = x[1], x[2], x[3], x[4]
        vis = [(o, x_fixed_width(t)) for n, o, t in ms if n not in priv]
        return (all(x_doc_wf(t) and not x_greedy(t) for _, _, t in ms) and stag_layout_ok(ms, size)
                and len(set([n for n, _, _ in ms] + [n for n, _, _ in bits])) == len(ms) + len(bits)
                and all(n not in priv or x_always_decodes(t) for n, _, t in ms)
                and all(n not in priv and o < size and b < 8 and not any(vo <= o < vo + w for vo, w in vis) for n, o, b in bits)
                and len(set((o, b) for _, o, b in bits)) == len(bits))
    return True


def py_doc_dom(x, v):
    """mirror of CodecDom.doc_dom"""
    return x_doc_wf(x) and py_doc_val(x, v)


def x_type_devs(x, out=None):
    """deviation classes a documented-constructible TYPE term touches whatever the value
    (empty <=> wf_ty)"""
    out = [] if out is None else out
    k = x[0]
    if k == "arrp":
        out.append("Array(length-type)")
    elif k == "arr":
        x_type_devs(x[2], out)
    elif k == "arrall":
        x_type_devs(x[1], out)
    elif k == "struct":
        if x[1] == "list":
            out.append("ListIdentityObject:no-encode")
        for _, t in x[2]:
            x_type_devs(t, out)
    elif k == "stag":
        for _, _, t in x[1]:
            x_type_devs(t, out)
    return out


def stag_layout_ok(ms, size):
    """every member of constant width, inside the structure, extents pairwise disjoint (any order)"""
    ext = []
    for _, off, t in ms:
        w = x_fixed_width(t)
        if w is None or off + w > size:
            return False
        ext.append((off, w))
    return all(a[0] + a[1] <= b[0] or b[0] + b[1] <= a[0] for i, a in enumerate(ext) for b in ext[i + 1:])


def identity_pre(v):
    """the head of ModuleIdentityObject._encode as a pure function: names -> ids, serial text -> int"""
    from pycomm3.cip.status_info import VENDORS, PRODUCT_TYPES
    if not isinstance(v, dict):
        return None
    try:
        d = dict(v)
        d["product_type"] = PRODUCT_TYPES[d["product_type"]]
        d["vendor"] = VENDORS[d["vendor"]]
        if not isinstance(d["serial"], str):
            return None
        d["serial"] = int.from_bytes(bytes.fromhex(d["serial"]), "big")
        return d
    except (KeyError, ValueError, TypeError):
        return None


def py_devs(x, v, rest=b""):
    """for (x, v) in the documented domain: the deviation classes of the code that the case touches
    (empty <=> wf_ty x && in_dom x v, and no data after a reader-to-the-end)."""
    out = x_type_devs(x)
    _devs(x, v, out)
    if x_greedy(x) and rest:
        out.append("PCCC_STRING:followed-by-data" if not x_doc_greedy(x) else "greedy:followed-by-data")
    return sorted(set(out))


def _devs(x, v, out):
    """value-dependent deviation classes"""
    k = x[0]
    if k == "str":
        if x[3] == "utf8" and not v.isascii() or x[3] == "utf32" and v:
            out.append("string:codec-not-modelled")
    elif k == "stringi":
        p = _stringi_parts(v)
        sub = []
        _devs(p[1], p[0], sub)
        out += ["STRINGI>" + c for c in sub]
    elif k == "arr":
        e = x[2]
        if e[0] == "bits":
            if len(v) != x[1] * 8 * e[1]:
                out.append("BitArray[n]:overlong")
        else:
            for y in v[:x[1]]:
                _devs(e, y, out)
    elif k in ("arrall", "arrp"):
        e = x[-1]
        if e[0] != "bits":
            for y in v:
                _devs(e, y, out)
    elif k == "struct":
        ms = x[2]
        if x[1] == "list":
            return
        src = identity_pre(v) if x[1] == "module" else v
        vals = [src[n] for n, _ in ms] if isinstance(src, dict) else list(src)
        for (n, t), y in zip(ms, vals):
            _devs(t, y, out)
    elif k == "stag":
        for n, _, t in x[1]:
            if n not in x[3]:
                _devs(t, v[n], out)
    elif k == "pccc_string":
        if len(v) % 2:
            out.append("PCCC_STRING:odd-length")


def py_norm(x, v):
    """the value decode is documented to return for an in-domain input: identity up to REAL
    rounding, truncation of over-long input to fixed arrays / fixed strings, positional struct input
    as a dict of the named members, STRINGI's (strings, langs, char_sets)"""
    k = x[0]
    if k == "real":
        return v if x[1] else round_binary32(v)
    if k == "stringi":
        return ([v[0]], [v[2]], [v[3]])
    if k == "fss":
        return v[:x[4]]
    if k == "arr":
        if x[2][0] == "bits":
            return v[:x[1] * 8 * x[2][1]]
        return [py_norm(x[2], e) for e in v[:x[1]]]
    if k in ("arrall", "arrp"):
        return v if x[-1][0] == "bits" else [py_norm(x[-1], e) for e in v]
    if k == "struct":
        ms = x[2]
        if x[1] == "plain":
            vals = [v[n] for n, _ in ms] if isinstance(v, dict) else list(v)
            return {n: py_norm(t, y) for (n, t), y in zip(ms, vals) if not _unnamed(n)}
        from pycomm3.cip.status_info import VENDORS, PRODUCT_TYPES
        pre = identity_pre(v)
        out = {n: py_norm(t, pre[n]) for n, t in ms if not _unnamed(n)}
        out["product_type"] = PRODUCT_TYPES.get(out["product_type"], "UNKNOWN")
        out["vendor"] = VENDORS.get(out["vendor"], "UNKNOWN")
        out["serial"] = "%08x" % out["serial"]
        return out
    if k == "stag":
        out = {n: py_norm(t, v[n]) for n, _, t in x[1] if n not in x[3]}
        out.update({n: v[n] for n, _, _ in x[2]})
        return out
    return v


def oracle_one(case, budget=0.5):
    """the C06 statement on the real implementation: T.decode(BytesIO(T.encode(v) + rest)) and
    stream.tell().  -> ("rt", canon(decoded), consumed, len(encoding)) | ("encerr", code) | ("decerr", code, len) | ("hang",)"""
    T = ty_build(case[1])
    signal.setitimer(signal.ITIMER_REAL, budget)
    try:
        try:
            bs = T.encode(case[2])
        except _Hang:
            return ("hang",)
        except Exception as e:
            return ("encerr", exn_code(e))
        if not isinstance(bs, (bytes, bytearray)):
            return ("encerr", -1)
        s = BytesIO(bytes(bs) + case[3])
        try:
            d = T.decode(s)
        except _Hang:
            return ("hang",)
        except Exception as e:
            if _caused_by_memory(e):
                return ("hang",)
            return ("decerr", exn_code(e), len(bs))
        return ("rt", canon(d), s.tell(), len(bs))
    except (_Hang, MemoryError):
        return ("hang",)
    finally:
        signal.setitimer(signal.ITIMER_REAL, 0)
