"""gen_codec.py — regenerated declarative facts for the codec vertical (C06/C07/C08) beyond the
elementary rows of Gen/Types.v: STRINGN.ENCODINGS, STRINGI.STRING_TYPES, the encodings inherited by FixedSizeString and
the PCCC string types, FixedSizeString's default length type, and the member lists of the Struct
instances Revision / ModuleIdentityObject / ListIdentityObject.  Fail closed: the AST view of each
construct is cross-checked with the imported runtime object."""
import ast
import inspect

from gen_tables import GenError, HEADER, _import, _parse, zs


def _class(tree, name):
    for node in tree.body:
        if isinstance(node, ast.ClassDef) and node.name == name:
            return node
    raise GenError(f"class {name}: not found")


def _stringn_encodings():
    tree = _parse("pycomm3/cip/data_types.py")
    mod = _import("pycomm3.cip.data_types")
    node = _class(tree, "STRINGN")
    lit = None
    for st in node.body:
        if isinstance(st, ast.Assign) and len(st.targets) == 1 and isinstance(st.targets[0], ast.Name) and st.targets[0].id == "ENCODINGS":
            try:
                lit = ast.literal_eval(st.value)
            except Exception:
                raise GenError("STRINGN.ENCODINGS: not a literal dict")
    if lit is None or lit != mod.STRINGN.ENCODINGS:
        raise GenError("STRINGN.ENCODINGS: AST literal differs from runtime")
    for k, v in lit.items():
        if not isinstance(k, int) or isinstance(k, bool) or not isinstance(v, str):
            raise GenError("STRINGN.ENCODINGS: entry not int -> str")
    return list(lit.items())


def _stringi_types():
    """STRINGI.STRING_TYPES = {X.code: X, ...}: (code, class name) in dict order"""
    tree = _parse("pycomm3/cip/data_types.py")
    mod = _import("pycomm3.cip.data_types")
    node = _class(tree, "STRINGI")
    names = None
    for st in node.body:
        if isinstance(st, ast.Assign) and len(st.targets) == 1 and isinstance(st.targets[0], ast.Name) and st.targets[0].id == "STRING_TYPES":
            if not isinstance(st.value, ast.Dict):
                raise GenError("STRINGI.STRING_TYPES: not a dict display")
            names = []
            for k, v in zip(st.value.keys, st.value.values):
                if not (isinstance(k, ast.Attribute) and k.attr == "code" and isinstance(k.value, ast.Name)
                        and isinstance(v, ast.Name) and v.id == k.value.id):
                    raise GenError("STRINGI.STRING_TYPES: entry is not `X.code: X`")
                names.append(v.id)
    if names is None:
        raise GenError("STRINGI.STRING_TYPES: not found")
    rt = mod.STRINGI.STRING_TYPES
    out = []
    for n in names:
        cls = getattr(mod, n, None)
        if cls is None or not isinstance(cls.code, int) or isinstance(cls.code, bool):
            raise GenError(f"STRINGI.STRING_TYPES: {n} has no integer code")
        out.append((cls.code, n))
    if [(c, t.__name__) for c, t in rt.items()] != list(dict(out).items()) or any(getattr(mod, n) is not rt[c] for c, n in dict(out).items()):
        raise GenError("STRINGI.STRING_TYPES: AST view differs from runtime")
    return out


def _string_char_sizes():
    """char_size (bytes per character) of every exported StringDataType subclass, of FixedSizeString
    and of the PCCC string types: AST view (`char_size = <int>` in the nearest class of the MRO that
    assigns it) cross-checked with the runtime attribute"""
    tree = _parse("pycomm3/cip/data_types.py")
    mod = _import("pycomm3.cip.data_types")
    ct = _import("pycomm3.custom_types")
    pc = _import("pycomm3.cip.pccc")
    assigned = {}
    for node in tree.body:
        if isinstance(node, ast.ClassDef):
            for st in node.body:
                tgt = None
                if isinstance(st, ast.Assign) and len(st.targets) == 1 and isinstance(st.targets[0], ast.Name):
                    tgt, val = st.targets[0].id, st.value
                elif isinstance(st, ast.AnnAssign) and isinstance(st.target, ast.Name) and st.value is not None:
                    tgt, val = st.target.id, st.value
                if tgt == "char_size":
                    if not (isinstance(val, ast.Constant) and isinstance(val.value, int) and not isinstance(val.value, bool)):
                        raise GenError(f"{node.name}.char_size: not an integer literal")
                    assigned[node.name] = val.value
    if "StringDataType" not in assigned:
        raise GenError("StringDataType.char_size: not found")
    out = []
    classes = [getattr(mod, n) for n in mod.__all__ if isinstance(getattr(mod, n), type) and issubclass(getattr(mod, n), mod.StringDataType)]
    classes += [ct.FixedSizeString(1), pc.PCCC_ASCII, pc.PCCC_STRING]
    for cls in classes:
        ast_val = None
        for k in cls.__mro__:
            if k.__name__ in assigned and (k.__module__ == mod.__name__):
                ast_val = assigned[k.__name__]
                break
            if "char_size" in k.__dict__ and k.__module__ != mod.__name__:
                raise GenError(f"{cls.__name__}: char_size assigned outside data_types.py")
        rv = getattr(cls, "char_size", None)
        if not isinstance(rv, int) or isinstance(rv, bool) or rv != ast_val:
            raise GenError(f"{cls.__name__}.char_size: runtime {rv!r} differs from AST {ast_val!r}")
        out.append((cls.__name__, rv))
    return out


def _member_desc(m, where):
    """(name or None, type descriptor (class name, parameter)) of a Struct member (class or instance)"""
    dt = _import("pycomm3.cip.data_types")
    ct = _import("pycomm3.custom_types")
    cls = m if isinstance(m, type) else type(m)
    name = m.name
    if name is not None and not isinstance(name, str):
        raise GenError(f"{where}: member name {name!r}")
    if issubclass(cls, dt.BytesDataType):
        return name, ("BYTES", cls.size)
    if cls is ct.Revision:
        return name, ("Revision", 0)
    if cls is ct.IPAddress:
        return name, ("IPAddress", 0)
    if getattr(dt, cls.__name__, None) is cls and issubclass(cls, dt.ElementaryDataType):
        return name, (cls.__name__, 0)
    raise GenError(f"{where}: unrecognised member type {cls!r}")


def _ast_member(arg, where):
    """AST view of one Struct(...) argument: (name or None/'', callee name)"""
    if isinstance(arg, ast.Name):
        return None, arg.id
    if isinstance(arg, ast.Call) and isinstance(arg.func, ast.Name):
        if arg.func.id == "n_bytes":
            if len(arg.args) == 2 and all(isinstance(a, ast.Constant) for a in arg.args):
                return arg.args[1].value, ("n_bytes", arg.args[0].value)
            if len(arg.args) == 1 and isinstance(arg.args[0], ast.Constant):
                return "", ("n_bytes", arg.args[0].value)
            raise GenError(f"{where}: n_bytes call shape")
        if len(arg.args) == 1 and isinstance(arg.args[0], ast.Constant) and not arg.keywords:
            return arg.args[0].value, arg.func.id
        if not arg.args and not arg.keywords:
            return None, arg.func.id
    raise GenError(f"{where}: unrecognised Struct member expression")


def _struct_class(name):
    tree = _parse("pycomm3/custom_types.py")
    ct = _import("pycomm3.custom_types")
    node = _class(tree, name)
    if not (len(node.bases) == 1 and isinstance(node.bases[0], ast.Call) and isinstance(node.bases[0].func, ast.Name)
            and node.bases[0].func.id == "Struct" and not node.bases[0].keywords):
        raise GenError(f"{name}: base is not a Struct(...) call")
    cls = getattr(ct, name)
    rt = [_member_desc(m, name) for m in cls.members]
    av = [_ast_member(a, name) for a in node.bases[0].args]
    if len(rt) != len(av):
        raise GenError(f"{name}: member count differs between AST and runtime")
    for (rn, (rc, rp)), (an, ac) in zip(rt, av):
        if rn != an:
            raise GenError(f"{name}: member name {rn!r} vs AST {an!r}")
        if rc == "BYTES":
            if ac != ("n_bytes", rp):
                raise GenError(f"{name}: n_bytes member differs")
        elif ac != rc:
            raise GenError(f"{name}: member type {rc} vs AST {ac}")
    return rt


def _coq_members(ms):
    rows = []
    for n, (c, p) in ms:
        nm = "None" if n is None else f"Some {zs(n)}"
        rows.append(f"  ({nm}, ({zs(c)}, {int(p)}))")
    return "[\n" + ";\n".join(rows) + "]"


def gen_codec_facts():
    dt = _import("pycomm3.cip.data_types")
    ct = _import("pycomm3.custom_types")
    pc = _import("pycomm3.cip.pccc")
    out = [HEADER]
    out.append("(* STRINGN.ENCODINGS *)\nDefinition stringn_encodings : list (Z * list Z) := [" +
               "; ".join(f"({k}, {zs(v)})" for k, v in _stringn_encodings()) + "].\n\n")
    out.append("(* STRINGI.STRING_TYPES: code -> class name *)\nDefinition stringi_string_types : list (Z * list Z) := [" +
               "; ".join(f"({c}, {zs(n)})" for c, n in _stringi_types()) + "].\n\n")
    out.append("(* char_size of the string classes: class name -> bytes per character *)\nDefinition string_char_sizes : list (list Z * Z) := [" +
               "; ".join(f"({zs(n)}, {c})" for n, c in _string_char_sizes()) + "].\n\n")
    # encodings of derived string classes (inherited class attribute `encoding`)
    fss = ct.FixedSizeString(1)
    for nm, cls in (("fss_encoding", fss), ("pccc_ascii_encoding", pc.PCCC_ASCII), ("pccc_string_encoding", pc.PCCC_STRING)):
        e = getattr(cls, "encoding", None)
        if not isinstance(e, str):
            raise GenError(f"{nm}: no encoding attribute")
        if "encoding" in cls.__dict__:
            raise GenError(f"{nm}: class overrides `encoding` (the model reads the inherited one)")
        out.append(f"Definition {nm} : list Z := {zs(e)}.\n")
    for cls in (pc.PCCC_ASCII, pc.PCCC_STRING):
        if sorted(k for k in ("encode", "decode", "_encode", "_decode") if k in cls.__dict__) != ["_decode", "_encode"]:
            raise GenError(f"{cls.__name__}: overrides other than _encode/_decode")
    if sorted(k for k in ("encode", "decode", "_encode", "_decode") if k in fss.__dict__) != ["_decode", "_encode"]:
        raise GenError("FixedSizeString: overrides other than _encode/_decode")
    # default length type of FixedSizeString
    d = inspect.signature(ct.FixedSizeString).parameters["len_type_"].default
    if not (isinstance(d, type) and getattr(dt, d.__name__, None) is d):
        raise GenError("FixedSizeString: default len_type_ is not an exported type class")
    out.append(f"Definition fss_default_len_type : list Z := {zs(d.__name__)}.\n")
    # FixedSizeString(size_, len_type_=UDINT, capacity_=None): the model's TFixedStr carries (size, len type, capacity)
    params = list(inspect.signature(ct.FixedSizeString).parameters.items())
    if [n for n, _ in params] != ["size_", "len_type_", "capacity_"] or params[2][1].default is not None:
        raise GenError("FixedSizeString: signature is not (size_, len_type_=..., capacity_=None)")
    if (fss.size, fss.capacity) != (1, 1) or ct.FixedSizeString(5, dt.UINT, 3).capacity != 3:
        raise GenError("FixedSizeString: size/capacity class attributes")
    out.append("Definition fss_has_capacity : bool := true.\n\n")
    out.append("(* member lists of the Struct instances in custom_types.py: (name, (type class, parameter)) *)\n")
    for cname, coqname in (("Revision", "revision_members"), ("ModuleIdentityObject", "module_identity_members"),
                           ("ListIdentityObject", "list_identity_members")):
        out.append(f"Definition {coqname} : list (option (list Z) * (list Z * Z)) := {_coq_members(_struct_class(cname))}.\n\n")
    return "".join(out)


GENERATORS = {"CodecFacts.v": gen_codec_facts}
