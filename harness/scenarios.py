"""scenarios.py — controller projects for the reference target (TARGET.md, DESIGN.md "Tie for all
five"): a seeded random project generator, random memory images, serialisation to the protocol
lines of bin/modelrun_target (Extract/ExTarget.v), and request generators (valid and invalid).

    sc = gen_scenario(rng)                 # Scenario: templates, tags, memory, policies, cfg
    tp.lines(sc.lines())                   # load it into a TargetProc("target")
    reqs = gen_read_requests(rng, sc, 20)  # request strings that exist in the project
    bad  = gen_invalid_requests(rng, sc, 5)
    w    = gen_write_requests(rng, sc, 10) # [(request string, tagged value)]  (refview.to_python / to_tokens)

A project is plain Python data:
    template: {"id","name","tail": str|None,"handle","size","defsize": 0 = computed,
               "members": [{"name","kind": "a"|"s","code": type code | template id,"arr","off","bit","hidden"}]}
    tag:      {"name","inst","prog": None|str,"kind": "a"|"s"|"o","code","dims": [..],"bitpos","system",
               "access","attr3","attr5","attr6"}
Nothing here imports pycomm3.
"""
import random

# ------------------------------------------------------------------ elementary types
ATOMS = {  # name -> (code, size)
    "BOOL": (0xC1, 1), "SINT": (0xC2, 1), "INT": (0xC3, 2), "DINT": (0xC4, 4), "LINT": (0xC5, 8),
    "USINT": (0xC6, 1), "UINT": (0xC7, 2), "UDINT": (0xC8, 4), "ULINT": (0xC9, 8),
    "REAL": (0xCA, 4), "LREAL": (0xCB, 8), "DWORD": (0xD3, 4),
}
CODE_NAME = {c: n for n, (c, _) in ATOMS.items()}
CODE_SIZE = {c: s for _, (c, s) in ATOMS.items()}
SIGNED = {0xC2, 0xC3, 0xC4, 0xC5}
UNSIGNED = {0xC6, 0xC7, 0xC8, 0xC9}
INTEGER = SIGNED | UNSIGNED
BOOL, SINT, INT, DINT, DWORD, REAL, LREAL = 0xC1, 0xC2, 0xC3, 0xC4, 0xD3, 0xCA, 0xCB
BASE_TAG_BIT = 1 << 26

VALUE_ATOMS = ["SINT", "INT", "DINT", "LINT", "USINT", "UINT", "UDINT", "ULINT", "REAL", "LREAL"]


def x(s):
    """name / request string -> protocol token"""
    if isinstance(s, str):
        s = s.encode("latin-1")
    return "x" + bytes(s).hex()


class Scenario:
    def __init__(self):
        self.templates = []      # in definition order (a template only uses earlier ones)
        self.tags = []
        self.mem = {}            # inst -> bytes
        self.policy = {"page": [], "frag": [], "tmpl": [], "booltrue": 255, "arraybit": 1}
        self.cfg = {}            # core cfg keys (rev_major, accept_large_fo, product_name, ...)
        self.note = {}

    # ---- lookups
    def template(self, tid):
        for t in self.templates:
            if t["id"] == tid:
                return t
        raise KeyError(tid)

    def base_size(self, kind, code):
        return CODE_SIZE[code] if kind == "a" else self.template(code)["size"]

    def tag_size(self, g):
        if g["kind"] == "o":
            return None
        n = 1
        for d in g["dims"]:
            n *= d
        return n * self.base_size(g["kind"], g["code"])

    def full_name(self, g):
        return g["name"] if g["prog"] is None else f"Program:{g['prog']}.{g['name']}"

    def data_tags(self):
        return [g for g in self.tags if g["kind"] != "o"]

    def is_string(self, t):
        vis = [m for m in t["members"] if not m["hidden"]]
        return (len(vis) == 2 and vis[0]["name"] == "LEN" and vis[1]["name"] == "DATA"
                and vis[0]["kind"] == "a" and vis[0]["code"] == DINT and vis[0]["arr"] == 0
                and vis[1]["kind"] == "a" and vis[1]["code"] == SINT and vis[1]["arr"] > 0)

    # ---- protocol lines
    def lines(self, clear=True):
        out = ["clearproject"] if clear else []
        for t in self.templates:
            ln = f"tmpl {t['id']} {t['handle']} {t['size']} {t.get('defsize', 0)} {x(t['name'])} " \
                 f"{'none' if t['tail'] is None else x(t['tail'])}"
            for m in t["members"]:
                ln += f" | m {x(m['name'])} {m['kind']} {m['code']} {m['arr']} {m['off']} {m['bit']} {1 if m['hidden'] else 0}"
            out.append(ln)
        # program symbols first so that program-scoped tags have their scope
        for g in sorted(self.tags, key=lambda g: (g["prog"] is not None, g["inst"])):
            sc = "c" if g["prog"] is None else f"p {x(g['prog'])}"
            out.append(f"tag {x(g['name'])} {g['inst']} {sc} {g['kind']} {g['code']} {g['bitpos']} "
                       f"{1 if g['system'] else 0} {g['access']} {g['attr3']} {g['attr5']} {g['attr6']}"
                       + "".join(f" {d}" for d in g["dims"]))
        for inst, img in self.mem.items():
            out.append(f"mem {inst} {x(img)}")
        for k in ("page", "frag", "tmpl"):
            out.append(f"policy {k}" + "".join(f" {v}" for v in self.policy[k]))
        out.append(f"policy booltrue {self.policy['booltrue']}")
        out.append(f"policy arraybit {self.policy['arraybit']}")
        return out

    def cfg_lines(self):
        out = []
        for k, v in self.cfg.items():
            out.append(f"cfg {k} {x(v) if isinstance(v, (bytes, str)) else int(v)}")
        return out


# ------------------------------------------------------------------ names
_WORDS = ["Tank", "Pump", "Valve", "Motor", "Level", "Speed", "Temp", "Flow", "Count", "State", "Cmd", "Sts",
          "Cfg", "Data", "Buf", "Idx", "Val", "Pos", "Err", "Out", "In", "Setpoint", "Alarm", "Timer", "X", "Y"]


class Namer:
    def __init__(self, rng):
        self.rng = rng
        self.used = set()

    def fresh(self, prefix="", parity=None):
        for _ in range(1000):
            n = prefix + "".join(self.rng.choice(_WORDS) for _ in range(self.rng.randint(1, 3)))
            if self.rng.random() < 0.4:
                n += str(self.rng.randint(0, 99))
            if self.rng.random() < 0.2:
                n += "_" + self.rng.choice(_WORDS)
            n = n[:38]
            if parity is not None and len(n) % 2 != parity:
                n += "a"
            if n.lower() not in self.used and n not in ("LEN", "DATA", "CTL", "Control"):
                self.used.add(n.lower())
                return n
        raise RuntimeError("no fresh name")


# ------------------------------------------------------------------ templates
def _align(off, a):
    return (off + a - 1) // a * a


def _tmpl_align(sc, kind, code):
    if kind == "a":
        return CODE_SIZE[code]
    t = sc.template(code)
    return 8 if t.get("align8") else 4


def string_template(tid, name, cap, handle, tail):
    size = _align(4 + cap, 4)
    return {"id": tid, "name": name, "tail": tail, "handle": handle, "size": size, "defsize": 0,
            "members": [{"name": "LEN", "kind": "a", "code": DINT, "arr": 0, "off": 0, "bit": 0, "hidden": False},
                        {"name": "DATA", "kind": "a", "code": SINT, "arr": cap, "off": 4, "bit": 0, "hidden": False}]}


def timer_template(tid, handle):
    """a predefined type: BOOLs on bits of the hidden DINT host CTL (byte offset 3)"""
    def mb(n, bit):
        return {"name": n, "kind": "a", "code": BOOL, "arr": 0, "off": 3, "bit": bit, "hidden": False}
    return {"id": tid, "name": "TIMER", "tail": None, "handle": handle, "size": 12, "defsize": 0,
            "members": [{"name": "CTL", "kind": "a", "code": DINT, "arr": 0, "off": 0, "bit": 0, "hidden": True},
                        {"name": "PRE", "kind": "a", "code": DINT, "arr": 0, "off": 4, "bit": 0, "hidden": False},
                        {"name": "ACC", "kind": "a", "code": DINT, "arr": 0, "off": 8, "bit": 0, "hidden": False},
                        mb("EN", 7), mb("TT", 6), mb("DN", 5)]}


def module_template(tid, name, handle):
    """a module-defined type: BOOL members overlay a VISIBLE INT host"""
    def mb(n, off, bit):
        return {"name": n, "kind": "a", "code": BOOL, "arr": 0, "off": off, "bit": bit, "hidden": False}

    def mi(n, code, off):
        return {"name": n, "kind": "a", "code": code, "arr": 0, "off": off, "bit": 0, "hidden": False}
    return {"id": tid, "name": name, "tail": None, "handle": handle, "size": 8, "defsize": 0,
            "members": [mi("Fault", DINT, 0), mi("Data", INT, 4), mb("Pt00", 4, 0), mb("Pt01", 4, 1),
                        mb("Pt09", 5, 1), mi("Pad", INT, 6)]}


def gen_udt(rng, sc, namer, tid, handle, depth, allow_big=True):
    """a user structure whose members may use the templates already in sc.templates of depth < `depth`"""
    members = []
    off = 0
    align8 = False
    nm = Namer(rng)
    n_members = rng.randint(1, 7)
    host_no = 0
    usable = [t for t in sc.templates if t.get("depth", 0) < depth]
    for _ in range(n_members):
        r = rng.random()
        if r < 0.25:                                   # a packed group of BOOLs on a hidden SINT host
            hostname = (f"ZZZZZZZZZZ{sc_name(tid)}{host_no}" if rng.random() < 0.8 else f"__host{host_no}")[:40]
            host_no += 1
            members.append({"name": hostname, "kind": "a", "code": SINT, "arr": 0, "off": off, "bit": 0, "hidden": True})
            bits = rng.sample(range(8), rng.randint(1, 8))
            for b in sorted(bits):
                members.append({"name": nm.fresh("b"), "kind": "a", "code": BOOL, "arr": 0, "off": off, "bit": b, "hidden": False})
            off += 1
        elif r < 0.40 and usable:                      # nested structure / string, maybe an array of them
            t = rng.choice(usable)
            a = 8 if t.get("align8") else 4
            align8 = align8 or a == 8
            off = _align(off, a)
            arr = rng.randint(1, 4) if rng.random() < 0.35 else 0
            members.append({"name": nm.fresh(), "kind": "s", "code": t["id"], "arr": arr, "off": off, "bit": 0, "hidden": False})
            off += t["size"] * max(arr, 1)
        elif r < 0.47:                                 # BOOL[32k] member = DWORD array
            off = _align(off, 4)
            arr = rng.randint(1, 3)
            members.append({"name": nm.fresh("bits"), "kind": "a", "code": DWORD, "arr": arr, "off": off, "bit": 0, "hidden": False})
            off += 4 * arr
        else:
            tn = rng.choice(VALUE_ATOMS)
            code, size = ATOMS[tn]
            align8 = align8 or size == 8
            off = _align(off, size)
            arr = rng.randint(1, 9 if allow_big else 3) if rng.random() < 0.3 else 0
            members.append({"name": nm.fresh(), "kind": "a", "code": code, "arr": arr, "off": off, "bit": 0, "hidden": False})
            off += size * max(arr, 1)
    size = _align(max(off, 1), 8 if align8 else 4)
    d = 1 + max([sc.template(m["code"]).get("depth", 0) for m in members if m["kind"] == "s"] + [0])
    return {"id": tid, "name": namer.fresh("udt", parity=rng.randint(0, 1)), "tail": "n" + "%X" % rng.randrange(1 << 32),
            "handle": handle, "size": size, "defsize": 0, "members": members, "align8": align8, "depth": d}


def sc_name(tid):
    return "T%d" % tid


# ------------------------------------------------------------------ memory images
def rand_value_bytes(rng, sc, kind, code):
    if kind == "a":
        size = CODE_SIZE[code]
        r = rng.random()
        if r < 0.1:
            return bytes(size)
        if r < 0.2:
            return b"\xff" * size
        if code in (REAL, LREAL) and r < 0.8:          # mostly ordinary numbers
            import struct
            v = rng.choice([0.0, 1.5, -2.25, 1e10, -3.0e-5, rng.uniform(-1e6, 1e6)])
            return struct.pack("<f" if code == REAL else "<d", v)
        return bytes(rng.randrange(256) for _ in range(size))
    t = sc.template(code)
    img = bytearray(rng.randrange(256) for _ in range(t["size"]))
    if sc.is_string(t):
        cap = t["members"][1]["arr"]
        n = rng.choice([0, cap, rng.randint(0, cap), rng.randint(0, min(cap, 12))])
        img[0:4] = n.to_bytes(4, "little")
        for i in range(cap):
            img[4 + i] = rng.randint(32, 126) if rng.random() < 0.9 else rng.randrange(256)
        return bytes(img)
    for m in t["members"]:
        if m["kind"] == "s":
            s = sc.template(m["code"])["size"]
            for k in range(max(m["arr"], 1)):
                img[m["off"] + k * s: m["off"] + (k + 1) * s] = rand_value_bytes(rng, sc, "s", m["code"])
        elif m["code"] != BOOL:
            s = CODE_SIZE[m["code"]]
            for k in range(max(m["arr"], 1)):
                img[m["off"] + k * s: m["off"] + (k + 1) * s] = rand_value_bytes(rng, sc, "a", m["code"])
    return bytes(img)


def rand_image(rng, sc, g):
    n = 1
    for d in g["dims"]:
        n *= d
    if g["kind"] == "a" and n > 64:                    # big arrays: cheap random bytes
        return bytes(rng.getrandbits(8) for _ in range(n * CODE_SIZE[g["code"]]))
    return b"".join(rand_value_bytes(rng, sc, g["kind"], g["code"]) for _ in range(n))


# ------------------------------------------------------------------ the project generator
def gen_scenario(rng, n_tags=None, big_ids=None, sized=None, programs=True, policies=True):
    """big_ids: probability that a tag gets a symbol instance id above 65535 (default: 0.15 in one
    scenario out of six, else 0; recorded in sc.note["big_ids"]);
    sized: optional list of (type name, element count) of extra 1-dim array tags (size sweeps)"""
    sc = Scenario()
    if big_ids is None:
        big_ids = 0.15 if rng.random() < 1 / 6 else 0
    sc.note["big_ids"] = big_ids
    namer = Namer(rng)
    handles = rng.sample(range(1, 65536), 64)
    user_ids = rng.sample(range(0x100, 0xF00), 24)
    pre_ids = rng.sample(list(range(1, 0x100)) + list(range(0xF00, 0x1000)), 8)

    # strings of several capacities: the built-in STRING (predefined range, "ASCIISTRING82"), custom ones
    sc.templates.append(dict(string_template(pre_ids.pop(), "ASCIISTRING82", 82, handles.pop(), None), depth=1))
    for cap in rng.sample([1, 2, 3, 5, 12, 20, 40, 81, 82, 83, 100, 255, 480], rng.randint(1, 3)):
        sc.templates.append(dict(string_template(user_ids.pop(), f"STRING{cap}" if rng.random() < 0.7 else namer.fresh("Str"),
                                                 cap, handles.pop(), "n" + "%X" % rng.randrange(1 << 24)), depth=1))
    if rng.random() < 0.7:
        sc.templates.append(dict(timer_template(pre_ids.pop(), handles.pop()), depth=1))
    modt = None
    if rng.random() < 0.7:
        modt = dict(module_template(pre_ids.pop(), "AB:Embedded_%s:I:0" % rng.choice(["IQ16", "OB16", "HSC"]), handles.pop()), depth=1)
        sc.templates.append(modt)
    for depth in (1, 1, 2, 2, 3):
        if rng.random() < 0.8:
            sc.templates.append(gen_udt(rng, sc, namer, user_ids.pop(), handles.pop(), depth))
    if rng.random() < 0.3:                             # a type in the predefined id range defined like a UDT
        t = gen_udt(rng, sc, namer, pre_ids.pop(), handles.pop(), 1)
        t["tail"] = None
        sc.templates.append(t)

    # instance ids: ascending but sparse, some above 255 and above 65535
    used_ids = set()

    def new_inst(big=False):
        for _ in range(1000):
            r = rng.random()
            if big:
                i = rng.randint(65536, 400000)
            elif r < 0.5:
                i = rng.randint(1, 255)
            elif r < 0.95:
                i = rng.randint(256, 65535)
            else:
                i = rng.randint(1, 65535)
            if i not in used_ids:
                used_ids.add(i)
                return i
        raise RuntimeError("no instance id")

    def mk(name, prog, kind, code, dims=(), bitpos=0, system=False, alias=False, big=False):
        return {"name": name, "inst": new_inst(big), "prog": prog, "kind": kind, "code": code, "dims": list(dims),
                "bitpos": bitpos, "system": system, "access": rng.choice([0, 0, 0, 2, 3]),
                "attr3": rng.randrange(1 << 32), "attr5": rng.randrange(1 << 32),
                "attr6": (rng.randrange(1 << 32) & ~BASE_TAG_BIT) | (0 if alias else BASE_TAG_BIT)}

    progs = []
    if programs:
        for _ in range(rng.randint(0, 2)):
            pn = namer.fresh("Prg")
            progs.append(pn)
            sc.tags.append(mk("Program:" + pn, None, "o", 0x1068))
            for _ in range(rng.randint(0, 2)):
                sc.tags.append(mk("Routine:" + namer.fresh("Rtn"), pn, "o", 0x106D))
    for _ in range(rng.randint(0, 2)):
        sc.tags.append(mk("Task:" + namer.fresh("Tsk"), None, "o", 0x1070))
    # symbols a client must filter
    for _ in range(rng.randint(0, 2)):
        sc.tags.append(mk(rng.choice(["Map:", "Cxn:"]) + namer.fresh(), None, "o", 0x1069))
    for _ in range(rng.randint(0, 2)):
        sc.tags.append(mk("__" + namer.fresh("DEFVAL"), None, "a", DINT))
    for _ in range(rng.randint(0, 2)):
        sc.tags.append(mk(namer.fresh("Sys"), None, "a", DINT, system=True))
    # module I/O tags (kept)
    if modt is not None:
        sc.tags.append(mk("Local:%d:I" % rng.randint(1, 16), None, "s", modt["id"]))
        if rng.random() < 0.5:
            sc.tags.append(mk(namer.fresh("Rack") + ":I", None, "s", modt["id"]))

    n = n_tags if n_tags is not None else rng.randint(8, 40)
    structs = [t for t in sc.templates if t is not modt]
    scopes = [None] * 4 + progs
    for k in range(n):
        prog = rng.choice(scopes)
        big = rng.random() < big_ids
        name = namer.fresh(parity=k % 2)
        r = rng.random()
        if r < 0.06:
            g = mk(name, prog, "a", BOOL, bitpos=rng.choice([0, 0, 0, rng.randint(0, 7)]), big=big)
        elif r < 0.45:
            g = mk(name, prog, "a", ATOMS[rng.choice(VALUE_ATOMS)][0], big=big)
        elif r < 0.62:
            nd = rng.randint(1, 3)
            dims = [rng.randint(1, 6) for _ in range(nd)] if nd > 1 else [rng.randint(1, 40)]
            g = mk(name, prog, "a", ATOMS[rng.choice(VALUE_ATOMS)][0], dims, big=big)
        elif r < 0.70:
            g = mk(name, prog, "a", DWORD, [rng.randint(1, 5)], big=big)
        elif r < 0.90 and structs:
            g = mk(name, prog, "s", rng.choice(structs)["id"], big=big)
        elif structs:
            nd = rng.randint(1, 2)
            g = mk(name, prog, "s", rng.choice(structs)["id"], [rng.randint(1, 4) for _ in range(nd)], big=big)
        else:
            g = mk(name, prog, "a", DINT, big=big)
        if rng.random() < 0.1:
            g["attr6"] &= ~BASE_TAG_BIT                 # an alias
        sc.tags.append(g)
    for tn, cnt in (sized or []):
        sc.tags.append(mk(namer.fresh("Big"), None, "a", ATOMS[tn][0], [cnt]))

    for g in sc.data_tags():
        sc.mem[g["inst"]] = rand_image(rng, sc, g)

    if policies:
        sc.policy["page"] = rng.choice([[], [1], [2, 5, 1], [rng.randint(1, 30)], [3, 0, 7]])
        sc.policy["frag"] = rng.choice([[], [1], [2], [7], [rng.randint(1, 600)], [100, 0, 33]])
        sc.policy["tmpl"] = rng.choice([[], [1], [2], [7], [rng.randint(1, 200)], [16, 0, 5]])
        sc.policy["arraybit"] = rng.choice([1, 1, 0])
        sc.cfg["rev_major"] = rng.choice([16, 17, 18, 19, 20, 21, 24, 30, 32, 35])
        sc.cfg["accept_large_fo"] = rng.choice([1, 1, 0])
    return sc


# ------------------------------------------------------------------ requests
def _idx(rng, dims):
    return "[" + ",".join(str(rng.randrange(d)) for d in dims) + "]"


def _descend(rng, sc, kind, code, arr_dims, path, depth, for_write=False):
    """extend `path` (a request string addressing a value of the given type / pending array dims)
    -> (request string, kind, code, count available, flags)"""
    total = 1
    for d in arr_dims:
        total *= d
    if arr_dims:
        if kind == "a" and code == DWORD:               # BOOL array
            nbits = 32 * total
            r = rng.random()
            if r < 0.4:
                return path + f"[{rng.randrange(nbits)}]", "bool", None, 0
            i = rng.randrange(nbits)
            if for_write:
                i -= i % 32
            n = rng.randint(1, nbits - i)
            if for_write:
                n = max(32, n - n % 32)
                if i + n > nbits:
                    n = nbits - i
            return path + f"[{i}]{{{n}}}", "bools", None, n
        r = rng.random()
        if r < 0.25:                                    # {n} from the start or from an index
            if rng.random() < 0.5 or len(arr_dims) > 1:
                n = rng.randint(1, total)
                return path + f"{{{n}}}", kind, code, n
            i = rng.randrange(total)
            n = rng.randint(1, total - i)
            return path + f"[{i}]{{{n}}}", kind, code, n
        path += _idx(rng, arr_dims)
    if kind == "s" and depth < 4 and rng.random() < 0.7:
        t = sc.template(code)
        if not sc.is_string(t):
            vis = [m for m in t["members"] if not m["hidden"]]
            if vis:
                m = rng.choice(vis)
                if m["kind"] == "a" and m["code"] == BOOL:
                    return path + "." + m["name"], "bool", None, 0
                return _descend(rng, sc, m["kind"], m["code"], [m["arr"]] if m["arr"] else [], path + "." + m["name"],
                                depth + 1, for_write)
    if kind == "a" and code in INTEGER and rng.random() < 0.25:
        return path + "." + str(rng.randrange(8 * CODE_SIZE[code])), "bool", None, 0
    return path, kind, code, 0


def gen_request(rng, sc, g=None, for_write=False):
    """a valid request string -> (string, kind, code, count)   kind in a|s|bool|bools; count 0 = single"""
    g = g or rng.choice([t for t in sc.data_tags() if not _hidden_tag(t)])
    if g["kind"] == "a" and g["code"] == BOOL:
        return sc.full_name(g), "bool", None, 0
    return _descend(rng, sc, g["kind"], g["code"], g["dims"], sc.full_name(g), 0, for_write)


def _hidden_tag(g):
    n = g["name"]
    return (g["system"] or g["kind"] == "o" or n.startswith(("Program:", "Routine:", "Task:", "__"))
            or "Map:" in n or "Cxn:" in n)


def gen_read_requests(rng, sc, n):
    return [gen_request(rng, sc)[0] for _ in range(n)]


def gen_invalid_requests(rng, sc, n):
    out = []
    tags = [t for t in sc.data_tags() if not _hidden_tag(t)]
    for _ in range(n):
        g = rng.choice(tags)
        name = sc.full_name(g)
        r = rng.random()
        if r < 0.25:
            out.append(("unknown-tag", "NoSuchTag%d" % rng.randint(0, 999)))
        elif r < 0.45 and g["kind"] == "s":
            out.append(("unknown-member", name + (_idx(rng, g["dims"]) if g["dims"] else "") + ".NoSuchMember"))
        elif r < 0.7 and g["dims"]:
            dims = list(g["dims"])
            k = rng.randrange(len(dims))
            idx = [rng.randrange(d) for d in dims]
            idx[k] = dims[k] + rng.randint(0, 3)
            if g["kind"] == "a" and g["code"] == DWORD:
                idx = [32 * dims[0] + rng.randint(0, 40)]
            out.append(("index-beyond", name + "[" + ",".join(map(str, idx)) + "]"))
        elif r < 0.9 and g["dims"]:
            total = 1
            for d in g["dims"]:
                total *= d
            if g["kind"] == "a" and g["code"] == DWORD:
                total *= 32
            out.append(("count-beyond", name + "{%d}" % (total + rng.randint(1, 5))))
        else:
            out.append(("unknown-tag", name + "_x"))
    return out


# ------------------------------------------------------------------ values (tagged, see refview.py)
def rand_value(rng, sc, kind, code, count=0):
    """a tagged value for a write of one element (count = 0) or a list of `count` elements"""
    if count:
        if kind == "bools":
            return ("L", [("b", rng.random() < 0.5) for _ in range(count)])
        return ("L", [rand_value(rng, sc, kind, code) for _ in range(count)])
    if kind in ("bool", "bools"):
        return ("b", rng.random() < 0.5)
    if kind == "a":
        if code in SIGNED:
            w = 8 * CODE_SIZE[code]
            return ("i", rng.choice([0, -1, 1, -(1 << (w - 1)), (1 << (w - 1)) - 1, rng.randrange(-(1 << (w - 1)), 1 << (w - 1))]))
        if code in UNSIGNED:
            w = 8 * CODE_SIZE[code]
            return ("i", rng.choice([0, 1, (1 << w) - 1, rng.randrange(1 << w)]))
        if code == REAL:
            import struct
            while True:
                bits = rng.choice([0, 0x3FC00000, 0xC0100000, 0x7F7FFFFF, 0x00000001, rng.randrange(1 << 32)])
                if (bits >> 23) & 0xFF != 0xFF:
                    return ("r", bits)
        if code == LREAL:
            while True:
                bits = rng.choice([0, 0x3FF8000000000000, rng.randrange(1 << 64)])
                if (bits >> 52) & 0x7FF != 0x7FF:
                    return ("l", bits)
        if code == DWORD:
            return ("L", [("b", rng.random() < 0.5) for _ in range(32)])
        raise ValueError(code)
    t = sc.template(code)
    if sc.is_string(t):
        cap = t["members"][1]["arr"]
        n = rng.choice([0, cap, rng.randint(0, cap)])
        return ("s", "".join(chr(rng.randint(32, 126)) for _ in range(n)))
    fields = []
    for m in t["members"]:
        if m["hidden"]:
            continue
        if m["kind"] == "a" and m["code"] == BOOL:
            fields.append((m["name"], ("b", rng.random() < 0.5)))
        elif m["arr"]:
            if m["kind"] == "a" and m["code"] == DWORD:
                fields.append((m["name"], ("L", [("b", rng.random() < 0.5) for _ in range(32 * m["arr"])])))
            else:
                fields.append((m["name"], ("L", [rand_value(rng, sc, m["kind"], m["code"]) for _ in range(m["arr"])])))
        else:
            fields.append((m["name"], rand_value(rng, sc, m["kind"], m["code"])))
    return ("S", fields)


def gen_write_requests(rng, sc, n, writable_only=True):
    out = []
    tags = [t for t in sc.data_tags() if not _hidden_tag(t)]
    for _ in range(n):
        g = rng.choice(tags)
        req, kind, code, count = gen_request(rng, sc, g, for_write=True)
        out.append((req, rand_value(rng, sc, kind, code, count)))
    return out
