(* Props/C13.v — replies are classified by their status words; bad replies cannot pass or crash.
   Statement + exact + Print Assumptions only.  Model: Model/Reply.v (what pycomm3 computes from the
   raw reply bytes); independent oracle: Spec/ReplyReader.v (the status words read from the wire
   layout); status tables, Services and MULTI_PACKET_SERVICES come from coq/Gen. *)
From PV Require Import Base.Bytes Base.Res Base.PyStr.
From PV Require Import Gen.Status.
From PV Require Import Model.Reply Spec.ReplyReader.
From PV Require Import Proofs.ReplyBase Proofs.ReplyValid Proofs.ReplyError Proofs.ReplyMulti Proofs.ReplyCalls Proofs.C13P.
Open Scope Z_scope.

(* 1. Classification — for ALL byte strings (so "too short to contain its status words is never
      success" is the -> direction): a connected reply is valid exactly when the encapsulation status
      is 0, the service byte carries the reply bit and the general status is 0, or 6 for the services
      that legitimately continue; an unconnected reply accepts status 0 only; session registration
      and plain responses: encapsulation status 0. *)
Definition C13_classification : Prop :=
  (forall raw, bytes_ok raw = true -> is_valid KUnit (parse_unit raw) = spec_success true unit_layout raw)
  /\ (forall raw, bytes_ok raw = true -> is_valid KRR (parse_rr raw) = spec_success false rr_layout raw)
  /\ (forall raw, bytes_ok raw = true -> is_valid KRegister (parse_register raw) = encap_zero raw)
  /\ (forall raw, bytes_ok raw = true -> is_valid KBase (parse_base raw) = encap_zero raw).

(* 2. Error text — every well-formed reply that is not a success (and the header-only
      encapsulation error) has a non-empty error text; when the encapsulation status is 0 the text
      names the CIP general status (table text or two-digit hex code) and the extended status the
      reply carries (1 or 2 words, any value) when the table has a text for it. *)
Definition C13_error_text : Prop :=
  (forall k raw, k = KUnit \/ k = KRR -> bytes_ok raw = true ->
     wf_cip_reply (layout_k k) raw = true -> spec_success (partial_k k) (layout_k k) raw = false ->
     exists t, error k (parse_k k raw) = ROk (Some t) /\ t <> []
       /\ (encap_status raw = Some 0 ->
           exists gs, byte_at (l_status (layout_k k)) raw = Some gs /\ gs <> 0
             /\ names_status service_status extend_codes gs (ext_value (ext_status (layout_k k) raw)) t = true))
  /\ (forall k raw, k = KUnit \/ k = KRR -> bytes_ok raw = true -> wf_header_only_error raw = true ->
        is_valid k (parse_k k raw) = false /\ exists t, error k (parse_k k raw) = ROk (Some t) /\ t <> []).

(* 3. Multi-service replies — the parse of a reply built from per-service replies gives them back,
      and each service reply is classified by its own status words. *)
Definition C13_multi : Prop :=
  (forall rs, rs <> [] -> multi_data_size rs < 65536 -> split_multi (Some (multi_data rs)) = ROk rs)
  /\ (forall hdr rs reqs, length hdr = 50%nat -> bytes_ok hdr = true -> (exists s, nth_error hdr 46 = Some s /\ 128 <= s) ->
        rs <> [] -> multi_data_size rs < 65536 -> bytes_ok (multi_data rs) = true ->
        exists r, parse_multi reqs (hdr ++ multi_data rs) = ROk (r, zip_sub rs reqs))
  /\ (forall v d, bytes_ok d = true -> is_valid KUnit (s_r (sub_response (SWrite v) d)) = sub_success d)
  /\ (forall dec d, bytes_ok d = true ->
        is_valid KUnit (s_r (sub_response (SRead dec) d)) = sub_success d && negb (is_err (parse_read_reply dec (skipn 4 d)))).

(* 4. The public calls on ARBITRARY reply bytes. *)
(* 4a. nothing but a library exception escapes *)
Definition C13_library_only (guard : call -> list bytes -> bool) : Prop :=
  forall c replies, bytes_list_ok replies -> guard c replies = false -> rm_is_library (run_call c replies) = true.
(* 4b. a truthy result is backed by status words that say success *)
Definition C13_success_backed (check_encap : bool) : Prop :=
  (forall c k raw rest t, one_request c = true -> reply_kind c = Some k -> bytes_ok raw = true ->
     run_call c (raw :: rest) = ROk (OTags [t]) -> tag_truthy t = true ->
     spec_success (partial_k k) (layout_k k) raw = true)
  /\ (forall v raw rest t, bytes_ok raw = true -> run_call (CWrite v) (raw :: rest) = ROk (OTags [t]) ->
        tag_truthy t = spec_success true unit_layout raw)
  /\ (forall k raw rest t, k = KUnit \/ k = KRR -> bytes_ok raw = true -> run_call (CGeneric k None) (raw :: rest) = ROk (OTags [t]) ->
        tag_truthy t = spec_success (partial_k k) (layout_k k) raw)
  /\ (forall reqs raw rest tags i t, bytes_ok raw = true -> run_call (CMulti reqs) (raw :: rest) = ROk (OTags tags) ->
        nth_error tags i = Some t -> tag_truthy t = true ->
        (exists w, multi_sub_words raw i = Some w /\ sub_words_ok w = true)
        /\ (check_encap = true -> multi_sub_success raw i = true))
  /\ (forall dec replies t, bytes_list_ok replies -> run_call (CReadFrag dec) replies = ROk (OTags [t]) -> tag_truthy t = true ->
        exists used rest, replies = used ++ rest /\ used <> [] /\ Forall (fun raw => spec_success true unit_layout raw = true) used)
  /\ (forall v n replies t, bytes_list_ok replies -> run_call (CWriteFrag v n) replies = ROk (OTags [t]) -> tag_truthy t = true ->
        (n <= length replies)%nat /\ Forall (fun raw => spec_success true unit_layout raw = true) (firstn n replies))
  /\ (forall replies, bytes_list_ok replies -> run_call COpen replies = ROk (OBool true) ->
        exists raw rest, replies = raw :: rest /\ encap_zero raw = true)
  /\ (forall f replies rest, bytes_list_ok replies -> with_forward_open f replies = ROk rest ->
        exists raw, In raw replies /\ spec_success false rr_layout raw = true).
(* 4c. a well-formed error reply (header-only encapsulation error included) gives falsy results
       with a non-empty error text — not an exception *)
Definition C13_wf_errors_falsy (guard : call -> bytes -> bool) : Prop :=
  forall c k raw rest, reply_kind c = Some k -> bytes_ok raw = true -> wf_error_for c k raw = true ->
    guard c raw = false -> all_falsy_with_text (run_call c (raw :: rest)).

Definition no_guard2 {A B} (_ : A) (_ : B) : bool := false.

Definition C13_full : Prop :=
  C13_classification /\ C13_error_text /\ C13_multi
  /\ C13_library_only no_guard2 /\ C13_success_backed true /\ C13_wf_errors_falsy no_guard2.

(* The faithful model FALSIFIES the full statement (DESIGN.md F11 and relatives): four concrete
   replies, each also replayed on the implementation (corpus/C13). *)
Theorem C13_full_refuted : ~ C13_full.
Proof.
  intros (_ & _ & _ & Hlib & _ & _).
  specialize (Hlib (CMulti two_reads) [w_count0]).
  rewrite wit_stopiteration in Hlib. cbn in Hlib.
  assert (H : false = true); [|discriminate H].
  apply Hlib; [|reflexivity]. constructor; [apply wit_ok|constructor].
Qed.
Print Assumptions C13_full_refuted.

(* each defect on its own *)
Theorem C13_refuted_stopiteration : ~ C13_library_only no_guard2.
Proof.
  intros H. specialize (H (CMulti two_reads) [w_count0]). rewrite wit_stopiteration in H. cbn in H.
  assert (Hf : false = true); [|discriminate Hf]. apply H; [|reflexivity]. constructor; [apply wit_ok|constructor].
Qed.
Theorem C13_refuted_typeerror :
  run_call (CReadFrag dint_dec) [w_hdr] = RErr (Foreign TypeError) none_not_subscriptable /\ wf_header_only_error w_hdr = true.
Proof. split; [exact wit_typeerror|reflexivity]. Qed.
Theorem C13_refuted_multi_error_reply : ~ C13_wf_errors_falsy no_guard2.
Proof.
  intros H. destruct wit_multi_toperr as [Hw Hr].
  destruct (H (CMulti two_reads) KUnit w_toperr [] eq_refl (proj1 (proj2 (proj2 wit_ok))) Hw eq_refl) as (tags & Ht & _).
  rewrite Hr in Ht. discriminate Ht.
Qed.
Theorem C13_refuted_encap_ignored : ~ C13_success_backed true.
Proof.
  intros (_ & _ & _ & H & _). destruct wit_encap_ignored as (Hr & Hs & _).
  destruct (H two_reads w_encap [] _ 0%nat _ (proj1 (proj2 (proj2 (proj2 wit_ok)))) Hr eq_refl eq_refl) as [_ Hbad].
  rewrite Hs in Hbad. discriminate (Hbad eq_refl).
Qed.
Print Assumptions C13_refuted_typeerror.
Print Assumptions C13_refuted_multi_error_reply.
Print Assumptions C13_refuted_encap_ignored.

(* The exact excluded input classes (computable):
   - call_guard (Proofs/ReplyCalls.v): a multi-service reply whose offset table is empty (reply count
     0 or the reply ends right after the count) -> StopIteration; a fragmented-read reply without
     the service/status bytes or without the reply bit (self.data is None) -> TypeError; (request
     side) a fragmented write of no segments -> IndexError.  call_guard_exact: on exactly these a
     foreign exception DOES escape.
   - C13_guard_wf: multi-service requests answered by an error reply without service data, and
     fragmented reads answered by a header-only encapsulation error, raise instead of giving
     falsy results.
   - the enclosing encapsulation status of a multi-service reply is not consulted: per-service
     results are backed by the per-service status words only. *)
Definition C13_guard : call -> list bytes -> bool := call_guard.
Definition C13_guard_wf (c : call) (raw : bytes) : bool :=
  match c with CMulti _ => true | CReadFrag _ => wf_header_only_error raw | _ => false end.

Definition C13_guarded_statement : Prop :=
  C13_classification /\ C13_error_text /\ C13_multi
  /\ C13_library_only C13_guard /\ C13_success_backed false /\ C13_wf_errors_falsy C13_guard_wf
  /\ (forall reqs raw rest tags i t, bytes_ok raw = true -> encap_status raw = Some 0 ->
        run_call (CMulti reqs) (raw :: rest) = ROk (OTags tags) -> nth_error tags i = Some t -> tag_truthy t = true ->
        multi_sub_success raw i = true).

Theorem C13_guarded : C13_guarded_statement.
Proof.
  split; [|split; [|split; [|split; [|split; [|split]]]]].
  - split; [exact unit_valid_iff|split; [exact rr_valid_iff|split; [exact register_valid_iff|exact base_valid_iff]]].
  - split; [exact error_text_k|exact header_only_error].
  - split; [exact multi_demux|split; [exact multi_demux_frame|split; [exact sub_response_write_iff|exact sub_response_read_iff]]].
  - exact library_only_guarded.
  - split; [exact success_one_request|].
    split; [intros v raw rest t Hok Hr; cbn [run_call] in Hr; apply one_reply_inv in Hr; exact (write_truthy_iff v raw t Hok Hr)|].
    split; [intros k raw rest t Hk Hok Hr; cbn [run_call] in Hr; apply one_reply_inv in Hr; exact (generic_raw_truthy_iff k raw t Hk Hok Hr)|].
    split; [intros reqs raw rest tags i t Hok Hr Hi Ht; split; [exact (success_multi reqs raw rest tags i t Hok Hr Hi Ht)|discriminate]|].
    split; [intros dec replies t Hok Hr Ht; cbn [run_call] in Hr; apply tag_out_inv in Hr; exact (read_frag_truthy dec replies t Hok Hr Ht)|].
    split; [intros v n replies t Hok Hr Ht; cbn [run_call] in Hr; apply tag_out_inv in Hr; exact (write_frag_truthy v n replies t Hok Hr Ht)|].
    split; [|exact with_forward_open_ok].
    intros replies Hok Hr. apply (open_true replies Hok). cbn [run_call] in Hr.
    destruct (open_call replies) as [b|]; [|discriminate Hr]. now injection Hr as ->.
  - exact wf_errors_guarded.
  - exact success_multi_encap.
Qed.
Print Assumptions C13_guarded.

Theorem C13_guard_exact : forall c replies, bytes_list_ok replies -> C13_guard c replies = true ->
  exists k m, run_call c replies = RErr (Foreign k) m.
Proof. exact call_guard_exact. Qed.
Print Assumptions C13_guard_exact.

(* non-vacuity: a Read Tag success, a Read Tag error with extended status, and a mixed multi-service
   reply go through the guarded statement's hypotheses with the expected results *)
Example C13_nonvacuous :
  C13_guard (CRead dint_dec) [w_read] = false
  /\ run_call (CRead dint_dec) [w_read] = ROk (OTags [{| t_value := Some (VInt 42); t_error := None |}])
  /\ spec_success true unit_layout w_read = true
  /\ wf_error_for (CRead dint_dec) KUnit w_err = true /\ C13_guard_wf (CRead dint_dec) w_err = false
  /\ (exists e, run_call (CRead dint_dec) [w_err] = ROk (OTags [{| t_value := None; t_error := Some e |}])
                /\ names_status service_status extend_codes 255 (Some 8453) e = true)
  /\ C13_guard (CMulti two_reads) [w_mixed] = false
  /\ (exists e, run_call (CMulti two_reads) [w_mixed]
                = ROk (OTags [{| t_value := Some (VInt 7); t_error := None |}; {| t_value := None; t_error := Some e |}])
                /\ names_status service_status extend_codes 5 (Some 0) e = true)
  /\ multi_sub_success w_mixed 0 = true /\ multi_sub_success w_mixed 1 = false.
Proof. vm_compute. repeat split; try reflexivity; eexists; split; reflexivity. Qed.
