(* Props/C13.v — replies are classified by their status words; bad replies cannot pass or crash.
   Statement + exact + Print Assumptions only.  Model: Model/Reply.v (what pycomm3 computes from the
   raw reply bytes); independent oracle: Spec/ReplyReader.v (the status words read from the wire
   layout); status tables, Services and MULTI_PACKET_SERVICES come from coq/Gen. *)
From PV Require Import Base.Bytes Base.Res Base.PyStr.
From PV Require Import Gen.Status.
From PV Require Import Model.Reply Spec.ReplyReader.
From PV Require Import Proofs.ReplyBase Proofs.ReplyValid Proofs.ReplyError Proofs.ReplyMulti Proofs.ReplySubErr Proofs.ReplyCalls Proofs.C13P.
Open Scope Z_scope.

(* 1. Classification — for ALL byte strings (so "too short to contain its status words is never
      success" is the -> direction): a connected reply is valid exactly when the encapsulation status
      is 0, the service byte carries the reply bit and the general status is 0, or 6 for the services
      that legitimately continue; an unconnected reply accepts status 0 only; session registration
      and plain responses: encapsulation status 0. *)
Definition C13_classification : Prop :=
  (forall raw, bytes_ok raw = true -> is_valid KUnit (parse_unit raw) = spec_success true unit_layout raw)
  /\ (forall raw, bytes_ok raw = true -> is_valid KRR (parse_rr raw) = spec_success false rr_layout raw)
  /\ (forall raw, bytes_ok raw = true -> is_valid KRegister (parse_register raw) = encap_zero raw)
  /\ (forall raw, bytes_ok raw = true -> is_valid KBase (parse_base raw) = encap_zero raw).

(* 2. Error text — every well-formed reply that is not a success (and the header-only
      encapsulation error) has a non-empty error text; when the encapsulation status is 0 the text
      names the CIP general status (table text or two-digit hex code) and the extended status the
      reply carries (1 or 2 words, any value) when the table has a text for it. *)
Definition C13_error_text : Prop :=
  (forall k raw, k = KUnit \/ k = KRR -> bytes_ok raw = true ->
     wf_cip_reply (layout_k k) raw = true -> spec_success (partial_k k) (layout_k k) raw = false ->
     exists t, error k (parse_k k raw) = ROk (Some t) /\ t <> []
       /\ (encap_status raw = Some 0 ->
           exists gs, byte_at (l_status (layout_k k)) raw = Some gs /\ gs <> 0
             /\ names_status service_status extend_codes gs (ext_value (ext_status (layout_k k) raw)) t = true))
  /\ (forall k raw, k = KUnit \/ k = KRR -> bytes_ok raw = true -> wf_header_only_error raw = true ->
        is_valid k (parse_k k raw) = false /\ exists t, error k (parse_k k raw) = ROk (Some t) /\ t <> []).

(* 3. Multi-service replies — the parse of a reply built from per-service replies gives them back,
      and each service reply is classified by its own status words. *)
Definition C13_multi : Prop :=
  (forall rs, rs <> [] -> multi_data_size rs < 65536 -> split_multi (multi_data rs) = ROk rs)
  /\ (forall hdr rs reqs, length hdr = 50%nat -> bytes_ok hdr = true -> u32_at 8 hdr = Some 0 ->
        (exists s, nth_error hdr 46 = Some s /\ 128 <= s) -> nth_error hdr 49 = Some 0 ->
        rs <> [] -> multi_data_size rs < 65536 -> bytes_ok (multi_data rs) = true ->
        parse_multi reqs (hdr ++ multi_data rs) = (parse_unit (hdr ++ multi_data rs), zip_sub rs reqs))
  /\ (forall v d, bytes_ok d = true -> is_valid KUnit (s_r (sub_response (SWrite v) d)) = sub_success d)
  /\ (forall dec d, bytes_ok d = true ->
        is_valid KUnit (s_r (sub_response (SRead dec) d)) = sub_success d && negb (is_err (parse_read_reply dec (skipn 4 d))))
  (* per-service errors: non-empty text naming the service's own status *)
  /\ (forall q d, bytes_ok d = true -> wf_sub_reply d = true -> sub_success d = false ->
        exists t, error KUnit (s_r (sub_response q d)) = ROk (Some t) /\ t <> []
          /\ exists gs, byte_at 2 d = Some gs /\ gs <> 0
               /\ names_status service_status extend_codes gs (ext_value (sub_ext_status d)) t = true).

(* 4. The public calls on ARBITRARY reply bytes. *)
(* 4a. nothing but a library exception escapes — any call, any replies, no side condition *)
Definition C13_library_only : Prop :=
  forall c replies, rm_is_library (run_call c replies) = true.
(* 4b. a truthy result is backed by status words that say success (for a service of a multi-service
       reply: its own words AND the enclosing encapsulation status) *)
Definition C13_success_backed : Prop :=
  (forall c k raw rest t, one_request c = true -> reply_kind c = Some k -> bytes_ok raw = true ->
     run_call c (raw :: rest) = ROk (OTags [t]) -> tag_truthy t = true ->
     spec_success (partial_k k) (layout_k k) raw = true)
  /\ (forall v raw rest t, bytes_ok raw = true -> run_call (CWrite v) (raw :: rest) = ROk (OTags [t]) ->
        tag_truthy t = spec_success true unit_layout raw)
  /\ (forall k raw rest t, k = KUnit \/ k = KRR -> bytes_ok raw = true -> run_call (CGeneric k None) (raw :: rest) = ROk (OTags [t]) ->
        tag_truthy t = spec_success (partial_k k) (layout_k k) raw)
  /\ (forall reqs raw rest tags i t, bytes_ok raw = true -> run_call (CMulti reqs) (raw :: rest) = ROk (OTags tags) ->
        nth_error tags i = Some t -> tag_truthy t = true -> multi_sub_success raw i = true)
  /\ (forall dec replies t, bytes_list_ok replies -> run_call (CReadFrag dec) replies = ROk (OTags [t]) -> tag_truthy t = true ->
        exists used rest, replies = used ++ rest /\ used <> [] /\ Forall (fun raw => spec_success true unit_layout raw = true) used)
  /\ (forall v n replies t, bytes_list_ok replies -> run_call (CWriteFrag v n) replies = ROk (OTags [t]) -> tag_truthy t = true ->
        (S n <= length replies)%nat /\ Forall (fun raw => spec_success true unit_layout raw = true) (firstn (S n) replies))
  /\ (forall replies, bytes_list_ok replies -> run_call COpen replies = ROk (OBool true) ->
        exists raw rest, replies = raw :: rest /\ encap_zero raw = true)
  /\ (forall f replies rest, bytes_list_ok replies -> with_forward_open f replies = ROk rest ->
        exists raw, In raw replies /\ spec_success false rr_layout raw = true).
(* 4c. a well-formed error reply (header-only encapsulation error included; for a multi-service
       request: an error reply without service data) gives falsy results with a non-empty error
       text — not an exception, not a success *)
Definition C13_wf_errors_falsy : Prop :=
  forall c k raw rest, reply_kind c = Some k -> bytes_ok raw = true -> wf_error_for c k raw = true ->
    all_falsy_with_text (run_call c (raw :: rest)).

Definition C13_full : Prop :=
  C13_classification /\ C13_error_text /\ C13_multi
  /\ C13_library_only /\ C13_success_backed /\ C13_wf_errors_falsy.

(* All of it holds, without a guard, on the code as it is now (after the fix commits aa378e8, 3c1cf16
   and 8164fd0; DESIGN.md F11 and relatives are gone). *)
Theorem C13_classification_holds : C13_classification.
Proof. split; [exact unit_valid_iff|split; [exact rr_valid_iff|split; [exact register_valid_iff|exact base_valid_iff]]]. Qed.
Theorem C13_error_text_holds : C13_error_text.
Proof. split; [exact error_text_k|exact header_only_error]. Qed.
Theorem C13_multi_holds : C13_multi.
Proof. split; [exact multi_demux|split; [exact multi_demux_frame|split; [exact sub_response_write_iff|split; [exact sub_response_read_iff|exact sub_error_text]]]]. Qed.
Theorem C13_library_only_holds : C13_library_only.
Proof. exact library_only. Qed.
Theorem C13_success_backed_holds : C13_success_backed.
Proof.
  split; [exact success_one_request|].
  split; [intros v raw rest t Hok Hr; cbn [run_call] in Hr; apply one_reply_inv in Hr; exact (write_truthy_iff v raw t Hok Hr)|].
  split; [intros k raw rest t Hk Hok Hr; cbn [run_call] in Hr; apply one_reply_inv in Hr; exact (generic_raw_truthy_iff k raw t Hk Hok Hr)|].
  split; [exact success_multi|].
  split; [intros dec replies t Hok Hr Ht; cbn [run_call] in Hr; apply tag_out_inv in Hr; exact (read_frag_truthy dec replies t Hok Hr Ht)|].
  split; [intros v n replies t Hok Hr Ht; cbn [run_call] in Hr; apply tag_out_inv in Hr; exact (write_frag_truthy v (S n) replies t Hok Hr Ht)|].
  split; [|exact with_forward_open_ok].
  intros replies Hok Hr. apply (open_true replies Hok). cbn [run_call] in Hr.
  destruct (open_call replies) as [b|]; [|discriminate Hr]. now injection Hr as ->.
Qed.
Print Assumptions C13_classification_holds.
Print Assumptions C13_error_text_holds.
Print Assumptions C13_multi_holds.
Print Assumptions C13_library_only_holds.
Print Assumptions C13_success_backed_holds.

Theorem C13_wf_errors_falsy_holds : C13_wf_errors_falsy.
Proof. exact wf_errors_falsy. Qed.
Print Assumptions C13_wf_errors_falsy_holds.

Theorem C13_holds : C13_full.
Proof.
  split; [exact C13_classification_holds|split; [exact C13_error_text_holds|split; [exact C13_multi_holds|]]].
  split; [exact C13_library_only_holds|split; [exact C13_success_backed_holds|exact C13_wf_errors_falsy_holds]].
Qed.
Print Assumptions C13_holds.

(* non-vacuity: a Read Tag success, a Read Tag error with extended status, a mixed multi-service
   reply, and the formerly failing replies go through the hypotheses with the expected results *)
Example C13_nonvacuous :
  run_call (CRead dint_dec) [w_read] = ROk (OTags [{| t_value := Some (VInt 42); t_error := None |}])
  /\ spec_success true unit_layout w_read = true
  /\ wf_error_for (CRead dint_dec) KUnit w_err = true
  /\ (exists e, run_call (CRead dint_dec) [w_err] = ROk (OTags [{| t_value := None; t_error := Some e |}])
                /\ names_status service_status extend_codes 255 (Some 8453) e = true)
  /\ (exists e, run_call (CMulti two_reads) [w_mixed]
                = ROk (OTags [{| t_value := Some (VInt 7); t_error := None |}; {| t_value := None; t_error := Some e |}])
                /\ names_status service_status extend_codes 5 (Some 0) e = true)
  /\ multi_sub_success w_mixed 0 = true /\ multi_sub_success w_mixed 1 = false
  /\ wf_error_for (CMulti two_reads) KUnit w_toperr = true
  /\ wf_error_for (CMulti two_reads) KUnit w_hdr = true
  /\ wf_error_for (CReadFrag dint_dec) KUnit w_hdr = true
  /\ wf_error_for (CMulti two_writes) KUnit w_ext2 = true.
Proof. vm_compute. repeat split; try reflexivity; eexists; split; reflexivity. Qed.

(* the formerly failing replies (corpus/C13), on the fixed code *)
Example C13_fixed_witnesses :
  run_call (CMulti two_reads) [w_count0]
  = ROk (OTags [{| t_value := None; t_error := Some no_reply_received |}; {| t_value := None; t_error := Some no_reply_received |}])
  /\ run_call (CReadFrag dint_dec) [w_hdr] = ROk (OTags [{| t_value := None; t_error := Some fragments_failed |}])
  /\ (exists e, run_call (CMulti two_reads) [w_toperr] = ROk (OTags [{| t_value := None; t_error := Some e |}; {| t_value := None; t_error := Some e |}])
                /\ names_status service_status extend_codes 8 None e = true)
  /\ (exists e, run_call (CMulti two_reads) [w_encap] = ROk (OTags [{| t_value := None; t_error := Some e |}; {| t_value := None; t_error := Some e |}]))
  /\ (exists e, run_call (CMulti two_writes) [w_ext2]
                = ROk (OTags [{| t_value := Some (VInt 1); t_error := Some e |}; {| t_value := Some (VInt 2); t_error := Some e |}])
                /\ names_status service_status extend_codes 5 None e = true).
Proof. split; [exact wit_fixed_count0|split; [exact wit_fixed_frag_hdr|split; [exact wit_fixed_toperr|split; [exact wit_fixed_encap|exact (proj2 wit_fixed_ext2)]]]]. Qed.
