(* Props/C16.v — device identities decode faithfully.
   Statement + exact + Print Assumptions only.  Model: Model/Identity.v (ListIdentityObject,
   ModuleIdentityObject, IPAddress, Revision, the reply packets, list_identity, get_module_info,
   get_plc_info, the response loop of discover).  Independent side: Spec/IdentitySpec.v (what a device
   puts on the wire for an [ident], field by field, and the [view_*] the statement demands).
   VENDORS / PRODUCT_TYPES / KEYSWITCH and the type declarations are Gen/Vendors.v, Gen/Status.v,
   Gen/Types.v, regenerated from /repo on every run. *)
From Coq Require Import String.
From PV Require Import Base.Bytes Base.Res Base.Proto Base.PyStr Model.Identity Spec.IdentitySpec.
From PV Require Import Spec.RegistrySpec.
From PV Require Import Proofs.IdentityHex Proofs.IdentityTables Proofs.IdentityP Proofs.IdentityRegistry.
From PV Require Gen.Vendors Gen.Status.
Open Scope Z_scope.

Definition C16_full : Prop :=
  (* EVERY identity a device may report: vendor / product type / product code 0..65535 (known or not),
     revisions 0..255, status word, serial 0..2^32-1, product name of any length 0..255 over Latin-1,
     IPv4 address, state; any echoed context, any session handle, any further attributes appended *)
  (forall i, fields_in_range i = true ->
     (* ListIdentity reply -> list_identity / _list_identity; the packet is a valid response *)
     (forall ctx, length ctx = 8%nat ->
        list_identity (spec_list_identity_reply ctx i) = Some (view_list i)
        /\ li_is_valid (ListIdentityResponsePacket (spec_list_identity_reply ctx i)) = true)
     (* Identity object in a SendRRData reply (fetched by UCMM or through Unconnected Send: same reply
        layout) -> get_module_info and get_plc_info (with the keyswitch text of the status bytes) *)
     /\ (forall ses ctx extra, length ctx = 8%nat ->
           get_module_info (spec_identity_object_reply ses ctx i extra) = Ok (view_module i)
           /\ get_plc_info (spec_identity_object_reply ses ctx i extra) = Ok (view_plc i))
     (* the two struct decoders themselves *)
     /\ (forall extra, ModuleIdentityObject_decode (spec_identity_object i ++ extra) = Ok (view_module i))
     /\ (forall len rest, ListIdentityObject_decode
                            (spec_u16le 12 ++ spec_u16le len ++ spec_list_identity_item i ++ rest) = Ok (view_list i)))
  (* the parsing used by discover: every answering device is reported, in order *)
  /\ (forall l : list (list Z * ident),
        Forall (fun p => length (fst p) = 8%nat /\ fields_in_range (snd p) = true) l ->
        broadcast_discover_responses (map (fun p => spec_list_identity_reply (fst p) (snd p)) l)
        = map (fun p => view_list (snd p)) l)
  (* what the view says about the serial: exactly 8 lower-case hex digits that read back as the
     number, and it is what Python's format(n, "08x") yields (all n < 2^32, by arithmetic) *)
  /\ (forall n, 0 <= n < 4294967296 ->
        length (hex8 n) = 8%nat /\ forallb lower_hex (hex8 n) = true /\ unhex (hex8 n) = Some n
        /\ fmt_08x n = hex8 n)
  (* ... and about the ids: the table's text, or "UNKNOWN" *)
  /\ (forall i, d_vendor (view_module i) = match tbl_find Gen.Vendors.vendors (i_vendor i) with Some n => n | None => zs_of_string "UNKNOWN"%string end
             /\ d_product_type (view_module i) = match tbl_find Gen.Status.product_types (i_product_type i) with Some n => n | None => zs_of_string "UNKNOWN"%string end)
  (* encoding an identity dictionary and decoding it again is the identity *)
  /\ (forall d, in_dom d = true ->
        exists b, ModuleIdentityObject_encode d = Ok b /\ ModuleIdentityObject_decode b = Ok d).

Theorem C16_holds : C16_full.
Proof.
  split; [exact identity_faithful_all|]. split; [exact discover_faithful|]. split; [exact serial_text_all|].
  split; [intros i; split; reflexivity|exact identity_encode_decode].
Qed.
Print Assumptions C16_holds.

(* ---- the documented registries (Spec/RegistrySpec.v: hand-maintained snapshot, NOT regenerated) are
   preserved by the tables of /repo: every documented vendor id / product type / keyswitch status pair
   still maps to its documented text.  spec ⊆ regenerated: additions are quiet; a deleted, renamed
   or renumbered entry breaks this obligation (and, through C16_holds, every decode path then shows it). *)
Theorem registry_preserved :
  (forall id name, In (id, name) spec_vendors -> tbl_find Gen.Vendors.vendors id = Some name)
  /\ (forall id name, In (id, name) spec_product_types -> tbl_find Gen.Status.product_types id = Some name)
  /\ (forall b0 sub b1 text, In (b0, sub) spec_keyswitch_table -> In (b1, text) sub -> spec_keyswitch b0 b1 = text)
  /\ (forall i, (forall name, In (i_vendor i, name) spec_vendors -> d_vendor (view_module i) = name)
             /\ (forall name, In (i_product_type i, name) spec_product_types -> d_product_type (view_module i) = name)).
Proof.
  split; [exact vendors_preserved|]. split; [exact product_types_preserved|].
  split; [exact keyswitch_preserved|exact registry_view].
Qed.
Print Assumptions registry_preserved.

Example registry_nonvacuous :
  (1000 <= length spec_vendors)%nat /\ (30 <= length spec_product_types)%nat
  /\ In (9876, zs_of_string "ODVA"%string) spec_vendors
  /\ In (1, zs_of_string "Rockwell Automation/Allen-Bradley"%string) spec_vendors.
Proof. exact spec_registry_inhabited. Qed.

(* non-vacuity: a ControlLogix-like identity (known vendor and product type, serial with leading zeros)
   is in range, its ListIdentity reply decodes to the expected dict, and that dict is in the encode domain *)
Definition ex_ident : ident :=
  {| i_vendor := 1; i_product_type := 14; i_product_code := 166; i_major := 32; i_minor := 11; i_status := 12384 (* 0x3060 *);
     i_serial := 12648430 (* 0x00C0FFEE *); i_name := zs_of_string "1756-L83E/B"%string; i_encap_version := 1; i_sin_family := 2;
     i_sin_port := 44818; i_ip := 3232235786 (* 192.168.1.10 *); i_state := 3 |}.
Example C16_nonvacuous :
  fields_in_range ex_ident = true
  /\ list_identity (spec_list_identity_reply (zs_of_string "_pycomm_"%string) ex_ident)
     = Some {| l_encap := 1; l_ip := zs_of_string "192.168.1.10"%string;
               l_id := {| d_vendor := zs_of_string "Rockwell Automation/Allen-Bradley"%string;
                          d_product_type := zs_of_string "Programmable Logic Controller"%string;
                          d_product_code := 166; d_major := 32; d_minor := 11; d_status := [96; 48];
                          d_serial := zs_of_string "00c0ffee"%string; d_product_name := zs_of_string "1756-L83E/B"%string |};
               l_state := 3 |}
  /\ p_keyswitch (view_plc ex_ident) = zs_of_string "REMOTE RUN"%string
  /\ in_dom (view_module ex_ident) = true
  /\ d_vendor (view_module {| i_vendor := 0; i_product_type := 65535; i_product_code := 0; i_major := 0; i_minor := 0;
                              i_status := 0; i_serial := 0; i_name := []; i_encap_version := 0; i_sin_family := 0;
                              i_sin_port := 0; i_ip := 0; i_state := 0 |}) = zs_of_string "UNKNOWN"%string.
Proof. vm_compute. repeat split. Qed.
