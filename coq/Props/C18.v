(* Props/C18.v — SLC addresses select the right file, element and bit; data round-trips.
   Statement + exact + Print Assumptions only.

   Model: Model/Slc.v (parse_tag, request bytes, reply parsing of pycomm3/slc_driver.py) over the
   regular expressions, the pattern method (fullmatch) and the PCCC tables regenerated into
   Gen/SlcTables.v, run by Model/Regex.v.
   Oracle: Spec/SlcTarget.v (address ADT, spellings, reference data table and PCCC target).
   File number / element 255 are covered (the 0xFF escape form of the address fields); digit runs
   of any length are covered by the rejection clause. *)
From Coq Require Import String.
From PV Require Import Base.Bytes Base.Res Base.PyStr Model.Regex Model.SlcVal Model.Slc Spec.SlcTarget.
From PV Require Import Proofs.RegexP Proofs.SlcParseP Proofs.SlcAddrP Proofs.SlcTargetP Proofs.SlcReqP.
Open Scope Z_scope.

Definition C18_full : Prop :=
  (* parse_addr: every well-formed address, in every spelling (word form, /b, Bf/n, {count}, letter
     case, leading zeros, optional I/O file number and word), parses to exactly its fields;
     for Bf/n: element = n / 16, bit = n mod 16 (render spells n = 16 * element + bit) *)
  (forall sp a, wf_addr a = true -> wf_spelling sp a = true ->
     exists name, parse_tag (render sp a) = PTag (addr_tag a name))
  (* request_addresses_exactly: the PCCC command of a read / write, read by the target's own parser,
     names the file number, file type, element and sub-element of the address, size = element
     size x count; a write carries mask 2^bit / 0xFFFF and exactly the words of the value *)
  /\ (forall c sp a tns, cfg_ok c -> wf_addr a = true -> wf_spelling sp a = true -> 0 <= tns < 65536 ->
        exists t req cmd, read_tag_request c tns (render sp a) = RqOk (t, req)
          /\ target_view req = Some cmd /\ cmd_names cmd c a 162 tns /\ pc_rest cmd = [])
  /\ (forall c sp a tns v dws, cfg_ok c -> wf_addr a = true -> wf_spelling sp a = true -> is_tc (a_ft a) = false ->
        0 <= tns < 65536 -> wwords a v = Some dws ->
        exists t req cmd, write_tag_request c tns (render sp a) v = RqOk (t, req)
          /\ target_view req = Some cmd /\ cmd_names cmd c a 171 tns
          /\ pc_rest cmd = le16 (wmask a) ++ words_to_bytes dws)
  (* a read returns what the reference interpretation of the address finds in the data table,
     for every prior table; the table is not changed *)
  /\ (forall c tbl sp a v tns pre, cfg_ok c -> table_ok tbl = true -> wf_addr a = true -> wf_spelling sp a = true ->
        0 <= tns < 65536 -> length pre = 46%nat -> ref_read tbl a = Some v ->
        exists t req rep, read_tag_request c tns (render sp a) = RqOk (t, req)
          /\ exec_mr tbl req = (tbl, rep) /\ ok_tag (read_tag_finish t (pre ++ rep)) v)
  (* write_then_read: after the write request the target's table IS the reference write; a read of
     the same address then returns the written value (a boolean for a bit) *)
  /\ (forall c tbl sp a v tns tns' pre pre' tbl', cfg_ok c -> table_ok tbl = true -> wf_addr a = true ->
        wf_spelling sp a = true -> is_tc (a_ft a) = false ->
        0 <= tns < 65536 -> 0 <= tns' < 65536 -> length pre = 46%nat -> length pre' = 46%nat ->
        ref_write tbl a v = Some tbl' ->
        exists t wreq wrep rreq rrep,
          write_tag_request c tns (render sp a) v = RqOk (t, wreq)
          /\ exec_mr tbl wreq = (tbl', wrep) /\ ok_tag (write_tag_finish t v (pre ++ wrep)) v
          /\ read_tag_request c tns' (render sp a) = RqOk (t, rreq)
          /\ exec_mr tbl' rreq = (tbl', rrep) /\ ok_tag (read_tag_finish t (pre' ++ rrep)) (norm a v))
  (* frame: the reference write leaves every other file alone and, in the addressed file, every
     word outside the addressed [count] consecutive elements; a bit write changes one bit *)
  /\ (forall tbl a v tbl', ref_write tbl a v = Some tbl' ->
        exists f f' i k,
          file_for tbl a = Some f /\ find_file tbl' (a_file a) = Some f' /\ same_but tbl tbl' (a_file a)
          /\ df_ft f' = df_ft f /\ df_ew f' = df_ew f /\ length (df_words f') = length (df_words f)
          /\ i = Z.to_nat (word_index f (a_elem a) (a_sub a))
          /\ k = (match a_bit a with Some _ => 1 | None => Z.to_nat (vwords (a_ft a) * a_count a) end)%nat
          /\ (i + k <= length (df_words f))%nat
          /\ (forall j, (j < i \/ i + k <= j)%nat -> nth j (df_words f') 0 = nth j (df_words f) 0)
          /\ (forall b, a_bit a = Some b -> forall j, 0 <= j -> j <> b ->
                Z.testbit (nth i (df_words f') 0) j = Z.testbit (nth i (df_words f) 0) j))
  (* reject: an address of the grammar's form (digit runs of ANY length) with a file, element or
     bit number outside the ranges (an I/O file number above 255 included), or with an unsupported
     file letter, does not parse ... *)
  /\ (forall r, raw_form r = true -> spec_in_range r = false -> parse_tag (render_raw r) = PNone)
  /\ (forall ch rest, ~ In (lower_c ch) supported_lower -> Forall body_char rest -> parse_tag (ch :: rest) = PNone)
  (* ... and read() / write() turn that into RequestError before anything is sent *)
  /\ (forall c tns s v, parse_tag s = PNone ->
        read_tag_request c tns s = RqErr RequestError /\ write_tag_request c tns s v = RqErr RequestError).


Theorem C18_holds : C18_full.
Proof.
  unfold C18_full.
  split; [exact parse_addr|].
  split; [intros c sp a tns Hc Hwf Hsp Ht; apply request_names_read; assumption|].
  split; [intros c sp a tns v dws Hc Hwf Hsp Htc Ht Hw; apply request_names_write; assumption|].
  split; [intros c tbl sp a v tns pre Hc Ht Hwf Hsp Htns Hp Hr; apply read_correct; assumption|].
  split; [intros c tbl sp a v tns tns' pre pre' tbl' Hc Ht Hwf Hsp Htc Htns Htns' Hp Hp' Hw;
          apply write_then_read; assumption|].
  split; [exact ref_write_frame|].
  split; [intros r Hf Hr; destruct (longer 3 (r_file r)) eqn:Elf;
          [apply reject_long_file; assumption
          |destruct (overlong_field r) eqn:Eo;
           [apply reject_overlong; assumption
           |apply reject_in_limits; [split; [exact Hf|unfold overlong; rewrite Elf, Eo; reflexivity]|exact Hr]]]|].
  split; [exact reject_letter|].
  intros c tns s v H. apply none_is_request_error. exact H.
Qed.
Print Assumptions C18_holds.

(* the addresses of the three repaired defects, on the model *)
Definition sp_plain : spelling :=
  {| sp_lower := false; sp_mn_lower := []; sp_pad_file := 0; sp_pad_elem := 0; sp_pad_sub := 0; sp_pad_bit := 0;
     sp_pad_count := 0; sp_flat_bit := false; sp_io_file := false; sp_io_word := false; sp_count1 := false |}.
Definition cfg0 : cfg := {| c_vid := [9; 16]; c_vsn := [9; 16; 25; 113] |}.
Example C18_repaired :
  parse_tag [78; 55; 58; 49; 48; 48; 48] = PNone                      (* N7:1000 *)
  /\ parse_tag [78; 55; 58; 48; 47; 49; 48; 48] = PNone               (* N7:0/100 *)
  /\ parse_tag [73; 50; 53; 54; 58; 48] = PNone                       (* I256:0 *)
  /\ parse_tag [120; 78; 55; 58; 48] = PNone                          (* xN7:0 *)
  /\ (exists t, read_tag_request cfg0 1 [78; 55; 58; 50; 53; 53] =    (* N7:255: element FF FF 00 *)
        RqOk (t, [75; 2; 32; 103; 36; 1; 7; 9; 16; 9; 16; 25; 113; 15; 0; 1; 0; 162; 2; 7; 137; 255; 255; 0; 0])).
Proof. repeat split; try (vm_compute; reflexivity). eexists. vm_compute. reflexivity. Qed.

(* non-vacuity: B3/17 (spelled "b003/017") addresses word 1, bit 1: the model's write request,
   executed by the target on a concrete table, sets exactly that bit; the read returns True *)
Definition ex_addr : addr := {| a_ft := FB; a_file := 3; a_elem := 1; a_sub := 0; a_bit := Some 1; a_count := 1 |}.
Definition ex_sp : spelling :=
  {| sp_lower := true; sp_mn_lower := []; sp_pad_file := 3; sp_pad_elem := 0; sp_pad_sub := 0; sp_pad_bit := 3;
     sp_pad_count := 0; sp_flat_bit := true; sp_io_file := false; sp_io_word := false; sp_count1 := false |}.
Definition ex_table : table :=
  [{| df_num := 7; df_ft := FN; df_ew := 1; df_words := [1; 2; 3] |};
   {| df_num := 3; df_ft := FB; df_ew := 1; df_words := [65535; 4; 0] |}].
Example C18_nonvacuous :
  wf_addr ex_addr = true /\ wf_spelling ex_sp ex_addr = true
  /\ render ex_sp ex_addr = [98; 48; 48; 51; 47; 48; 49; 55]
  /\ table_ok ex_table = true /\ cfg_ok cfg0
  /\ ref_write ex_table ex_addr (VInt 1) =
       Some [{| df_num := 7; df_ft := FN; df_ew := 1; df_words := [1; 2; 3] |};
             {| df_num := 3; df_ft := FB; df_ew := 1; df_words := [65535; 6; 0] |}]
  /\ (exists t req, write_tag_request cfg0 5 (render ex_sp ex_addr) (VInt 1) = RqOk (t, req)
        /\ fst (exec_mr ex_table req) =
             [{| df_num := 7; df_ft := FN; df_ew := 1; df_words := [1; 2; 3] |};
              {| df_num := 3; df_ft := FB; df_ew := 1; df_words := [65535; 6; 0] |}])
  /\ (exists t req, read_tag_request cfg0 6 (render ex_sp ex_addr) = RqOk (t, req)
        /\ tr_value (read_tag_finish t (repeat 0 46 ++ snd (exec_mr ex_table req))) = Some (VBool false)
        /\ ref_read ex_table ex_addr = Some (VBool false)).
Proof.
  repeat split; try (vm_compute; reflexivity).
  - exists 9, 16, 9, 16, 25, 113. split; reflexivity.
  - eexists. eexists. split; vm_compute; reflexivity.
  - eexists. eexists. split; [vm_compute; reflexivity|]. split; vm_compute; reflexivity.
Qed.

(* ==================================================================================================
   Extension: the data-file directory and the processor type (get_file_directory, _parse_file0,
   _read_whole_file_directory, _get_sys0_info).  Model: Model/SlcDir.v.  Oracle: Spec/SlcDirSpec.v
   (the file-0 image of a directory, written from the layout: header of the family's length, one
   row per file number = type code, 16-bit length, uninterpreted rest; 0x81 = unused number).
   ================================================================================================== *)
From PV Require Import Model.SlcDir Spec.SlcDirSpec Proofs.SlcDirP Proofs.SlcDirReadP.

(* round trip: for every catalog string (hence every family), every header of the family's length
   and every list of files with strictly increasing numbers >= 0, element counts >= 0 and lengths
   (elements x element size) below 65536, _parse_file0 returns exactly that directory: name =
   type letters + decimal number, elements, length, in file-number order.  Row level (any position
   >= 53 and any row size): reserved rows (0x81) take a file number, rows whose type byte is any
   other byte outside the type table are skipped WITHOUT taking a number. *)
Definition C18_dir_roundtrip_full : Prop :=
  (forall cat hdr fs,
     length hdr = fam_position (family_of_catalog cat) -> wf_files 0 fs ->
     parse_file0 (get_sys0_info cat) (encode_dir (family_of_catalog cat) hdr fs) = DOk (map conv (dir_view fs)))
  /\ (forall pos rs hdr rows,
        length hdr = pos -> (53 <= pos)%nat -> Forall (wf_row rs) rows ->
        parse_file0_at pos rs (encode_rows hdr rows) = DOk (map conv (number_rows 0 rows))).

Theorem C18_dir_roundtrip : C18_dir_roundtrip_full.
Proof. exact dir_roundtrip_all. Qed.
Print Assumptions C18_dir_roundtrip.

Definition ex_files : list dfile :=
  [{| d_type := TO; d_num := 0; d_elements := 1 |}; {| d_type := TI; d_num := 1; d_elements := 2 |};
   {| d_type := TS; d_num := 2; d_elements := 83 |}; {| d_type := TB; d_num := 3; d_elements := 1 |};
   {| d_type := TT; d_num := 4; d_elements := 40 |}; {| d_type := TN; d_num := 7; d_elements := 32767 |};
   {| d_type := TST; d_num := 12; d_elements := 780 |}; {| d_type := TPLS; d_num := 255; d_elements := 0 |}].
Definition ex_cat : list Z := [49; 55; 54; 54; 45; 76; 51; 50].      (* 1766-L32 *)
Example C18_dir_nonvacuous :
  wf_files 0 ex_files /\ length (zeros 233) = fam_position (family_of_catalog ex_cat)
  /\ length (encode_dir (family_of_catalog ex_cat) (zeros 233) ex_files) = 2793%nat
  /\ parse_file0 (get_sys0_info ex_cat) (encode_dir (family_of_catalog ex_cat) (zeros 233) ex_files)
     = DOk [([79; 48], {| fe_elements := 1; fe_length := 2 |}); ([73; 49], {| fe_elements := 2; fe_length := 4 |});
            ([83; 50], {| fe_elements := 83; fe_length := 166 |}); ([66; 51], {| fe_elements := 1; fe_length := 2 |});
            ([84; 52], {| fe_elements := 40; fe_length := 240 |}); ([78; 55], {| fe_elements := 32767; fe_length := 65534 |});
            ([83; 84; 49; 50], {| fe_elements := 780; fe_length := 65520 |});
            ([80; 76; 83; 50; 53; 53], {| fe_elements := 0; fe_length := 0 |})]
  /\ Forall (wf_row 10) [RForeign 34 (zeros 9); RFile TN 5 (zeros 7); RForeign 0 (zeros 9); RReserved (zeros 9); RFile TF 2 (zeros 7)]
  /\ parse_file0_at 79 10 (encode_rows (zeros 79) [RForeign 34 (zeros 9); RFile TN 5 (zeros 7); RForeign 0 (zeros 9); RReserved (zeros 9); RFile TF 2 (zeros 7)])
     = DOk [([78; 48], {| fe_elements := 5; fe_length := 10 |}); ([70; 50], {| fe_elements := 2; fe_length := 8 |})].
Proof.
  split; [cbn; lia|]. split; [reflexivity|]. split; [vm_compute; reflexivity|]. split; [vm_compute; reflexivity|].
  split; [|vm_compute; reflexivity].
  repeat (constructor; [unfold wf_row, RESERVED_CODE; repeat split; try (vm_compute; reflexivity); try lia|]).
  constructor.
Qed.

(* the reads of _read_whole_file_directory tile the image: for every image, every size within it,
   every even chunk size that fits the one-byte size field (the code's is 0x50) the reads are
   contiguous in word offsets from 0 to the size, none is empty, and the data returned (= the
   concatenation of what the controller served) is the first [size] bytes of the image *)
Definition C18_dir_reads_tile_full : Prop :=
  (forall image chunk (sz : nat) fuel,
     0 < chunk <= 255 -> chunk mod 2 = 0 -> (sz <= length image)%nat -> Z.of_nat sz < 131072 -> (sz < fuel)%nat ->
     exists reads,
       read_loop fuel chunk (Z.of_nat sz) (serve_image image) [] 0 [] = ROk (firstn sz image) reads
       /\ tiles 0 reads (Z.of_nat sz)
       /\ served image reads = firstn sz image)
  /\ (forall image (sz : nat),
        (sz <= length image)%nat -> Z.of_nat sz < 131072 ->
        exists reads,
          read_whole_file_directory (S sz) (Z.of_nat sz) (serve_image image) = ROk (firstn sz image) reads
          /\ tiles 0 reads (Z.of_nat sz) /\ served image reads = firstn sz image).

Theorem C18_dir_reads_tile : C18_dir_reads_tile_full.
Proof. exact dir_reads_tile_all. Qed.
Print Assumptions C18_dir_reads_tile.

Example C18_dir_reads_nonvacuous :
  read_whole_file_directory 202 201 (serve_image (map Z.of_nat (seq 0 201)))
    = ROk (map Z.of_nat (seq 0 201)) [(80, 0); (80, 40); (41, 80)]
  /\ tiles 0 [(80, 0); (80, 40); (41, 80)] 201
  (* an odd chunk would NOT tile: offsets count words *)
  /\ read_loop 10 3 6 (serve_image [1; 2; 3; 4; 5; 6]) [] 0 [] = ROk [1; 2; 3; 3; 4; 5] [(3, 0); (3, 1)].
Proof. split; [vm_compute; reflexivity|]. split; [cbn; lia|vm_compute; reflexivity]. Qed.
