(* Props/C18.v — SLC addresses select the right file, element and bit; data round-trips.
   Statement + exact + Print Assumptions only.

   Model: Model/Slc.v (parse_tag, request bytes, reply parsing of pycomm3/slc_driver.py) over the
   regular expressions and PCCC tables regenerated into Gen/SlcTables.v, run by Model/Regex.v.
   Oracle: Spec/SlcTarget.v (address ADT, spellings, reference data table and PCCC target).

   [C18_stmt ga gr] is the property with two exclusion predicates; [C18_full] excludes nothing.
   The faithful model falsifies [C18_full] (three witnesses below); [C18_guarded] is the same
   statement outside [C18_guard_addr] (file number or element 255: emitted as the PCCC 0xFF escape
   byte) and [C18_guard_raw] (a digit run longer than the grammar allows: silently truncated by the
   `search`-applied patterns; an I/O file number above 255: matched and ignored). *)
From Coq Require Import String.
From PV Require Import Base.Bytes Base.Res Base.PyStr Model.Regex Model.SlcVal Model.Slc Spec.SlcTarget.
From PV Require Import Proofs.RegexP Proofs.SlcParseP Proofs.SlcAddrP Proofs.SlcTargetP Proofs.SlcReqP.
Open Scope Z_scope.

Definition C18_stmt (ga : addr -> bool) (gr : raw -> bool) : Prop :=
  (* parse_addr: every well-formed address, in every spelling (word form, /b, Bf/n, {count}, letter
     case, leading zeros, optional I/O file number and word), parses to exactly its fields;
     for Bf/n: element = n / 16, bit = n mod 16 (render spells n = 16 * element + bit) *)
  (forall sp a, wf_addr a = true -> wf_spelling sp a = true ->
     exists name, parse_tag (render sp a) = PTag (addr_tag a name))
  (* request_addresses_exactly: the PCCC command of a read / write, read by the target's own parser,
     names the file number, file type, element and sub-element of the address, size = element
     size x count; a write carries mask 2^bit / 0xFFFF and exactly the words of the value *)
  /\ (forall c sp a tns, cfg_ok c -> wf_addr a = true -> wf_spelling sp a = true -> ga a = false -> 0 <= tns < 65536 ->
        exists t req cmd, read_tag_request c tns (render sp a) = RqOk (t, req)
          /\ target_view req = Some cmd /\ cmd_names cmd c a 162 tns /\ pc_rest cmd = [])
  /\ (forall c sp a tns v dws, cfg_ok c -> wf_addr a = true -> wf_spelling sp a = true -> is_tc (a_ft a) = false ->
        ga a = false -> 0 <= tns < 65536 -> wwords a v = Some dws ->
        exists t req cmd, write_tag_request c tns (render sp a) v = RqOk (t, req)
          /\ target_view req = Some cmd /\ cmd_names cmd c a 171 tns
          /\ pc_rest cmd = le16 (wmask a) ++ words_to_bytes dws)
  (* a read returns what the reference interpretation of the address finds in the data table,
     for every prior table; the table is not changed *)
  /\ (forall c tbl sp a v tns pre, cfg_ok c -> table_ok tbl = true -> wf_addr a = true -> wf_spelling sp a = true ->
        ga a = false -> 0 <= tns < 65536 -> length pre = 46%nat -> ref_read tbl a = Some v ->
        exists t req rep, read_tag_request c tns (render sp a) = RqOk (t, req)
          /\ exec_mr tbl req = (tbl, rep) /\ ok_tag (read_tag_finish t (pre ++ rep)) v)
  (* write_then_read: after the write request the target's table IS the reference write; a read of
     the same address then returns the written value (a boolean for a bit) *)
  /\ (forall c tbl sp a v tns tns' pre pre' tbl', cfg_ok c -> table_ok tbl = true -> wf_addr a = true ->
        wf_spelling sp a = true -> is_tc (a_ft a) = false -> ga a = false ->
        0 <= tns < 65536 -> 0 <= tns' < 65536 -> length pre = 46%nat -> length pre' = 46%nat ->
        ref_write tbl a v = Some tbl' ->
        exists t wreq wrep rreq rrep,
          write_tag_request c tns (render sp a) v = RqOk (t, wreq)
          /\ exec_mr tbl wreq = (tbl', wrep) /\ ok_tag (write_tag_finish t v (pre ++ wrep)) v
          /\ read_tag_request c tns' (render sp a) = RqOk (t, rreq)
          /\ exec_mr tbl' rreq = (tbl', rrep) /\ ok_tag (read_tag_finish t (pre' ++ rrep)) (norm a v))
  (* frame: the reference write leaves every other file alone and, in the addressed file, every
     word outside the addressed [count] consecutive elements; a bit write changes one bit *)
  /\ (forall tbl a v tbl', ref_write tbl a v = Some tbl' ->
        exists f f' i k,
          file_for tbl a = Some f /\ find_file tbl' (a_file a) = Some f' /\ same_but tbl tbl' (a_file a)
          /\ df_ft f' = df_ft f /\ df_ew f' = df_ew f /\ length (df_words f') = length (df_words f)
          /\ i = Z.to_nat (word_index f (a_elem a) (a_sub a))
          /\ k = (match a_bit a with Some _ => 1 | None => Z.to_nat (vwords (a_ft a) * a_count a) end)%nat
          /\ (i + k <= length (df_words f))%nat
          /\ (forall j, (j < i \/ i + k <= j)%nat -> nth j (df_words f') 0 = nth j (df_words f) 0)
          /\ (forall b, a_bit a = Some b -> forall j, 0 <= j -> j <> b ->
                Z.testbit (nth i (df_words f') 0) j = Z.testbit (nth i (df_words f) 0) j))
  (* reject: an address of the grammar's form (digit runs of any length) with a file, element or
     bit number outside the ranges, or with an unsupported file letter, does not parse ... *)
  /\ (forall r, raw_form r = true -> gr r = false -> spec_in_range r = false -> parse_tag (render_raw r) = PNone)
  /\ (forall ch rest, ~ In (lower_c ch) supported_lower -> Forall body_char rest -> parse_tag (ch :: rest) = PNone)
  (* ... and read() / write() turn that into RequestError before anything is sent *)
  /\ (forall c tns s v, parse_tag s = PNone ->
        read_tag_request c tns s = RqErr RequestError /\ write_tag_request c tns s v = RqErr RequestError).

Definition C18_full : Prop := C18_stmt (fun _ => false) (fun _ => false).

(* ---- the excluded classes *)
Definition C18_guard_addr (a : addr) : bool := (a_file a =? 255) || (a_elem a =? 255).
Definition C18_guard_raw (r : raw) : bool := overlong r || io_file_out r.

(* N7:1000 — element 1000 is out of range, the address is accepted as N7:100 *)
Definition w_overlong : raw :=
  {| r_ft := FN; r_lower := false; r_file := Some [55]; r_elem := [49; 48; 48; 48]; r_sub := None;
     r_bit := None; r_count := None; r_flat := false; r_mn := [] |}.
(* I256:0 — the file number is matched and ignored *)
Definition w_io_file : raw :=
  {| r_ft := FI; r_lower := false; r_file := Some [50; 53; 54]; r_elem := [48]; r_sub := None;
     r_bit := None; r_count := None; r_flat := false; r_mn := [] |}.
(* N7:255 — the element byte 0xFF is the escape to a two-byte field: the target cannot read the command *)
Definition w_255 : addr := {| a_ft := FN; a_file := 7; a_elem := 255; a_sub := 0; a_bit := None; a_count := 1 |}.
Definition sp_plain : spelling :=
  {| sp_lower := false; sp_mn_lower := []; sp_pad_file := 0; sp_pad_elem := 0; sp_pad_sub := 0; sp_pad_bit := 0;
     sp_pad_count := 0; sp_flat_bit := false; sp_io_file := false; sp_io_word := false; sp_count1 := false |}.
Definition cfg0 : cfg := {| c_vid := [9; 16]; c_vsn := [9; 16; 25; 113] |}.

Lemma C18_witness_overlong :
  raw_form w_overlong = true /\ spec_in_range w_overlong = false /\ parse_tag (render_raw w_overlong) <> PNone.
Proof. repeat split; vm_compute; congruence. Qed.

Lemma C18_witness_io_file :
  raw_form w_io_file = true /\ spec_in_range w_io_file = false /\ parse_tag (render_raw w_io_file) <> PNone.
Proof. repeat split; vm_compute; congruence. Qed.

Lemma C18_witness_255 :
  wf_addr w_255 = true /\ wf_spelling sp_plain w_255 = true /\
  forall t req, read_tag_request cfg0 1 (render sp_plain w_255) = RqOk (t, req) -> target_view req = None.
Proof.
  repeat split; try reflexivity. intros t req H. vm_compute in H. inversion H; subst. reflexivity.
Qed.

Theorem C18_full_refuted : ~ C18_full.
Proof.
  intros (_ & _ & _ & _ & _ & _ & Hrej & _).
  destruct C18_witness_overlong as (F & R & N). apply N. apply Hrej; [exact F|reflexivity|exact R].
Qed.
Print Assumptions C18_full_refuted.

Lemma guard_addr_false a : C18_guard_addr a = false -> a_file a <> 255 /\ a_elem a <> 255.
Proof. unfold C18_guard_addr. intros H. apply orb_false_iff in H. destruct H as [H1 H2]. split; apply Z.eqb_neq; assumption. Qed.

Theorem C18_guarded : C18_stmt C18_guard_addr C18_guard_raw.
Proof.
  unfold C18_stmt.
  split; [exact parse_addr|].
  split; [intros c sp a tns Hc Hwf Hsp Hg Ht; destruct (guard_addr_false a Hg); apply request_names_read; assumption|].
  split; [intros c sp a tns v dws Hc Hwf Hsp Htc Hg Ht Hw; destruct (guard_addr_false a Hg); apply request_names_write; assumption|].
  split; [intros c tbl sp a v tns pre Hc Ht Hwf Hsp Hg Htns Hp Hr; destruct (guard_addr_false a Hg); apply read_correct; assumption|].
  split; [intros c tbl sp a v tns tns' pre pre' tbl' Hc Ht Hwf Hsp Htc Hg Htns Htns' Hp Hp' Hw;
          destruct (guard_addr_false a Hg); apply write_then_read; assumption|].
  split; [exact ref_write_frame|].
  split; [intros r Hf Hg Hr; unfold C18_guard_raw in Hg; apply orb_false_iff in Hg; destruct Hg as [Ho Hio];
          apply reject_in_limits; [split; assumption|exact Hr|exact Hio]|].
  split; [exact reject_letter|].
  intros c tns s v H. apply none_is_request_error. exact H.
Qed.
Print Assumptions C18_guarded.

(* non-vacuity: B3/17 (spelled "b003/017") addresses word 1, bit 1: the model's write request,
   executed by the target on a concrete table, sets exactly that bit; the read returns True *)
Definition ex_addr : addr := {| a_ft := FB; a_file := 3; a_elem := 1; a_sub := 0; a_bit := Some 1; a_count := 1 |}.
Definition ex_sp : spelling :=
  {| sp_lower := true; sp_mn_lower := []; sp_pad_file := 3; sp_pad_elem := 0; sp_pad_sub := 0; sp_pad_bit := 3;
     sp_pad_count := 0; sp_flat_bit := true; sp_io_file := false; sp_io_word := false; sp_count1 := false |}.
Definition ex_table : table :=
  [{| df_num := 7; df_ft := FN; df_ew := 1; df_words := [1; 2; 3] |};
   {| df_num := 3; df_ft := FB; df_ew := 1; df_words := [65535; 4; 0] |}].
Example C18_nonvacuous :
  wf_addr ex_addr = true /\ wf_spelling ex_sp ex_addr = true /\ C18_guard_addr ex_addr = false
  /\ render ex_sp ex_addr = [98; 48; 48; 51; 47; 48; 49; 55]
  /\ table_ok ex_table = true /\ cfg_ok cfg0
  /\ ref_write ex_table ex_addr (VInt 1) =
       Some [{| df_num := 7; df_ft := FN; df_ew := 1; df_words := [1; 2; 3] |};
             {| df_num := 3; df_ft := FB; df_ew := 1; df_words := [65535; 6; 0] |}]
  /\ (exists t req, write_tag_request cfg0 5 (render ex_sp ex_addr) (VInt 1) = RqOk (t, req)
        /\ fst (exec_mr ex_table req) =
             [{| df_num := 7; df_ft := FN; df_ew := 1; df_words := [1; 2; 3] |};
              {| df_num := 3; df_ft := FB; df_ew := 1; df_words := [65535; 6; 0] |}]).
Proof.
  repeat split; try (vm_compute; reflexivity).
  - exists 9, 16, 9, 16, 25, 113. split; reflexivity.
  - eexists. eexists. split; vm_compute; reflexivity.
Qed.
