(* Props/C05.v — uploaded tag list and type definitions mirror the controller.
   Statement + exact + Print Assumptions only.

   The client is the model of LogixDriver.get_tag_list (Model/LogixUpload.v, tied to /repo by the
   C05 correspondence: harness/props/c05.py); the controller is the reference target's handler
   (Spec/TargetLogix.logix_request) serving a project (Spec/Project.v); what an upload must show
   is Spec/Expect.abstract_view rendered as observations (Spec/UploadObs.v).

   Domain of the quantifier "all controller projects": Spec/Project.wf_project plus
   Proofs/UploadTop.upload_dom, which spells the Logix naming rules and field widths that
   well-formedness leaves open — symbols listed in ascending instance order; names that fit a reply;
   dimensions < 2^32; a ':' only in Program:/Routine:/Task:/Map:/Cxn: symbols and module I/O tags
   (colon_regular, opaque_marked); template names without NUL and ';'; a type named without ";"
   has a predefined-range id; structure sizes < 2^32 and definitions <= 65556 bytes; a visible
   LEN/DATA pair with DATA a SINT array has LEN a DINT (no_pseudo_string); distinct type names;
   a tag's scope spelled like its program symbol — and distinct full names of the visible tags.
   Outside these rules the code (= the model) and the reference differ:
   Proofs/UploadFilter.filter_differs_outside_rules. *)
From Coq Require Import String Permutation.
From PV Require Import Base.Bytes Base.PyStr Base.Res.
From PV Require Import Spec.Project Spec.Expect Spec.TargetLogix Spec.UploadObs Model.LogixUpload.
From PV Require Import Proofs.UploadDefs Proofs.UploadParse Proofs.UploadFilter Proofs.UploadTemplate Proofs.UploadBlob
  Proofs.UploadObsP Proofs.UploadJson Proofs.UploadMirror Proofs.UploadScope Proofs.UploadTop Proofs.UploadHistory
  Proofs.UploadFinal.
From PV Require Gen.Consts.
Open Scope Z_scope.

(* ================================================================ the headline *)
(* for EVERY page policy, read-fragment policy, template-fragment policy (pol), every reply capacity
   that lets one symbol through (cap), every firmware major (rev) and every fuel above the stated
   bound: get_tag_list("*") — what open() runs — returns, and what drv.tags, drv.data_types,
   info['programs'|'tasks'] then SAY is the abstract view of the project (tags and types up to the
   order of the name-keyed dictionaries); the names are distinct; tags_json is serialisable;
   and get_tag_list(None) shows the view of the controller scope *)
Definition C05_full : Prop :=
  forall (p : project) (pol : policy) (cap rev : Z) (fuel : nat),
    wf_project p = true -> upload_dom p cap -> NoDup (map full_name (visible_tags p)) ->
    (fuel_bound p <= fuel)%nat ->
    (exists r ov,
        upload_target cap rev fuel p pol ArgStar = Done r
        /\ obs_of_view (with_access rev) (abstract_view p) = Some ov
        /\ oview_equiv (obs_of_result (with_access rev) r) ov
        /\ NoDup (map tg_name (res_tags r))
        /\ Permutation (map tg_name (res_tags r)) (map full_name (visible_tags p))
        /\ serialisable (tags_json (res_tags r)) = true)
    /\ (exists r ov,
        upload_target cap rev fuel p pol ArgNone = Done r
        /\ obs_of_view (with_access rev) (abstract_view (controller_scope p)) = Some ov
        /\ oview_equiv (obs_of_result (with_access rev) r) ov
        /\ serialisable (tags_json (res_tags r)) = true).

Theorem C05_holds : C05_full.
Proof.
  intros p pol cap rev fuel Hwf Hdom Hfull Hfuel. split.
  - destruct (upload_mirrors_star p pol cap rev Hwf Hdom fuel Hfull Hfuel) as (r & ov & E & Eov & Heq).
    destruct (no_dup_no_invent p pol cap rev Hwf Hdom fuel Hfull Hfuel) as (r' & E' & Hnd & Hperm).
    rewrite E in E'. injection E' as <-.
    exists r, ov. repeat split; try assumption; try apply Heq. apply tags_json_serialisable.
  - destruct (upload_mirrors_none p pol cap rev Hwf Hdom fuel Hfull Hfuel) as (r & ov & E & Eov & Heq).
    exists r, ov. repeat split; try assumption; try apply Heq. apply tags_json_serialisable.
Qed.
Print Assumptions C05_holds.

(* ================================================================ for every call, whatever was uploaded before *)
(* The driver state is threaded from call to call; get_tag_list performs the resets the code performs:
   the template caches on every call; info['programs'|'tasks'] and _data_types for the scopes None and "*".
   So a later get_tag_list("*") / get_tag_list(None) — on a driver in ANY state u0, whatever it uploaded
   before, from whatever project — is the upload of a fresh driver, and mirrors the CURRENT project:
   tags, programs, tasks AND data_types (exactly the current definitions) *)
Theorem C05_reupload :
  forall p pol cap rev fuel u0,
    wf_project p = true -> upload_dom p cap -> NoDup (map full_name (visible_tags p)) -> (fuel_bound p <= fuel)%nat ->
    (snd (get_tag_list lstate (target_call cap) rev fuel u0 (target_state p pol) ArgStar) = upload_target cap rev fuel p pol ArgStar
     /\ snd (get_tag_list lstate (target_call cap) rev fuel u0 (target_state p pol) ArgNone) = upload_target cap rev fuel p pol ArgNone)
    /\ (exists r ov,
          snd (get_tag_list lstate (target_call cap) rev fuel u0 (target_state p pol) ArgStar) = Done r
          /\ obs_of_view (with_access rev) (abstract_view p) = Some ov
          /\ oview_equiv (obs_of_result (with_access rev) r) ov)
    /\ (exists r ov,
          snd (get_tag_list lstate (target_call cap) rev fuel u0 (target_state p pol) ArgNone) = Done r
          /\ obs_of_view (with_access rev) (abstract_view (controller_scope p)) = Some ov
          /\ oview_equiv (obs_of_result (with_access rev) r) ov).
Proof.
  intros p pol cap rev fuel u0 Hwf Hdom Hfull Hfuel. split; [split; apply upload_history; exact I|].
  split; [apply upload_history_star | apply upload_history_none]; assumption.
Qed.
Print Assumptions C05_reupload.

(* get_tag_list(program=P) ADDS to what is there (by design: drv.tags then holds P's scope): same
   outcome, tags, programs, tasks and template cache as on a driver with an empty _data_types; its
   data_types is the earlier dictionary updated with P's definitions ([Rel], [dts_lookup]) *)
Theorem C05_history_program :
  forall St call rev D0 fuel u0 s pn, u_data_types u0 = D0 ->
    match get_tag_list St call rev fuel (fresh u0) s (ArgProgram pn), get_tag_list St call rev fuel u0 s (ArgProgram pn) with
    | (s1, Done r1), (s2, Done r2) => s1 = s2 /\ res_tags r2 = res_tags r1 /\ Rel D0 (res_state r1) (res_state r2)
    | (s1, Failed e1), (s2, Failed e2) => s1 = s2 /\ e1 = e2
    | (s1, OutOfFuel), (s2, OutOfFuel) => s1 = s2
    | _, _ => False
    end.
Proof. exact get_tag_list_history. Qed.
Print Assumptions C05_history_program.

(* ================================================================ the mechanisms, one by one *)
(* paged symbol upload continuing from last instance + 1: against ANY peer that answers with a
   non-empty prefix — of any length — of the remaining symbols, every symbol once, in order *)
Theorem C05_pagination_independent :
  forall St call rev Inv prog all,
    paging_peer St call rev Inv prog all -> Forall wentry_ok all -> ascending all ->
    (forall start, 0 <= start < 4294967296 -> exists rq, symbols_request (with_access rev) prog start = Ok rq) ->
    forall fuel st, Inv st -> Forall (fun e => 0 <= we_inst e) all -> (length all < fuel)%nat ->
    exists st', get_instance_attribute_list St call rev fuel st prog 0 []
                = (st', Done (map (raw_of_wentry (with_access rev)) all)) /\ Inv st'.
Proof. exact pagination_independent. Qed.
Print Assumptions C05_pagination_independent.

(* fragmented template read by byte offset: against ANY peer that answers with a non-empty piece
   of what is asked for and exists, the definition bytes once, in order *)
Theorem C05_template_fragment_independent :
  forall St call Inv tid defsize blob,
    fragment_peer St call Inv tid defsize blob ->
    (forall off, 0 <= off -> off <= defsize * 4 - 21 -> off <= Z.of_nat (length blob) ->
                 exists rq, template_read_request tid defsize off = Ok rq) ->
    forall fuel st, Inv st -> 0 <= defsize * 4 - 21 ->
    (Z.to_nat (Z.min (defsize * 4 - 21) (Z.of_nat (length blob))) < fuel)%nat ->
    exists st', read_template St call fuel st tid defsize 0 []
                = (st', Done (firstn (Z.to_nat (Z.min (defsize * 4 - 21) (Z.of_nat (length blob)))) blob)) /\ Inv st'.
Proof. exact template_fragment_independent. Qed.
Print Assumptions C05_template_fragment_independent.

(* the filter keeps a symbol iff the reference calls it user-visible *)
Theorem C05_isolate_filter_exact :
  forall g, word_fields_ok g -> colon_regular (g_name g) = true -> opaque_marked g = true ->
            kept (classify (g_name g) (sym_type_word g)) = negb (hidden_symbol g).
Proof. exact isolate_filter_exact. Qed.
Print Assumptions C05_isolate_filter_exact.

(* struct flag, dimensions, type code / template id, BOOL bit position from the symbol type word,
   for all in-range fields; the product of the dimensions; the alias flag *)
Theorem C05_create_tag_fields :
  (forall g, word_fields_ok g ->
     let w := sym_type_word g in
     0 <= w /\
     match g_ty g with
     | BAtom c => sym_is_struct w = false /\ sym_dim w = nd g /\ sym_atomic_code w = c
                  /\ (c = C_BOOL -> sym_bit_position w = g_bitpos g)
                  /\ ((Z.land w SYSTEM_BIT =? 0) = negb (g_system g))
     | BStruct tid => sym_is_struct w = true /\ sym_dim w = nd g /\ sym_template_id w = tid
                      /\ ((Z.land w SYSTEM_BIT =? 0) = negb (g_system g))
     | BOpaque _ => True
     end)
  /\ (forall dims : list Z, (length dims <= 3)%nat ->
        total_elements (Z.of_nat (length dims)) (pad3 3 dims) = dims_count dims)
  /\ (forall g, 0 <= g_attr6 g -> sym_alias (g_attr6 g) = alias_flag g).
Proof. exact (conj create_tag_fields (conj total_elements_dims alias_flag_eq)). Qed.
Print Assumptions C05_create_tag_fields.

(* the 8-byte member record served by the target (info word, type word with or without the array
   bit, offset) decodes to the member's entry: elementary type by code, array length or BOOL bit
   number, offset; a structure member (bit 15) goes through _get_data_type (a parameter with the
   stated contract) *)
Theorem C05_member_info_decode :
  forall St gdt (I : ustate -> St -> Prop) (Good : Z -> datatype -> Prop)
         (Step : ustate -> ustate -> Prop) (Post : Z -> ustate -> Prop),
    (forall u, Step u u) -> (forall a b c, Step a b -> Step b c -> Step a c) ->
    (forall tid u u', Post tid u -> Step u u' -> Post tid u') ->
    forall ab m ms u s,
      gdt_contract St gdt I Good Step Post ms -> In m ms -> member_fields_ok m -> I u s ->
      exists s' u' info,
        parse_member_info St gdt u s (member_rec ab m) = (s', u', Done info)
        /\ info_good Good m info /\ I u' s' /\ Step u u' /\ (forall tid, m_ty m = BStruct tid -> Post tid u').
Proof. exact member_info_decode. Qed.
Print Assumptions C05_member_info_decode.

(* LEN/DATA structures are strings: the code's test on the uploaded members is the test on the
   project; capacity = length of DATA, character area = structure size - 4 *)
Theorem C05_string_detection :
  (forall Good t infos, tmpl_facts t -> Forall2 (info_good Good) (t_members t) infos ->
     string_length (member_loop (predefined_id (t_id t)) ml_init (map m_name (t_members t)) infos) = code_string_test t)
  /\ (forall t, no_pseudo_string t -> Forall (fun m => 0 <= m_arr m) (t_members t) ->
        option_map (fun a => (a, t_size t - 4, a)) (code_string_test t) = str_obs t).
Proof. exact (conj string_detection string_capacity). Qed.
Print Assumptions C05_string_detection.

(* the JSON view holds no type class and no _struct_members at any depth, whatever was uploaded.
   In the model tags_json is a FUNCTION of the uploaded tags (Model/LogixUpload.tags_json : list mtag ->
   pyval, built from copies): the driver state is neither an argument nor a result, so reading the view
   cannot change tags / data_types.  On the implementation this purity is checked, not assumed: the
   oracle reads tags_json twice and requires tags / data_types (type classes included) unchanged, still
   equal to the abstract view, and a structure-member read through the live target still correct; the
   correspondence compares the dictionaries AFTER the view was read *)
Theorem C05_tags_json_serialisable : forall tags, serialisable (tags_json tags) = true.
Proof. exact tags_json_serialisable. Qed.
Print Assumptions C05_tags_json_serialisable.

(* ================================================================ non-vacuity *)
Definition ex_inner : template :=
  mkTemplate [73; 110; 110; 101; 114] (Some [110; 49]) 257 4660 4 0
             [mkMember [97] (BAtom C_DINT) 0 0 0 false].
Definition ex_outer : template :=
  mkTemplate [79; 117; 116; 101; 114] (Some [110; 50]) 258 22136 8 0
             [mkMember [90;90;90;90;90;90;90;90;90;90;79;48] (BAtom C_SINT) 0 0 0 true;
              mkMember [98; 48] (BAtom C_BOOL) 0 0 0 false;
              mkMember [110] (BStruct 257) 0 4 0 false].
(* "Program:P" (instance 1), the structure tag X (instance 2), P's DINT[2] tag Y (instance 3) *)
Definition ex_project : project :=
  mkProject [ex_inner; ex_outer]
            [mkTag (txt_Program ++ [80]) 1 ScCtrl (BOpaque 4200) [] 0 false 0 0 0 0;
             mkTag [88] 2 ScCtrl (BStruct 258) [] 0 false 0 0 0 67108864;
             mkTag [89] 3 (ScProg [80]) (BAtom C_DINT) [2] 0 false 2 0 0 67108864].

Example C05_nonvacuous :
  wf_project ex_project = true
  /\ (match upload_target 500 32 (fuel_bound ex_project) ex_project (mkPolicy [1] [] [7] 255 true) ArgStar,
            obs_of_view true (abstract_view ex_project) with
      | Done r, Some ov => oview_eqb (obs_of_result true r) ov && Nat.eqb (length (res_tags r)) 2
      | _, _ => false
      end = true).
Proof. vm_compute. split; reflexivity. Qed.

(* every hypothesis of C05_full holds of that project (nested structure, hidden host, packed BOOL,
   a program with a program-scoped array tag) *)
Example C05_hypotheses_inhabited :
  wf_project ex_project = true /\ upload_dom ex_project 500 /\ NoDup (map full_name (visible_tags ex_project)).
Proof.
  split; [vm_compute; reflexivity|]. split.
  - constructor.
    + lia.
    + reflexivity.
    + assert (Hother : forall g, starts_with txt_Program (g_name g) = false -> starts_with txt_Routine (g_name g) = false ->
                                 starts_with txt_Task (g_name g) = false ->
                                 Z.of_nat (length (g_name g)) + 38 <= 500 -> Forall (fun d => d < 4294967296) (g_dims g) ->
                                 colon_regular (g_name g) = true -> opaque_marked g = true -> tag_dom 500 g).
      { intros g H1 H2 H3 H4 H5 H6 H7. unfold tag_dom. rewrite H1, H2, H3. repeat split; try assumption; discriminate. }
      constructor; [|constructor; [|constructor; [|constructor]]].
      * unfold tag_dom. split; [cbn; lia|]. split; [constructor|]. split; [vm_compute; reflexivity|]. split; [vm_compute; reflexivity|].
        split; [|split; intros H; vm_compute in H; discriminate].
        intros _. split; [reflexivity|]. split; [vm_compute; discriminate|]. split; [vm_compute; reflexivity | cbn; lia].
      * apply Hother; [reflexivity | reflexivity | reflexivity | cbn; lia | constructor | reflexivity | reflexivity].
      * apply Hother; [reflexivity | reflexivity | reflexivity | cbn; lia | repeat constructor; lia | reflexivity | reflexivity].
    + repeat constructor; try (vm_compute; reflexivity); try (cbn; lia); try (vm_compute; discriminate);
        try (intros l d H; vm_compute in H; discriminate).
      intros l d H. vm_compute in H. injection H as <- <-. intros H. vm_compute in H. discriminate.
    + repeat constructor; cbn; intuition discriminate.
    + intros g pn Hg Hpn Hs. vm_compute in Hpn. destruct Hpn as [<- | []].
      cbn [p_tags ex_project] in Hg. destruct Hg as [<- | [<- | [<- | []]]]; vm_compute in Hs; try discriminate. reflexivity.
    + intros g pn Hg Hs. cbn [p_tags ex_project] in Hg. destruct Hg as [<- | [<- | [<- | []]]]; cbn in Hs; try discriminate.
      injection Hs as <-. vm_compute. left. reflexivity.
    + vm_compute. repeat constructor; intuition discriminate.
    + vm_compute. constructor.
  - vm_compute. repeat constructor; cbn; intuition discriminate.
Qed.

(* why upload_dom asks for no_pseudo_string: the code's test looks at DATA only.  A structure with
   visible members LEN : INT and DATA : SINT[8] is taken for a string of capacity 8 (and later read
   through FixedSizeString, whose UDINT length field then overlaps DATA), while the reference
   (Spec/Expect.string_shape: LEN must be a DINT) calls it a plain structure.
   Reproduced on the real driver; repair proposed in proposed_fixes/C05-string-detection-requires-dint-len.diff *)
Definition ex_pseudo_string : template :=
  mkTemplate [77; 115; 103] (Some [110; 53]) 801 77 12 0
             [mkMember txt_LEN (BAtom C_INT) 0 0 0 false; mkMember txt_DATA (BAtom C_SINT) 8 2 0 false].
Example C05_pseudo_string_differs :
  template_ok [] ex_pseudo_string = true
  /\ code_string_test ex_pseudo_string = Some 8 /\ string_shape ex_pseudo_string = None.
Proof. vm_compute. repeat split; reflexivity. Qed.
