(* Props/C11.v — every emitted frame is a well-formed EtherNet/IP encapsulation message.
   Statement + exact + Print Assumptions only.
     model            Model/Encap.v (interpreting the regenerated Gen/EncapGen.v)
     independent spec Spec/EncapParser.v (strict parser [parse_frame]), Spec/EncapTrace.v (observer [trace_ok])
     vocabulary       Proofs/EncapP.v: [request k seq body] = the request object of class k with sequence
                      count seq and message body = the chunks body; [frame_of] = the frame the property
                      demands (command of the class; session; context; null address + unconnected data
                      item, or connection address holding the connection id + connected data item =
                      sequence count ++ message; RegisterSession body version 1 / flags 0; empty otherwise);
                      [common_len] = bytes after the header;
                      Proofs/EncapHistP.v: [op_ok] = the replies are well-formed (handle < 2^32, Forward
                      Open reply >= 4 bytes) and every message fits the 16-bit length field;
                      [obs_of_event] = what an observer at the socket / the target sees. *)
From PV Require Import Base.Bytes Base.Res Model.EncapDefs Gen.EncapGen Model.Encap
                       Spec.EncapParser Spec.EncapTrace Proofs.EncapP Proofs.EncapHistP.
Open Scope Z_scope.

Definition C11_full : Prop :=
  (* frame_ok: for EVERY payload (any list of byte strings; the only bound is the 16-bit length field),
     every request class, every session handle, connection id and context, the bytes build_request
     hands to the socket are accepted by the strict parser as exactly the demanded frame.
     [target] is whatever the driver holds in _target_cid: only SendUnitData reads it. *)
  (forall k seq body target cid sess ctx,
      0 <= seq < 65536 -> 0 <= sess < 4294967296 ->
      length ctx = 8%nat -> bytes_ok ctx = true -> all_bytes_ok body = true ->
      (k = KSendUnit -> target = PBytes cid /\ length cid = 4%nat /\ bytes_ok cid = true) ->
      (k = KRegister -> concat body = []) ->
      common_len k (concat body) < 65536 ->
      exists p1 f,
        build_request (request k seq body) target (PInt sess) (PBytes ctx) (PInt CFG_OPTION) = (p1, Ok f)
        /\ parse_frame f = RcOk (frame_of k seq cid (concat body) sess ctx))
  (* connected_starts_with_seq: the connected data item begins with the sequence count given at
     construction, followed by the message *)
  /\ (forall seq body cid sess ctx,
      0 <= seq < 65536 -> 0 <= sess < 4294967296 ->
      length ctx = 8%nat -> bytes_ok ctx = true -> all_bytes_ok body = true ->
      length cid = 4%nat -> bytes_ok cid = true -> 22 + zlen (concat body) < 65536 ->
      exists p1 f t d,
        build_request (request KSendUnit seq body) (PBytes cid) (PInt sess) (PBytes ctx) (PInt CFG_OPTION) = (p1, Ok f)
        /\ parse_frame f = RcOk {| f_cmd := CMD_UNITDATA; f_session := sess; f_context := ctx;
                                   f_body := BCpf t (AddrConn (le_dec cid)) ITEM_CONN_DATA d |}
        /\ firstn 2 d = le_enc 2 seq /\ le_dec (firstn 2 d) = seq /\ skipn 2 d = concat body)
  (* history: along ANY sequence of driver calls (open with any register reply | unconnected request |
     connected request behind with_forward_open with any Forward Open replies | close), every frame
     written is accepted by the strict parser, has the command of its operation, carries the handle of
     the last accepted RegisterSession reply (0 while there is none: before registration, after close),
     and every 0x70 frame carries the connection id of the last accepted Forward Open reply *)
  /\ (forall ops, forallb op_ok ops = true -> trace_ok (map obs_of_event (trace init_dstate ops)))
  (* assembled once: a request whose class's _setup_message sets the flag returns the same message,
     unchanged, when built again *)
  /\ (forall p p1 m, pc_setup (class_of (p_kind p)) <> SetupRegister ->
        build_message p = (p1, Ok m) -> build_message p1 = (p1, Ok m)).

Theorem C11_holds : C11_full.
Proof.
  split; [| split; [| split]].
  - exact frame_ok.
  - exact connected_starts_with_seq.
  - exact history_ok.
  - exact build_message_once_flagging.
Qed.
Print Assumptions C11_holds.

(* "assembled once" for EVERY request object is false: RegisterSessionRequestPacket._setup_message
   does not call the base method, the flag stays False and a second build appends protocol version
   and option flags again (the frame then built is rejected by the strict parser, rule 10).  The
   driver builds each RegisterSession request once (a fresh object per _register_session), so no
   emitted frame is affected; the guard is the class. *)
Definition C11_build_once_full : Prop :=
  forall p p1 m, build_message p = (p1, Ok m) -> build_message p1 = (p1, Ok m).

Theorem C11_build_once_full_refuted : ~ C11_build_once_full.
Proof.
  intros H.
  destruct (build_message register_request) as [p1 r1] eqn:E1.
  assert (r1 = Ok [1; 0; 0; 0]) as -> by (apply (f_equal snd) in E1; vm_compute in E1; congruence).
  pose proof (H _ _ _ E1) as E2.
  apply (f_equal fst) in E1. vm_compute in E1. subst p1. vm_compute in E2. discriminate E2.
Qed.
Print Assumptions C11_build_once_full_refuted.

Definition C11_build_once_guard (p : packet) : bool :=
  match pc_setup (class_of (p_kind p)) with SetupRegister => true | _ => false end.

Theorem C11_build_once_guarded : forall p p1 m,
  C11_build_once_guard p = false -> build_message p = (p1, Ok m) -> build_message p1 = (p1, Ok m).
Proof.
  intros p p1 m Hg. apply build_message_once_flagging. unfold C11_build_once_guard in Hg.
  destruct (pc_setup (class_of (p_kind p))); congruence.
Qed.
Print Assumptions C11_build_once_guarded.

Theorem C11_register_rebuilt :
  exists p1 p2 f1 f2,
    build_request register_request PNone (PInt 0) (PBytes CFG_CONTEXT) (PInt CFG_OPTION) = (p1, Ok f1)
    /\ build_request p1 PNone (PInt 0) (PBytes CFG_CONTEXT) (PInt CFG_OPTION) = (p2, Ok f2)
    /\ parse_frame f1 = RcOk (frame_of KRegister 0 [] [] 0 CFG_CONTEXT)
    /\ parse_frame f2 = RcErr 10
    /\ p_message p1 = [1; 0; 0; 0] /\ p_message p2 = [1; 0; 0; 0; 1; 0; 0; 0].
Proof. exact register_rebuilt_refuted. Qed.
Print Assumptions C11_register_rebuilt.

(* non-vacuity: the hypotheses are inhabited.  (1) the SendUnitData frame of sequence 5, body "abc",
   connection id 01 02 03 04, session 7 is byte for byte what the real class produces; (2) a history
   open (handle 77) / connected request with a refused Large Forward Open then an accepted standard
   one (connection id 0x44332211) / list identity / close / re-open (refused) satisfies op_ok, writes
   8 frames, and its 0x70 frame carries 77 and 0x44332211 *)
Example C11_nonvacuous :
  (exists p1, build_request (request KSendUnit 5 [[97; 98; 99]]) (PBytes [1; 2; 3; 4]) (PInt 7) (PBytes CFG_CONTEXT) (PInt CFG_OPTION)
     = (p1, Ok [112; 0; 25; 0; 7; 0; 0; 0; 0; 0; 0; 0; 95; 112; 121; 99; 111; 109; 109; 95; 0; 0; 0; 0;
                0; 0; 0; 0; 10; 0; 2; 0; 161; 0; 4; 0; 1; 2; 3; 4; 177; 0; 5; 0; 5; 0; 97; 98; 99]))
  /\ (let ops := [OOpen (Some 77);
                  OConnected (PInt 3) [PBytes [170; 187]] [([PBytes [91]], None); ([PBytes [84]], Some [17; 34; 51; 68; 85])];
                  OUnconnected KListIdentity []; OClose [PBytes [78]] true; OOpen None] in
      forallb op_ok ops = true
      /\ length (filter (fun e => match e with EvFrame _ _ => true | _ => false end) (trace init_dstate ops)) = 8%nat
      /\ exists f, In (EvFrame KSendUnit f) (trace init_dstate ops)
                   /\ parse_frame f = RcOk (frame_of KSendUnit 3 [17; 34; 51; 68] [170; 187] 77 CFG_CONTEXT)).
Proof.
  split.
  - eexists. vm_compute. reflexivity.
  - cbv zeta. split; [vm_compute; reflexivity |]. split; [vm_compute; reflexivity |].
    eexists. split.
    + vm_compute. do 5 right. left. reflexivity.
    + vm_compute. reflexivity.
Qed.
