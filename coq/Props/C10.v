(* Props/C10.v — "Connection lifecycle is safe under any call history and failure point".

   Model: Model/Lifecycle.v (CIPDriver / LogixDriver lifecycle + the fake socket) composed with the
   reference target [Spec/TargetCore.tstep] — the same definition that runs as the live peer — for
   ANY application handler [h], any target configuration [cfg] (session / Forward Open policies,
   identity, expected route, ...), any error injections with a non-zero status byte, any fault
   schedule [flt] (k-th connect / send / receive / close raises an OS error or any other exception,
   reply lost, reply left queued = arriving late, peer vanishes), any driver kind, route, urandom
   stream and any history of calls.  (Since f3bd898 a failed send or receive abandons the transport, so a
   late reply is never read by a later request: no fault kind is excluded any more.)  All quantifiers are universal; proofs are by induction over
   the history with invariants relating driver state and target state (Proofs/Lifecycle*.v). *)
From PV Require Import Base.Bytes Base.Res.
From PV Require Import Spec.EncapParser Spec.MRParser Spec.TargetIface Spec.TargetCore.
From PV Require Import Proofs.LifecycleTarget Model.Lifecycle Proofs.LifecycleP Proofs.LifecycleReopen
  Proofs.LifecycleInv Proofs.LifecycleHistory Proofs.LifecycleReplyBridge Proofs.LifecycleUpload.
From PV Require Model.Reply.
Open Scope Z_scope.

(* inputs: injected service errors carry a status whose byte is not 0; route segments are byte
   strings and os.urandom(4) returns 4 bytes; messages given to generic_message(connected=False) do
   not themselves ask the connection manager to open or close a connection *)
Definition inputs_ok (inj : list injection) (route rands : list bytes) (ops : list op) : Prop :=
  inj_ok inj /\ all_bytes route /\ all_draws rands /\ Forall op_ok ops.

(* nothing is sent on a connection before a session is registered and a Forward Open succeeded.
   (a) every SendUnitData frame that reaches the target finds, in the target's tables AT THAT MOMENT,
   the session of its header and a connection of that session with the connection id it carries
   ([unitdata_ok], Proofs/LifecycleInv.v);
   (b) in the trace, every such frame is preceded, with no reset of the TCP connection in between, by
   a RegisterSession frame that put that session into the table and by a Forward Open frame that
   created, in that session, the connection whose id the frame carries ([unitdata_preceded],
   Proofs/LifecycleHistory.v; frames are classified by the target's own strict parsers) *)
Definition no_connected_before_fo : Prop :=
  forall S (h : handler S) app cfg inj flt logix route rands ops,
    inputs_ok inj route rands ops ->
    let tr := w_trace (fst (fst (run h app cfg inj flt logix route rands ops))) in
    Forall (deliver_ok (S := S)) tr
    /\ forall newer b fr rep older, tr = newer ++ TDeliver b fr rep :: older -> unitdata_preceded h older fr.

(* extended first, then standard with the 500-byte size: a standard Forward Open (service 0x54 to the
   connection manager, as the target's parsers read the frame) reaches the target only after a Large
   one (0x5B) that the target did not grant (its connection table unchanged); and the connection
   sizes the target's parser reads from every Forward Open frame ([fo_sizes]) are 4000 / 4000 in a
   Large one and 500 / 500 in a standard one *)
Definition fo_order : Prop :=
  forall S (h : handler S) app cfg inj flt logix route rands ops,
    inputs_ok inj route rands ops ->
    let tr := w_trace (fst (fst (run h app cfg inj flt logix route rands ops))) in
    fo_trace_ok h tr /\ Forall (size_ok (S := S)) tr.

(* failures surface only as library exceptions or falsy Tags: no call outcome is a foreign exception
   (the with-body's own exception is [OUser]) *)
Definition library_exceptions_only : Prop :=
  forall S (h : handler S) app cfg inj flt logix route rands ops,
    inj_ok inj ->
    Forall (fun o => lib_outcome (o_out o)) (snd (run h app cfg inj flt logix route rands ops)).

(* after close(): not connected, driver state reset, and the target holds no session and no connection *)
Definition close_resets : Prop :=
  forall S (h : handler S) app cfg inj flt logix route rands pre,
    inj_ok inj ->
    closed_state (fst (run h app cfg inj flt logix route rands (pre ++ [Simple Close]))).

(* a later open() works again: from ANY state, close() then open() with no fault during that open and
   a session-granting policy returns True, the driver is connected and holds a session that is in
   the target's table *)
Definition reopen_works : Prop :=
  forall S (h : handler S) flt (s : st (S := S)),
    let s1 := fst (drv_close h flt s) in
    quiet_open flt (fst s1) -> cf_accept_session (t_cfg (w_t (fst s1))) = true ->
    forall s' r, cip_open h flt s1 = (s', r) ->
      r = Ok true /\ d_opened (snd s') = true /\ d_session (snd s') <> 0
      /\ mem_z (d_session (snd s')) (t_sessions (w_t (fst s'))) = true.

(* the property at full strength: every fault schedule *)
Definition C10_full : Prop :=
  no_connected_before_fo /\ fo_order /\ library_exceptions_only /\ close_resets /\ reopen_works.

(* ================================================================ the five clauses, every fault schedule *)
Theorem C10_library_exceptions_only : library_exceptions_only.
Proof.
  intros S h app cfg inj flt logix route rands ops Hinj. unfold run.
  pose proof (run_ops_good h cfg logix flt ops _ (start_good h app cfg inj rands route Hinj)) as (_ & F).
  cbv zeta in F. eapply Forall_impl; [| exact F]. intros o [_ L]. exact L.
Qed.

Theorem C10_close_resets : close_resets.
Proof.
  intros S h app cfg inj flt logix route rands pre Hinj. unfold run. rewrite run_ops_app.
  pose proof (run_ops_good h cfg logix flt pre _ (start_good h app cfg inj rands route Hinj)) as (G & _).
  cbv zeta in G. destruct (run_ops h logix flt _ pre) as [s1 l1]. cbn [fst snd] in *.
  cbn [run_ops exec_op].
  pose proof (exec_sop_good h cfg logix flt s1 Close G) as (_ & _ & C). cbv zeta in C.
  destruct (exec_sop h logix flt s1 Close) as [s2 o2]. cbn [fst snd] in *. exact (C eq_refl).
Qed.

Theorem C10_reopen_works : reopen_works.
Proof. intros S h flt s. apply reopen_works_state. Qed.

Theorem C10_no_connected_before_fo : no_connected_before_fo.
Proof.
  intros S h app cfg inj flt logix route rands ops (Hinj & Hr & Hn & Hops). unfold run.
  pose proof (run_ops_inv h cfg flt logix ops _ (start_good h app cfg inj rands route Hinj)
                (start_inv h app cfg inj rands route Hr Hn) Hops) as [I0 _].
  pose proof (run_ops_good h cfg logix flt ops _ (start_good h app cfg inj rands route Hinj)) as ([W _] & _).
  cbv zeta in *. split; [exact (i_trace _ _ I0) |].
  intros newer b fr rep older E. eapply preceded_of_tables; [exact (wg_chain _ _ _ W) | exact (i_trace _ _ I0) | exact E].
Qed.

Theorem C10_fo_order : fo_order.
Proof.
  intros S h app cfg inj flt logix route rands ops (Hinj & Hr & Hn & Hops). unfold run.
  pose proof (run_ops_inv h cfg flt logix ops _ (start_good h app cfg inj rands route Hinj)
                (start_inv h app cfg inj rands route Hr Hn) Hops) as [I0 _].
  split; [exact (i_fo _ _ I0) | exact (i_sizes _ _ I0)].
Qed.

Theorem C10_holds : C10_full.
Proof.
  split; [exact C10_no_connected_before_fo |]. split; [exact C10_fo_order |].
  split; [exact C10_library_exceptions_only |]. split; [exact C10_close_resets | exact C10_reopen_works].
Qed.

(* ================================================================ the tie to C13 and the upload abstraction *)
(* The lifecycle model decides "RegisterSession granted", "Forward Open granted / refused" and "generic
   reply ok" with its own small predicates.  For EVERY byte string they agree with Model/Reply.v, the
   model of the response classes that C13 proves correct against the status words of the wire
   layout: same validity and session for RegisterSession; for generic_message (which _forward_open
   and _forward_close go through) the same exception class, or the same Tag truthiness and value. *)
Definition reply_classification_is_C13s : Prop :=
  (forall raw, bytes_ok raw = true ->
     register_valid raw = Reply.is_valid Reply.KRegister (Reply.parse_register raw)
     /\ Reply.register_session raw = if register_valid raw then Some (register_session_of raw) else None)
  /\ (forall k raw, bytes_ok raw = true ->
        valid k raw = Reply.is_valid (rk k) (parse_k k raw)
        /\ match Reply.generic_message (rk k) None raw with
           | Reply.RErr e _ => classify k raw = Err e
           | Reply.ROk t => classify k raw = Ok (Reply.tag_truthy t, data_of k raw)
           end).

Theorem C10_reply_classification : reply_classification_is_C13s.
Proof.
  split.
  - intros raw Hok. apply register_reply_agrees. exact Hok.
  - intros k raw Hok. split; [apply (cip_reply_agrees k raw Hok) | apply classify_agrees; exact Hok].
Qed.

(* LogixDriver.open(init_tags=True) uploads the tag list: any number of @with_forward_open calls, each
   sending any number of connected requests.  The theorems above treat it as [ConnectedCall]
   operations of the history; that abstraction is sound for ANY number of calls, requests and
   replies: from every reachable state the sequence keeps the reachability invariant and the
   lifecycle invariant (so C10_holds covers histories whose open() includes the upload). *)
Definition upload_abstraction_sound : Prop :=
  forall S (h : handler S) cfg0 logix flt calls (s : st (S := S)),
    Good h cfg0 s -> Inv h s ->
    let r := run_ops h logix flt s (upload_ops calls) in
    Good h cfg0 (fst r) /\ Inv h (fst r) /\ Forall (fun o => lib_outcome (o_out o)) (snd r).

Theorem C10_upload_abstraction : upload_abstraction_sound.
Proof. intros S h cfg0 logix flt calls s. apply upload_preserves. Qed.

(* ================================================================ non-vacuity *)
(* a fault-free history on which connected frames DO reach the target (so the theorems speak about
   something), a Large-refusing policy under which a standard Forward Open IS sent, and a
   close();open() that satisfies the hypotheses of [reopen_works] *)
Definition w_echo : bytes := [75; 3; 33; 0; 0; 3; 36; 1; 97; 98; 99; 100; 101; 102; 103; 104].
Definition w_rands : list bytes := [[1; 2; 3; 4]; [5; 6; 7; 8]].
Definition ex_ops : list op :=
  [Simple Open; Simple (GenericConnected w_echo); Simple (GenericUnconnected w_echo);
   WithBlock [GenericConnected w_echo; ConnectedCall [(7, w_echo)] 8] true; Simple Open; Simple Close].
Definition ex_cfg : tcfg :=
  {| cf_accept_session := true; cf_session_handle := 16777217; cf_session_refuse_status := 105;
     cf_accept_large_fo := false; cf_accept_std_fo := true; cf_fo_refuse_ext := 282; cf_conn_id := 12648449;
     cf_max_large_size := 4002; cf_multi_service := true; cf_ident := default_ident; cf_expect_route := None |}.
Definition ex_run := run basic_handler init_basic ex_cfg [] no_faults false [] w_rands ex_ops.
Definition is_cmd (c : Z) (e : tev (S := basic_state)) : bool :=
  match e with TDeliver _ f _ => nth 0 f 0 =? c | _ => false end.

Example C10_inhabited :
  inputs_ok [] [] w_rands ex_ops
  /\ List.length (filter (is_cmd 112) (w_trace (fst (fst ex_run)))) = 3%nat
  /\ existsb (fun e => match e with TDeliver _ f _ => match frame_effect f with EFo false => true | _ => false end | _ => false end)
             (w_trace (fst (fst ex_run))) = true
  /\ filter (fun o => match o with Some _ => true | None => false end)
            (map (fun e => match e with TDeliver _ f _ => fo_sizes f | _ => None end) (w_trace (fst (fst ex_run))))
     = [Some (false, 500, 500); Some (true, 4000, 4000)]
  /\ map o_out (snd ex_run) = [OBool true; OTag true; OTag true; OTag true; OTags [true]; OUser; OBool true; ONone]
  /\ quiet_open no_faults (fst (fst (drv_close basic_handler no_faults (fst ex_run))))
  /\ cf_accept_session (t_cfg (w_t (fst (fst (drv_close basic_handler no_faults (fst ex_run)))))) = true.
Proof.
  split; [split; [constructor |]; split; [constructor |]; split; repeat constructor |].
  split; [vm_compute; reflexivity |]. split; [vm_compute; reflexivity |].
  split; [vm_compute; reflexivity |].
  split; [vm_compute; reflexivity |]. split; [vm_compute; repeat split |]. vm_compute. reflexivity.
Qed.

Print Assumptions C10_holds.
Print Assumptions C10_no_connected_before_fo.
Print Assumptions C10_fo_order.
Print Assumptions C10_library_exceptions_only.
Print Assumptions C10_close_resets.
Print Assumptions C10_reopen_works.
Print Assumptions C10_reply_classification.
Print Assumptions C10_upload_abstraction.
Print Assumptions C10_inhabited.
