(* Props/C17.v — connected messages carry fresh sequence counts.
   Statement + exact + Print Assumptions only.  The counter is the TRANSLATION of util.cycle
   (Gen/SeqGen.v, regenerated from /repo on every run) with the arguments CIPDriver.__init__ passes. *)
From PV Require Import Base.Bytes Model.Seq Proofs.SeqP.
From PV Require Import Gen.SeqGen.
Open Scope Z_scope.

(* full strength: along ANY history of count allocations (every packet constructor draws; some of
   the packets are sent), no connected message repeats the count of the one sent before it *)
Definition C17_full : Prop :=
  forall h : list sev, has_repeat (sent_counts h seq_init) = false.

(* the faithful model falsifies it: one message, then PERIOD - 1 = 65534 counts drawn without a send
   (one read() of 65534 tags constructs 65534 ReadTagRequestPackets before the first
   MultiServiceRequestPacket), then the next message: same count on the wire *)
Definition C17_witness : list sev := DrawSend :: repeat Draw (Z.to_nat (PERIOD - 1)) ++ [DrawSend].
Theorem C17_full_refuted : ~ C17_full.
Proof.
  intros H. specialize (H C17_witness). revert H. vm_compute. discriminate.
Qed.
Print Assumptions C17_full_refuted.

(* exact characterisation, for every history of any length (any number of wrap-arounds): a repeat
   occurs iff two consecutive sends are separated by a multiple of PERIOD draws *)
Theorem C17_iff : forall h : list sev, has_repeat (sent_counts h seq_init) = C17_guard h.
Proof. exact repeat_iff_guard. Qed.
Print Assumptions C17_iff.

Theorem C17_guarded : forall h : list sev, C17_guard h = false -> has_repeat (sent_counts h seq_init) = false.
Proof. exact fresh_guarded. Qed.
Print Assumptions C17_guarded.

(* the same for messages sent in ANY order relative to the order their counts were drawn (history =
   draw indices of the sent messages, in sending order): a repeat occurs iff two consecutive sends
   have draw indices congruent modulo PERIOD *)
Theorem C17_iff_by_index : forall idx : list nat, has_repeat (counts_of idx) = idx_guard idx.
Proof. exact repeat_iff_idx_guard. Qed.
Print Assumptions C17_iff_by_index.

(* the guard holds whenever fewer than PERIOD - 1 counts are drawn between two consecutive sends *)
Theorem C17_small_gaps : forall h, Forall (fun g => 0 <= g < PERIOD - 1) (gaps h) -> C17_guard h = false.
Proof. exact small_gaps_ok. Qed.
Print Assumptions C17_small_gaps.

(* counts on the wire are 1..65535, so they fit the UINT field unchanged *)
Theorem C17_range : forall h, Forall (fun c => 1 <= c <= 65535) (sent_counts h seq_init).
Proof. intros h. exact (sent_counts_range h seq_init init_inv). Qed.
Print Assumptions C17_range.

(* non-vacuity: a history with wasted draws across the wrap-around satisfies the guard *)
Example C17_nonvacuous :
  let h := repeat DrawSend 3 ++ repeat Draw (Z.to_nat 65530) ++ [DrawSend; Draw; Draw; DrawSend; DrawSend] in
  C17_guard h = false /\ sent_counts h seq_init = [1; 2; 3; 65534; 2; 3].
Proof. vm_compute. split; reflexivity. Qed.

(* stronger than the statement: the counts of ANY set of messages whose draw indices lie within one
   period (65535 consecutive draws) are pairwise distinct — a target that remembers more than the
   last count (any duplicate-detection window shorter than the period) never sees a false duplicate;
   and the period is exact (the bound cannot be improved) *)
Theorem C17_window_distinct : forall idx : list nat,
  NoDup idx ->
  (forall i j, In i idx -> In j idx -> Z.abs (Z.of_nat i - Z.of_nat j) < PERIOD) ->
  NoDup (counts_of idx).
Proof. exact window_NoDup. Qed.
Print Assumptions C17_window_distinct.

Theorem C17_period_exact : forall i : nat, nth_yield (i + Z.to_nat PERIOD) seq_init = nth_yield i seq_init.
Proof. exact period_exact. Qed.
Print Assumptions C17_period_exact.

(* the first 65535 counts on a connection are 1, 2, ..., 65535 in order *)
Theorem C17_first_period : forall k : nat, Z.of_nat k < PERIOD -> nth_yield k seq_init = SEQ_START + Z.of_nat k.
Proof. exact first_period_counts. Qed.
Print Assumptions C17_first_period.
