(* Props/C03.v — "One result per request, in request order, with failures isolated".
   Statement + exact + Print Assumptions only.
   Models: Model/LogixParse.v (request parsing, ids by position), Model/LogixPlan.v (packets),
   Model/LogixResults.v (what building a packet can raise, _send_requests, fan-out of merged bit writes,
   result assembly of read/write, Tag.__bool__), Model/Path.v (tag_request_path).
   The peer ([peer]: replies by request id; any number of service replies per multi-service packet) is
   universally quantified; isolation is stated for peers whose reply to a service depends on that
   service request only ([peer_of f], [wpeer_of f g]). *)
From Coq Require Import String.
From PV Require Import Base.Bytes Base.Proto Base.Res Base.PyStr Gen.LogixParseGen.
From PV Require Import Model.LogixParse Model.LogixPlan Model.Path Model.LogixResults.
From PV Require Import Proofs.PlanP Proofs.LogixParseP Proofs.ResultsP Proofs.ResultsW.
Open Scope Z_scope.

Definition no_req : request := ReqOther TypeError.
Definition no_tag : tag := exc_tag no_req TypeError.

(* (T) A Tag is truthy exactly when its value is not None and its error is None *)
Definition C03_truthy : Prop :=
  forall t, truthy t = true <-> (val_is_none (t_value t) = false /\ t_error t = None).

(* (E) no exception: read and write return, for every configuration, tag database, peer, request list *)
Definition C03_no_exception : Prop :=
  (forall c db P reqs, exists r, run_read c db P reqs = Ok r)
  /\ (forall enc c db P tvs, exists r, run_write enc c db P tvs = Ok r).

(* (S) n = 1 -> a single Tag, otherwise a list of exactly n (n = 0 and duplicates included), any peer *)
Definition C03_shape : Prop :=
  (forall c db P reqs r, run_read c db P reqs = Ok r ->
     length (results_of r) = length reqs
     /\ (length reqs = 1%nat -> exists t, r = ROne t)
     /\ (length reqs <> 1%nat -> exists l, r = RList l /\ length l = length reqs))
  /\ (forall enc c db P tvs r, run_write enc c db P tvs = Ok r ->
     length (results_of r) = length tvs
     /\ (length tvs = 1%nat -> exists t, r = ROne t)
     /\ (length tvs <> 1%nat -> exists l, r = RList l /\ length l = length tvs)).

(* (N) the k-th result carries the k-th request's name: the request itself on a falsy result, the
   request without its {n} suffix otherwise (in particular whenever it is truthy) — any peer *)
Definition C03_names : Prop :=
  (forall c db P reqs r, run_read c db P reqs = Ok r -> forall k, (k < length reqs)%nat ->
     let t := nth k (results_of r) no_tag in let rq := nth k reqs no_req in
     (t_tag t = rq /\ truthy t = false) \/ (exists s, rq = ReqText s /\ t_tag t = ReqText (drop_count s)))
  /\ (forall enc c db P tvs r, run_write enc c db P tvs = Ok r -> forall k, (k < length tvs)%nat ->
     let t := nth k (results_of r) no_tag in let rq := fst (nth k tvs dflt_tv) in
     (t_tag t = rq /\ truthy t = false) \/ (exists s, rq = ReqText s /\ t_tag t = ReqText (drop_count s))).

(* (F) requests that cannot succeed yield a falsy Tag with a non-empty error *)
Definition C03_invalid_falsy : Prop :=
  (* unknown tags and members ARE parse failures *)
  (forall db m s base attrs,
     ends_with [c_rbrace] s && contains_chr c_lbrace s = false -> split_chr c_dot s = base :: attrs ->
     starts_with s_Program base = false -> lookup (strip_array base) db = None ->
     exists e, parse_tag_request_ex db m s = inr e /\ (e = PE_NoTag (strip_array base) \/ exists t, e = PE_Parse ValueError t))
  /\ (forall db m s base mem t,
     ends_with [c_rbrace] s && contains_chr c_lbrace s = false -> split_chr c_dot s = [base; mem] ->
     starts_with s_Program base = false -> isdigit mem = false ->
     lookup (strip_array base) db = Some t -> ti_struct t = true -> lookup (strip_array mem) (ti_members t) = None ->
     parse_tag_request_ex db m s = inr (PE_NoTag (strip_array mem)))
  (* read: a parse failure of request k, or a packet that cannot be built (an index that is not a number
     or not a UDINT, an element count that is not a UINT): Tag(request, None, None, error), any peer *)
  /\ (forall c db P reqs r, run_read c db P reqs = Ok r -> forall k, (k < length reqs)%nat ->
     let t := nth k (results_of r) no_tag in let rq := nth k reqs no_req in
     (forall e, parse_request_obj db RwRead rq = inr e ->
        t = mkTag rq VNone None (Some (perr_text e)) /\ truthy t = false /\ perr_text e <> [])
     /\ (forall p e, parse_request_obj db RwRead rq = inl p -> read_msg_len c p = Err e ->
        t = build_err_tag rq err_build e /\ truthy t = false))
  /\ (forall rq pre e, truthy (build_err_tag rq pre e) = false /\ t_tag (build_err_tag rq pre e) = rq
        /\ exists txt, t_error (build_err_tag rq pre e) = Some txt /\ txt <> [])
  (* a controller error status (index / count out of range, any injected status) for request k (read) *)
  /\ (forall c db f reqs r k p m, (k < length reqs)%nat ->
     run_read c db (peer_of f (parse_requested_tags db RwRead reqs)) reqs = Ok r ->
     parse_request_obj db RwRead (nth k reqs no_req) = inl p -> read_msg_len c p = Ok m -> rp_ok (f p) = false ->
     nth k (results_of r) no_tag = mkTag (ReqText (user_tag p)) VNone None (Some (rp_error (f p))))
  (* write: a parse failure; a value that cannot be encoded (wrong type, too short, ...); a packet that
     cannot be built (bad index / count, a bit of a non-elementary type, a bit number outside the type) — any peer *)
  /\ (forall enc c db P tvs r, run_write enc c db P tvs = Ok r -> forall k, (k < length tvs)%nat ->
     let t := nth k (results_of r) no_tag in let rq := fst (nth k tvs dflt_tv) in
     let v := snd (nth k tvs dflt_tv) in let multi := uses_multi c (length tvs) in
     (forall e, parse_request_obj db RwWrite rq = inr e ->
        t = mkTag rq VNone None (Some (perr_text e)) /\ truthy t = false /\ perr_text e <> [])
     /\ (forall p, parse_request_obj db RwWrite rq = inl p -> is_bit_write p = false -> encode_value enc p v = None ->
           t = mkTag rq VNone None (Some (enc_err_text multi)) /\ truthy t = false /\ enc_err_text multi <> [])
     /\ (forall p e, parse_request_obj db RwWrite rq = inl p -> is_bit_write p = true -> rmw_build c p = Err e ->
           t = build_err_tag rq (build_prefix multi) e /\ truthy t = false)
     /\ (forall p n p' e, parse_request_obj db RwWrite rq = inl p -> is_bit_write p = false ->
           encode_value enc p v = Some (n, p') -> write_msg_len c p' n = Err e ->
           t = build_err_tag rq (build_prefix multi) e /\ truthy t = false))
  (* ... in particular a BOOL-array write that does not start on a DWORD boundary cannot be encoded ... *)
  /\ (forall enc p v, uv_bytes v = None -> is_dword_name (tag_info p) = true ->
     or0 (bit p) mod dword_bits <> 0 -> encode_value enc p v = None)
  (* ... and a bit write to a non-elementary type, or of a bit number outside the type, cannot be built *)
  /\ (forall c p,
     (rmw_mask_size (tag_info p) = None -> exists e, rmw_build c p = Err e)
     /\ (forall z, rmw_mask_size (tag_info p) = Some z -> is_dword_name (tag_info p) = false -> z * 8 <= or0 (bit p) ->
           exists e, rmw_build c p = Err e))
  (* write: a controller error status for the service carrying the request *)
  /\ (forall enc f g c m tv p,
     (is_bit_write p = true -> rmw_build c p = Ok tt -> rp_ok (g (plc_tag p)) = false ->
        let t := write_outcome enc f g c m tv (inl p) in
        t_tag t = ReqText (user_tag p) /\ t_error t = Some (rp_error (g (plc_tag p))) /\ truthy t = false)
     /\ (forall n p' z, is_bit_write p = false -> encode_value enc p (snd tv) = Some (n, p') -> write_msg_len c p' n = Ok z ->
        rp_ok (f p' (snd tv)) = false ->
        let t := write_outcome enc f g c m tv (inl p) in
        t_tag t = ReqText (user_tag p) /\ t_error t = Some (rp_error (f p' (snd tv))) /\ truthy t = false)).

(* (I) against a peer that answers each service by itself, the result list is a MAP over the requests
   of a function of the single request (so the k-th result answers the k-th request and is the same
   whatever the other requests are), and equals the outcome of the request issued alone *)
Definition C03_isolation : Prop :=
  (forall c db f reqs r,
     run_read c db (peer_of f (parse_requested_tags db RwRead reqs)) reqs = Ok r ->
     results_of r = map (fun rq => read_outcome c f rq (parse_request_obj db RwRead rq)) reqs)
  /\ (forall c db f reqs r k r1, (k < length reqs)%nat ->
     run_read c db (peer_of f (parse_requested_tags db RwRead reqs)) reqs = Ok r ->
     run_read c db (peer_of f (parse_requested_tags db RwRead [nth k reqs no_req])) [nth k reqs no_req] = Ok r1 ->
     r1 = ROne (nth k (results_of r) no_tag))
  /\ (forall enc f g c db tvs r,
     run_write enc c db (wpeer_of enc f g c db tvs) tvs = Ok r ->
     results_of r = map (fun tv => write_outcome enc f g c (uses_multi c (length tvs)) tv (parse_request_obj db RwWrite (fst tv))) tvs)
  /\ (forall enc f g c db tvs k r r1, (k < length tvs)%nat ->
     run_write enc c db (wpeer_of enc f g c db tvs) tvs = Ok r ->
     run_write enc c db (wpeer_of enc f g c db [nth k tvs dflt_tv]) [nth k tvs dflt_tv] = Ok r1 ->
     exists t1, r1 = ROne t1 /\ same_outcome (nth k (results_of r) no_tag) t1).

Definition C03_full : Prop :=
  C03_truthy /\ C03_no_exception /\ C03_shape /\ C03_names /\ C03_invalid_falsy /\ C03_isolation.

Theorem C03_holds : C03_full.
Proof.
  split; [exact tag_truthy_iff|].
  split; [split; [exact read_no_exception | exact write_no_exception]|].
  split; [split; [exact read_result_shape | exact write_result_shape]|].
  split; [split; [exact read_result_names | exact write_result_names]|].
  split.
  { split; [exact unknown_tag_is_reported|]. split; [exact unknown_member_is_reported|].
    split; [exact read_parse_error_falsy|]. split; [exact build_err_tag_falsy|]. split; [exact read_controller_error_falsy|].
    split; [exact write_invalid_falsy|]. split; [exact misaligned_bool_write|]. split; [exact (rmw_build_rejects (fun _ _ => None))|].
    exact write_outcome_controller_error. }
  split; [exact read_results_map|]. split; [exact read_isolation|].
  split; [exact write_results_map | exact write_isolation].
Qed.
Print Assumptions C03_holds.

(* ------------------------------------------------------------------ non-vacuity *)
Definition db0 : tagdb :=
  [ (zs_of_string "a"%string, TagInfo false (zs_of_string "DINT"%string) (Some 7) [] None 4 0 None []);
    (zs_of_string "arr"%string, TagInfo false (zs_of_string "DINT"%string) (Some 9) [10] None 4 0 None []);
    (zs_of_string "s"%string, TagInfo true (zs_of_string "udt"%string) (Some 11) [] None 8 1234 None
                        [(zs_of_string "m"%string, TagInfo false (zs_of_string "INT"%string) None [] None 2 0 None [])]) ].
Definition cfg0 : cfg := mkCfg 4000 false true.
Definition peer0 : peer := mkPeer (fun _ => mkReply true (VInt 5) (Some (zs_of_string "DINT"%string)) [])
                                  (map (fun _ => mkReply true (VInt 5) (Some (zs_of_string "DINT"%string)) []))
                                  (fun _ => None).
Definition rq (s : String.string) : request := ReqText (zs_of_string s).
Definition uv (k : Z) : uval := mkUval k false true None.
Definition enc0 (p : parsed) (u : uval) : option Z := Some 4.

(* the inputs on which the code used to raise (before 937b677 / 5870be8) now fail alone *)
Example C03_former_witnesses :
  (exists r, run_read cfg0 db0 peer0 [rq "a"%string; rq "a["%string; rq "arr{70000}"%string; rq "arr[-1]"%string] = Ok r
      /\ map truthy (results_of r) = [true; false; false; false])
  /\ (exists r, run_write enc0 cfg0 db0 peer0 [(rq "a"%string, uv 0); (rq "s.3"%string, uv 1); (rq "a.99"%string, uv 2); (rq "a.40"%string, uv 3); (rq "a.3"%string, uv 4)] = Ok r
      /\ map truthy (results_of r) = [true; false; false; false; true])
  /\ (exists r, run_write enc0 (mkCfg 4000 true true) db0 peer0 [(rq "a.1"%string, uv 0); (rq "a.2"%string, uv 1)] = Ok r
      /\ map truthy (results_of r) = [true; true]).
Proof. repeat split; eexists; split; vm_compute; reflexivity. Qed.

(* a mixed read (valid, unknown tag, element range, duplicate, controller error for one index) and a
   mixed write with two bit writes merged into one read-modify-write *)
Definition f0 (p : parsed) : reply :=
  if text_eqb (plc_tag p) (zs_of_string "arr[99]"%string) then mkReply false VNone None (zs_of_string "out of range"%string)
  else mkReply true (if elements p =? 1 then VInt 5 else VList [VInt 1; VInt 2]) (Some (zs_of_string "DINT"%string)) [].
Definition reqs0 := [rq "a"%string; rq "nosuch"%string; rq "arr[3]{2}"%string; rq "a"%string; rq "arr[99]"%string].
Example C03_nonvacuous_read :
  exists r, run_read cfg0 db0 (peer_of f0 (parse_requested_tags db0 RwRead reqs0)) reqs0 = Ok r
    /\ map truthy (results_of r) = [true; false; true; true; false]
    /\ map t_tag (results_of r) = [rq "a"%string; rq "nosuch"%string; rq "arr[3]"%string; rq "a"%string; rq "arr[99]"%string].
Proof. eexists. split; [vm_compute; reflexivity|]. split; vm_compute; reflexivity. Qed.

Definition tvs0 := [(rq "a"%string, uv 0); (rq "a.3"%string, uv 1); (rq "nosuch"%string, uv 2); (rq "a.5"%string, uv 3)].
Example C03_nonvacuous_write :
  let g0 := fun _ : text => mkReply true VNone None [] in
  let fw := fun (_ : parsed) (_ : uval) => mkReply true VNone None [] in
  fst (write_build enc0 cfg0 (combine (parse_requested_tags db0 RwWrite (map fst tvs0)) (map snd tvs0)))
    = [PMulti [0]; PRmw (-1) [1; 3]]
  /\ exists r, run_write enc0 cfg0 db0 (wpeer_of enc0 fw g0 cfg0 db0 tvs0) tvs0 = Ok r
       /\ map truthy (results_of r) = [true; true; false; true].
Proof. cbn zeta. split; [vm_compute; reflexivity|]. eexists. split; vm_compute; reflexivity. Qed.
