(* Props/C19.v — code tables are total, bidirectional, case-insensitive lookups.
   Statement + exact + Print Assumptions only.  The tables are Gen/Tables.v, Gen/Types.v and
   Gen/Status.v, regenerated from /repo on every run. *)
From PV Require Import Base.Bytes Base.Proto Model.EnumMapDefs Model.EnumMap Proofs.EnumMapP Proofs.C19P.
From PV Require Import Gen.Tables Gen.Types Gen.Status.
Open Scope Z_scope.

Definition C19_full : Prop :=
  (* every exported EnumMap table *)
  (forall tn t, In (tn, t) all_tables ->
     (* each member name, in ANY letter case, resolves to its value by item access and by get, and is a member *)
     (forall n v s, In (n, v) (t_members t) -> lower s = lower n ->
        getitem type_codes t (KStr s) = Some v /\ get type_codes t (KStr s) None = Some v
        /\ contains type_codes t (KStr s) = true)
     (* each code resolves back to a member name that carries that code *)
     /\ (t_bidir t = true -> forall n v, In (n, v) (t_members t) ->
           exists n' v', getitem type_codes t (vkey type_codes t v) = Some (KStr n')
                         /\ getitem type_codes t (KStr n') = Some v'
                         /\ vkey type_codes t v' = vkey type_codes t v
                         /\ mem_name (t_members t) (lower n') = true)
     (* membership, get and item access agree on every key *)
     /\ (forall k, contains type_codes t k = true <-> getitem type_codes t k <> None)
     /\ (forall k, get type_codes t k None = getitem type_codes t k)
     /\ (forall k d, getitem type_codes t k = None -> get type_codes t k (Some d) = Some (caps t d)))
  (* data-type codes resolve to the type that carries that code *)
  /\ (forall n ty, In (n, KObj ty) (t_members tbl_DataTypes) ->
        exists c ty', code_of type_codes ty = Some c
                      /\ get_type type_codes tbl_DataTypes c = Some (KObj ty') /\ code_of type_codes ty' = Some c)
  (* a text for every status byte, falling back to a message containing the hex code *)
  /\ (forall s, 0 <= s < 256 ->
        get_service_status service_status s <> []
        /\ (ilookup service_status s = None ->
              contains_sub (hex_fixed 2 s) (get_service_status service_status s) = true)).

Theorem C19_holds : C19_full.
Proof. exact C19_all. Qed.
Print Assumptions C19_holds.

(* non-vacuity: the tables are inhabited and a concrete mixed-case lookup is covered *)
Example C19_nonvacuous :
  (length all_tables >= 10)%nat /\
  getitem type_codes tbl_Services (KStr [82; 101; 65; 100; 95; 116; 65; 103] (* "ReAd_tAg" *)) = Some (KBytes [76]) /\
  getitem type_codes tbl_Services (KBytes [76]) = Some (KStr [114; 101; 97; 100; 95; 116; 97; 103]).
Proof. vm_compute. repeat split; lia. Qed.
