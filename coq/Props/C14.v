(* Props/C14.v — generic messaging delivers the request verbatim and returns the answer.

   Model: Model/Generic.v (generic_message and the helpers built on it).  Independent oracle:
   the reference target's own parsers (Spec/EncapParser.v, Spec/MRParser.v) composed as the target
   composes them (Spec/GenericSpec.v spec_extract), its reply builders and its wall-clock object
   (Spec/TargetCore.v).  Lemmas: Proofs/GenericPath.v, GenericFrame.v, GenericDelivery.v,
   GenericReply.v, GenericTime.v.

   The three findings this vertical reproduced on the real code were repaired in /repo and the model
   follows the repaired code (known_findings/C14.jsonl, `fixed:` lines):
     1007c7c  the DEFAULT route_path=True appended the connection route on direct UCMM  [C14_default_route_delivered]
     960b320  an Unconnected Send without a route lacked the mandatory route fields     [C14_no_route_delivered]
     9084804  get_plc_time raised OverflowError beyond datetime.max                      [C14_time_holds]
   Outside the domain, by design: an EXPLICITLY given route on direct UCMM is appended to the request
   data (the library's Forward Open / Forward Close put their connection path there) — no route can
   be asked for without an Unconnected Send: [C14_explicit_ucmm_route_appended]. *)
From Coq Require Import String ZifyBool.
From PV Require Import Base.Bytes Base.BytesLemmas Base.Res Base.Proto Base.PyStr.
From PV Require Import Gen.PathTables Gen.Consts Gen.GenericFacts Model.EnumMapDefs Model.Path Model.Generic.
From PV Require Model.CodecPrim Model.Codec Model.Reply Model.Seq.
From PV Require Import Spec.EncapParser Spec.MRParser Spec.TargetIface Spec.TargetCore Spec.GenericSpec.
From PV Require Import Proofs.TargetCoreP Proofs.GenericPath Proofs.GenericFrame Proofs.GenericDelivery Proofs.GenericReply Proofs.GenericTime.
Open Scope Z_scope.
Ltac Zify.zify_post_hook ::= Z.to_euclidean_division_equations.

(* ================================================================ 1. delivery *)
(* For every driver with an open connection [drv_ok], every service code 0..127 (int or one byte),
   class / attribute ids below 2^16 and instance ids below 2^32 (int, or bytes of length 1/2(/4)),
   request data of ANY length up to 60000 bytes, in each of the three modes, with route_path given as
   True / False / str / segments / bytes resolving to no route or to a well-formed encoded route
   [wf_call] — a route being something only an Unconnected Send can carry [C14_domain]: the frame the
   model emits is accepted by the target's strict frame parser and what the target's message router
   is asked — transport, session, service, class, instance, attribute, data, and for an Unconnected
   Send priority, time-out ticks and the route path — is what the caller asked [asked]. *)
Definition C14_domain (d : drv) (a : gm_args) (svc : Z) (rt : bytes) : Prop :=
  wf_call d a svc rt /\ (a_connected a = false -> a_ucsend a = false -> rt = []).

Definition C14_full : Prop :=
  forall d a svc rt, C14_domain d a svc rt ->
    exists d' fr, gm_request d a = (d', Done fr) /\ spec_extract fr = Some (asked d a svc rt).

Theorem C14_holds : C14_full.
Proof.
  intros d a svc rt [W Hu]. apply delivered_verbatim; [exact W |].
  unfold delivery_guard. destruct (a_connected a) eqn:Hc; [reflexivity |].
  destruct (a_ucsend a) eqn:Hs; [reflexivity |]. rewrite (Hu eq_refl eq_refl). reflexivity.
Qed.
Print Assumptions C14_holds.

(* outside the domain, by design: an EXPLICITLY given route on direct UCMM is appended after the
   request data (the library's Forward Open / Forward Close calls put their connection path there) *)
Theorem C14_explicit_ucmm_route_appended : forall d a svc rt,
  wf_call d a svc rt -> a_connected a = false -> a_ucsend a = false -> route_wf rt = true ->
  exists d' fr, gm_request d a = (d', Done fr)
    /\ spec_extract fr = Some {| dl_mode := MUcmm; dl_session := d_session d; dl_service := svc;
                                 dl_class := lval_value (a_class a); dl_instance := lval_value (a_instance a);
                                 dl_attribute := att_value (a_attribute a); dl_data := a_data a ++ rt |}.
Proof. exact ucmm_route_appended. Qed.
Print Assumptions C14_explicit_ucmm_route_appended.

(* the default route_path=True on direct UCMM resolves to NO route (the connection's route is used
   only inside an Unconnected Send): such calls are in the domain and delivered *)
Theorem C14_default_route_delivered : forall d a svc rt,
  wf_call d a svc rt -> a_connected a = false -> a_ucsend a = false -> a_route a = default_route ->
  rt = [] /\ C14_domain d a svc rt
  /\ exists d' fr, gm_request d a = (d', Done fr) /\ spec_extract fr = Some (asked d a svc rt).
Proof.
  intros d a svc rt W Hc Hu Hr. destruct (wf_route _ _ _ _ W Hc) as [Hrt _].
  rewrite Hr, Hu in Hrt. change default_route with RTrue in Hrt. cbn [resolve_route] in Hrt. injection Hrt as <-.
  assert (D : C14_domain d a svc []) by (split; [exact W | reflexivity]).
  split; [reflexivity |]. split; [exact D |]. apply C14_holds; assumption.
Qed.
Print Assumptions C14_default_route_delivered.

(* an Unconnected Send asked for WITHOUT a route (route_path False / [] / b""): the embedded request is
   delivered through a wrapper whose route path is empty (size 0, reserved 0) *)
Theorem C14_no_route_delivered : forall d a svc,
  wf_call d a svc [] -> a_connected a = false -> a_ucsend a = true ->
  exists d' fr, gm_request d a = (d', Done fr) /\ spec_extract fr = Some (asked d a svc [])
    /\ dl_mode (asked d a svc []) = MUcsend 10 5 [].
Proof.
  intros d a svc W Hc Hu. destruct (delivered_ucsend_noroute d a svc W Hc Hu) as (d' & fr & H1 & H2).
  exists d', fr. split; [exact H1 |]. split; [exact H2 |]. unfold asked. rewrite Hc, Hu. reflexivity.
Qed.
Print Assumptions C14_no_route_delivered.

(* ---- witnesses *)
Definition d_ex (path : list seg) : drv :=
  {| d_session := 16777217; d_cid := [1; 0; 193; 0]; d_connected := true; d_context := driver_context;
     d_option := driver_option; d_seq := 1; d_cip_path := path; d_micro800 := false |}.
Definition a_ex (connected ucsend : bool) (r : route_arg) (data : bytes) : gm_args :=
  {| a_service := SInt 75; a_class := LInt 768; a_instance := LInt 1; a_attribute := None; a_data := data;
     a_dt := None; a_name := gm_default_name; a_connected := connected; a_ucsend := ucsend; a_route := r |}.
Definition bp (slot : Z) : seg := Port (inr (T "bp")) (LinkInt slot).

Ltac wf_concrete :=
  constructor;
  [ reflexivity
  | first [intros H; vm_compute in H; discriminate H | intros _; split; [reflexivity | vm_compute; split; discriminate]]
  | reflexivity | reflexivity | reflexivity | reflexivity
  | split; [reflexivity | vm_compute; discriminate]
  | first [intros H; vm_compute in H; discriminate H
          | intros _; split; [reflexivity | first [left; reflexivity | right; reflexivity]]]
  | first [intros H; vm_compute in H; discriminate H | intros _ H; vm_compute in H; discriminate H
          | intros _ _ [H _]; vm_compute in H; discriminate H] ].

(* the former 960b320 witness: an Unconnected Send asked for without a route *)
Example wf_noroute : wf_call (d_ex [bp 2]) (a_ex false true RFalse [97; 98; 99]) 75 [].
Proof. wf_concrete. Qed.
Example noroute_now_delivered :
  exists fr, snd (gm_request (d_ex [bp 2]) (a_ex false true RFalse [97; 98; 99])) = Done fr
    /\ option_map (fun dl => (dl_mode dl, dl_data dl)) (spec_extract fr) = Some (MUcsend 10 5 [], [97; 98; 99]).
Proof. eexists. split; vm_compute; reflexivity. Qed.

(* outside the domain: an explicit route on direct UCMM arrives as request data after "abc" *)
Example witness_explicit_route :
  exists fr, snd (gm_request (d_ex []) (a_ex false false (RStr (T "bp/3")) [97; 98; 99])) = Done fr
    /\ option_map dl_data (spec_extract fr) = Some [97; 98; 99; 1; 0; 1; 3].
Proof. eexists. split; vm_compute; reflexivity. Qed.

(* the former F13 witness: generic_message(connected=False) with nothing else said — "abc" arrives alone *)
Example default_route_now_delivered :
  exists fr, snd (gm_request (d_ex [bp 2]) (a_ex false false default_route [97; 98; 99])) = Done fr
    /\ option_map dl_data (spec_extract fr) = Some [97; 98; 99].
Proof. eexists. split; vm_compute; reflexivity. Qed.

(* LogixDriver.get_plc_info on a Micro800 inside open(): a plain Get_Attributes_All of the Identity object *)
Example micro800_plc_info :
  let d := {| d_session := 16777217; d_cid := []; d_connected := false; d_context := driver_context;
              d_option := driver_option; d_seq := 1; d_cip_path := [bp 0]; d_micro800 := true |} in
  exists a fr, snd (get_plc_info_request d) = Done (a, fr)
    /\ option_map (fun dl => (dl_mode dl, dl_service dl, dl_class dl, dl_instance dl, dl_data dl)) (spec_extract fr)
       = Some (MUcmm, 1, 1, 1, []).
Proof. cbv zeta. eexists _, _. split; vm_compute; reflexivity. Qed.

(* non-vacuity: the hypotheses are inhabited in every mode, with odd and even data, ids of every width,
   a backplane route and a two-hop route with an IP link *)
Example wf_connected : wf_call (d_ex [bp 2]) (a_ex true false default_route [1; 2; 3]) 75 [].
Proof. wf_concrete. Qed.
Example wf_ucmm_noroute : wf_call (d_ex [bp 2]) (a_ex false false RFalse [1; 2]) 75 [].
Proof. wf_concrete. Qed.
Example wf_ucmm_default : wf_call (d_ex [bp 2]) (a_ex false false default_route [1; 2]) 75 [].
Proof. wf_concrete. Qed.
Example wf_ucsend_slot : wf_call (d_ex [bp 2]) (a_ex false true default_route [1; 2; 3]) 75 [1; 0; 1; 2].
Proof. wf_concrete. Qed.
Example wf_ucsend_hops :
  wf_call (d_ex [])
    {| a_service := SBytes [14]; a_class := LBytes [1; 3]; a_instance := LInt 70000; a_attribute := Some (LInt 300);
       a_data := [9; 8; 7; 6]; a_dt := None; a_name := gm_default_name; a_connected := false; a_ucsend := true;
       a_route := RStr (T "bp/1/enet/10.0.0.5") |}
    14 [6; 0; 1; 1; 18; 8; 49; 48; 46; 48; 46; 48; 46; 53].
Proof. wf_concrete. Qed.
Example domain_examples :
  C14_domain (d_ex [bp 2]) (a_ex true false default_route [1; 2; 3]) 75 []
  /\ C14_domain (d_ex [bp 2]) (a_ex false false default_route [1; 2]) 75 []
  /\ C14_domain (d_ex [bp 2]) (a_ex false true default_route [1; 2; 3]) 75 [1; 0; 1; 2]
  /\ C14_domain (d_ex [bp 2]) (a_ex false true RFalse [97; 98; 99]) 75 [].
Proof.
  split; [split; [exact wf_connected | reflexivity] |].
  split; [split; [exact wf_ucmm_default | reflexivity] |].
  split; [split; [exact wf_ucsend_slot | intros _ H; discriminate H] |].
  split; [exact wf_noroute | reflexivity].
Qed.

(* ================================================================ 2. the answer is returned *)
(* On the reply frame the target builds for general status 0 (either transport): the Tag's value is
   the reply data unchanged when no data type is given, its decoding otherwise (a decoding failure
   gives a falsy Tag with a parse error). *)
Theorem C14_reply_returned : forall (a : gm_args) ses ctx toid seq svc data, blen ctx = 8 ->
  gm_response a (target_reply (a_connected a) ses ctx toid seq svc (mr_ok data))
  = Ok {| g_name := a_name a;
          g_value := match a_dt a with
                     | None => Some (GBytes data)
                     | Some t => match Codec.decode t data with Ok (v, _) => Some (GVal v) | Err _ => None end
                     end;
          g_type := a_dt a;
          g_error := match a_dt a with
                     | None => None
                     | Some t => match Codec.decode t data with Ok _ => None | Err _ => Some EParse end
                     end |}.
Proof. exact reply_returned_ok. Qed.
Print Assumptions C14_reply_returned.

(* A refused request (general status 1..255; over a connection not 6, which the connected response
   class accepts as a partial transfer): a falsy Tag whose error starts with the text of the status. *)
Theorem C14_reply_refused : forall (a : gm_args) ses ctx toid seq svc st ext data,
  blen ctx = 8 -> 0 < st < 256 -> zlen ext < 256 -> (a_connected a = true -> st <> 6) ->
  exists txt v,
    gm_response a (target_reply (a_connected a) ses ctx toid seq svc {| rp_status := st; rp_ext := ext; rp_data := data |})
    = Ok {| g_name := a_name a; g_value := v; g_type := a_dt a; g_error := Some (EText txt) |}
    /\ starts_with (Reply.get_service_status_z st) txt = true
    /\ gtag_truthy {| g_name := a_name a; g_value := v; g_type := a_dt a; g_error := Some (EText txt) |} = false.
Proof.
  intros a ses ctx toid seq svc st ext data H1 H2 H3 H4.
  destruct (reply_refused a ses ctx toid seq svc st ext data H1 H2 H3 H4) as (txt & v & Hr & Hs & _).
  exists txt, v. split; [exact Hr |]. split; [exact Hs |]. unfold gtag_truthy. cbn [g_value g_error]. destruct v; reflexivity.
Qed.
Print Assumptions C14_reply_refused.

Example reply_examples :
  gm_response (a_ex true false default_route []) (target_reply true 7 driver_context 9 1 75 (mr_ok [5; 6; 7]))
  = Ok {| g_name := gm_default_name; g_value := Some (GBytes [5; 6; 7]); g_type := None; g_error := None |}
  /\ option_map g_error (match gm_response (a_ex false false RFalse []) (target_reply false 7 driver_context 9 1 75 (mr_error 8 [])) with Ok t => Some t | Err _ => None end)
     = Some (Some (EText (T "Service not supported"))).
Proof. split; vm_compute; reflexivity. Qed.

(* ================================================================ 3. the time written is the time reported *)
(* every ULINT microsecond count: set_plc_time(us) makes the target's clock object hold us and
   get_plc_time reads us back from that object's reply (beyond datetime.max without the datetime /
   string renderings) *)
Definition C14_time_full : Prop :=
  forall d (b : basic_state) us,
    drv_ok d = true -> d_connected d = true -> 1 <= d_seq d <= 65535 -> 0 <= us < U64 ->
    clock_roundtrip d b us
    /\ exists dt, time_result us = Ok {| tt_microseconds := Some us; tt_datetime := dt; tt_error := None |}.

Theorem C14_time_holds : C14_time_full.
Proof.
  intros d b us Hd Hc Hs Hu. split; [apply time_roundtrip; assumption |]. eexists. reflexivity.
Qed.
Print Assumptions C14_time_holds.

Definition time_tag_of (us : Z) : res time_tag := Ok {| tt_microseconds := Some us; tt_datetime := true; tt_error := None |}.

Example time_beyond_datetime_max :
  time_result (2 ^ 63) = Ok {| tt_microseconds := Some (2 ^ 63); tt_datetime := false; tt_error := None |}.
Proof. reflexivity. Qed.

(* ================================================================ the pieces fit the target's state machine *)
(* a concrete run through [tstep] (the state of Proofs/TargetCoreP.v: session registered, Large
   Forward Open accepted): set_plc_time then get_plc_time, and an Unconnected Send with an odd and an
   even payload; the request events the target logs are the requests asked *)
Definition run2 (st : tstate basic_state) (f1 f2 : bytes) :=
  let '(st1, r1) := tstep basic_handler st f1 in
  let '(st2, r2) := tstep basic_handler st1 f2 in (st2, r1, r2).
Definition requests_logged (st : tstate basic_state) : list (transport * option Z * Z * bytes * bytes) :=
  flat_map (fun e => match e with EvRequest t sq r => [(t, sq, mr_service r, mr_path r, mr_data r)] | _ => [] end) (log_chrono st).

Definition new_requests (st0 st : tstate basic_state) := skipn (List.length (requests_logged st0)) (requests_logged st).

Definition e2e_time (us : Z) :=
  let d := d_ex [bp 0] in
  match set_plc_time_request d us with
  | (d1, Done (a1, f1)) =>
      match get_plc_time_request d1 with
      | (d2, Done (a2, f2)) =>
          match run2 ex_state2 f1 f2 with
          | (st2, Some r1, Some r2) =>
              Some (bs_clock_us (t_app st2),
                    option_map gtag_truthy (match set_plc_time_response a1 r1 with Ok t => Some t | Err _ => None end),
                    get_plc_time_response a2 r2, new_requests ex_state2 st2)
          | _ => None
          end
      | _ => None
      end
  | _ => None
  end.

Example end_to_end_time :
  let us := 1700000000123456 in
  e2e_time us
  = Some (us, Some true, time_tag_of us,
          [(TConnected 1063, Some 1, 4, [32; 139; 36; 1], [1; 0; 6; 0] ++ le_enc 8 us);
           (TConnected 1063, Some 2, 3, [32; 139; 36; 1], [1; 0; 11; 0])]).
Proof. vm_compute. reflexivity. Qed.

Definition e2e_ucsend :=
  let d := d_ex [bp 2] in
  match gm_request d (a_ex false true default_route [111; 100; 100]) with
  | (d1, Done f1) =>
      match gm_request d1 (a_ex false true (RStr (T "bp/5")) [101; 118; 101; 110]) with
      | (d2, Done f2) =>
          match run2 ex_state2 f1 f2 with
          | (st2, Some r1, Some r2) =>
              Some (option_map g_value (match gm_response (a_ex false true default_route []) r1 with Ok t => Some t | Err _ => None end),
                    new_requests ex_state2 st2)
          | _ => None
          end
      | _ => None
      end
  | _ => None
  end.

Example end_to_end_ucsend :
  e2e_ucsend
  = Some (Some (Some (GBytes [111; 100; 100])),
          [(TUnconnSend [1; 2], None, 75, [33; 0; 0; 3; 36; 1], [111; 100; 100]);
           (TUnconnSend [1; 5], None, 75, [33; 0; 0; 3; 36; 1], [101; 118; 101; 110])]).
Proof. vm_compute. reflexivity. Qed.
