(* Props/C15.v — connection-path strings parse to the documented route.
   Statement + exact + Print Assumptions only.  Model: Model/ConnPath.v (parse_connection_path,
   parse_cip_route, CIPDriver.__init__) over Model/Path.v (PortSegment._encode, EPATH.encode).
   Independent oracle: Spec/ConnPathGrammar.v (route AST, [render], reference wire form from the CIP
   specification, total reference reader [ref_parse]).  [outcome s auto pl] = what a caller observes
   from parse_connection_path(s, auto) followed by PADDED_EPATH.encode(route, length=True,
   pad_length=pl): the exception, or (host, TCP port, route bytes). *)
From Coq Require Import String.
From PV Require Import Base.Bytes Base.Res Base.PyStr Model.Path Model.ConnPath Spec.ConnPathGrammar
     Proofs.ConnPathRef Proofs.ConnPathRender Proofs.C15P.
Open Scope Z_scope.

(* "every path string in the documented grammar yields the stated host, TCP port and route":
   every CIP port number 1..65535 (by name or number), every link 0..255 or dotted quad, the
   shortcuts; [fits]: the route has a wire form (always, up to 25 hops: C15_side_conditions) *)
Definition C15_sound : Prop :=
  forall a sp auto pl hs,
    wf_route a = true -> wf_spelling sp a = true -> hops_of auto (r_shape a) = Some hs ->
    fits hs = true ->
    outcome (render sp a) auto pl = inr (r_host a, r_tcp a, route_wire pl hs).

Definition C15_rest : Prop :=
  (* all spellings of the same route: identical route bytes (or the same exception) *)
  (forall a sp1 sp2 auto pl, wf_route a = true -> wf_spelling sp1 a = true -> wf_spelling sp2 a = true ->
     outcome (render sp1 a) auto pl = outcome (render sp2 a) auto pl)
  (* which drivers enable the bare-address and address/slot shortcuts (regenerated class flags) *)
  /\ (auto_slot_of CIPDriver = false /\ auto_slot_of LogixDriver = true /\ auto_slot_of SLCDriver = true)
  (* every string the reference reader puts in a rejection class (odd number of route segments,
     unknown port name, link out of range / not a link, invalid TCP port) is rejected with
     RequestError or DataError, and never yields route bytes *)
  /\ (forall s auto pl, must_reject (ref_parse auto s) = true ->
        (outcome s auto pl = inl RequestError \/ outcome s auto pl = inl DataError)
        /\ forall h t b, outcome s auto pl <> inr (h, t, b))
  (* with the exception the property names: at parse time for segment-count and TCP-port errors *)
  /\ (forall s auto, v_route (ref_parse auto s) = RouteReject OddSegments ->
        parse_connection_path s auto = Err RequestError)
  /\ (forall s auto, v_tcp (ref_parse auto s) = TcpBad -> parse_connection_path s auto = Err RequestError)
  /\ (forall s auto pl c, v_route (ref_parse auto s) = RouteReject c -> c <> OddSegments -> rejected s auto pl)
  (* a route that cannot be encoded yields no Forward Open path either *)
  /\ (forall segs pl e, encode_route segs pl = Err e -> forward_open_path segs pl = Err DataError)
  (* no silent corruption anywhere: whatever string is accepted has the reference host, and the
     reference TCP port and route bytes wherever the reference defines them *)
  /\ (forall s auto pl h t b, outcome s auto pl = inr (h, t, b) ->
        h = v_host (ref_parse auto s)
        /\ match v_tcp (ref_parse auto s) with
           | TcpNone => t = None | TcpOk p => t = Some p | TcpBad => False | TcpLenient => True end
        /\ match v_route (ref_parse auto s) with
           | RouteOk hs => fits hs = true -> b = route_wire pl hs
           | RouteReject _ => False
           | RouteUnspec => True
           end)
  (* converse: what is accepted is in the grammar (widened by the zones the property is silent on) *)
  /\ (forall s auto pl, accepts s auto pl -> in_grammar auto s = true)
  /\ (forall s auto pl, accepts s auto pl ->
        in_grammar_strict auto s = true \/ silent (ref_parse auto s) = true).

Definition C15_full : Prop := C15_sound /\ C15_rest.

Lemma C15_rest_holds : C15_rest.
Proof.
  repeat split.
  - exact spellings_agree.
  - exact (rejected_no_bytes s auto pl H).
  - exact (never_bytes_on_error s auto pl H).
  - exact odd_segments_rejected.
  - exact bad_tcp_port_rejected.
  - exact bad_hop_rejected.
  - exact forward_open_never_bytes_on_error.
  - exact (proj1 (accepted_is_reference s auto pl h t b H)).
  - exact (proj1 (proj2 (accepted_is_reference s auto pl h t b H))).
  - exact (proj2 (proj2 (accepted_is_reference s auto pl h t b H))).
  - exact accepts_in_grammar.
  - exact accepts_in_grammar_strict_partial.
Qed.

Theorem C15_holds : C15_full.
Proof. split; [exact parse_sound|exact C15_rest_holds]. Qed.
Print Assumptions C15_holds.

(* regression witness of the repaired defect (fix a95af7d): "h/15/1" uses the extended port
   identifier 0F 0F 00 (before the fix the code emitted 0F 01) *)
Example C15_port_15 :
  outcome [104; 47; 49; 53; 47; 49] false false = inr ([104], None, [2; 15; 15; 0; 1]).
Proof. vm_compute. reflexivity. Qed.

(* "for every call, whatever happened before": [outcome] is a Gallina function of the path string
   and the two flags only, so the model has no history to quantify over and the clause needs no
   theorem; it is a fact about the CODE (no memoisation, no shared mutable route list), tied by the
   harness's history probes (re-parse after the earlier result was mutated in place; a second driver
   after the first stripped its stored route as LogixDriver._initialize_driver does for a Micro800) *)
Remark C15_no_history : forall s s' auto auto' pl pl',
  s = s' -> auto = auto' -> pl = pl' -> outcome s auto pl = outcome s' auto' pl'.
Proof. intros; subst; reflexivity. Qed.

(* the drivers store what the parse returned *)
Theorem C15_driver_init : forall d a sp hs,
  wf_route a = true -> wf_spelling sp a = true -> hops_of (auto_slot_of d) (r_shape a) = Some hs ->
  fits hs = true ->
  exists segs, driver_init d (render sp a)
               = Ok (mkCfg (r_host a) (match r_tcp a with Some p => p | None => TCP_DEFAULT end) segs)
               /\ forall pl, encode_route segs pl = Ok (route_wire pl hs).
Proof.
  intros d a sp hs Hwf Hsp Hh Hf. now apply driver_init_sound.
Qed.
Print Assumptions C15_driver_init.

(* the rejection classes spelled out on the fields of the string, each universally quantified *)
Theorem C15_rejection_classes :
  (forall s auto, Nat.odd (List.length (route_fields s)) = true ->
     (auto = true -> List.length (route_fields s) <> 1%nat) ->
     parse_connection_path s auto = Err RequestError)
  /\ (forall s auto pl, Nat.even (List.length (route_fields s)) = true ->
        some_pair (fun p _ => match lookup p doc_port_names with Some _ => false | None => negb (isdigit p) end)
                  (route_fields s) = true -> rejected s auto pl)
  /\ (forall s auto pl, Nat.even (List.length (route_fields s)) = true ->
        some_pair (fun _ l => isdigit l && numeral_ok l && (255 <? dval l)) (route_fields s) = true ->
        rejected s auto pl)
  /\ (forall s auto pl, Nat.even (List.length (route_fields s)) = true ->
        some_pair (fun _ l => negb (isdigit l) && negb (existsb is_colon l) && negb (strict_quad l))
                  (route_fields s) = true -> rejected s auto pl)
  /\ (forall s pl l c, route_fields s = [l] -> classify_link l = LinkBad c -> rejected s true pl)
  /\ (forall s auto p, tcp_fields s = [p] -> isdigit p = true -> (dval p <= 0 \/ 65535 <= dval p) ->
        parse_connection_path s auto = Err RequestError)
  /\ (forall s auto p, tcp_fields s = [p] ->
        (existsb (fun c => negb (lenient_char c)) p = true \/ existsb is_ascii_digit p = false) ->
        parse_connection_path s auto = Err RequestError)
  /\ (forall s auto p, tcp_fields s = [p] -> existsb (fun c => c =? 45) p = true ->
        parse_connection_path s auto = Err RequestError)
  /\ (forall s auto p q r, tcp_fields s = p :: q :: r -> parse_connection_path s auto = Err RequestError).
Proof.
  repeat split.
  - exact odd_number_of_segments_rejected.
  - exact unknown_port_name_rejected.
  - exact link_out_of_range_rejected.
  - exact malformed_link_rejected.
  - exact bad_slot_shortcut_rejected.
  - exact tcp_port_out_of_range_rejected.
  - exact tcp_port_non_numeric_rejected.
  - exact tcp_port_negative_rejected.
  - exact several_colons_rejected.
Qed.
Print Assumptions C15_rejection_classes.

(* side conditions of the statements above, discharged for what the property quantifies over:
   every route of at most 25 hops fits a wire form; every IPv4 address is a well-formed link *)
Theorem C15_side_conditions :
  (forall hs, forallb wf_hop hs = true -> (List.length hs <= 25)%nat -> fits hs = true)
  /\ (forall a b c d, 0 <= a <= 255 -> 0 <= b <= 255 -> 0 <= c <= 255 -> 0 <= d <= 255 ->
        wf_link (Addr (addr_of_octets a b c d)) = true).
Proof. split; [exact short_routes_fit|exact addr_of_octets_wf]. Qed.
Print Assumptions C15_side_conditions.

(* the grammar and the reference reader are one specification: every rendered string is read back *)
Theorem C15_render_read_back : forall a sp auto,
  wf_route a = true -> wf_spelling sp a = true ->
  ref_parse auto (render sp a)
  = mkVerdict (r_host a) (tcp_reading (r_tcp a))
              (match hops_of auto (r_shape a) with Some hs => RouteOk hs | None => RouteReject OddSegments end).
Proof. exact ref_parse_render. Qed.
Print Assumptions C15_render_read_back.

(* the strict converse fails only inside the silent zones, e.g. "h:+80" *)
Theorem C15_strict_converse_refuted :
  ~ (forall s auto pl, accepts s auto pl -> in_grammar_strict auto s = true).
Proof.
  intros H. specialize (H [104; 58; 43; 56; 48] false false).
  assert (Ha : accepts [104; 58; 43; 56; 48] false false).
  { exists [104], (Some 80), [0]. vm_compute. reflexivity. }
  specialize (H Ha). vm_compute in H. discriminate.
Qed.
Print Assumptions C15_strict_converse_refuted.

(* non-vacuity: "plc1:0044818\backplane,02/enet\10.11.12.13,bp/0" read by a CIPDriver, and the
   two shortcuts read by a LogixDriver; a rejected string of each class *)
Definition ex_route : route_ast :=
  mkRoute (s2t "plc1"%string) (Some 44818)
          (Explicit [mkHop 1 (Slot 2); mkHop 2 (Addr (s2t "10.11.12.13"%string)); mkHop 1 (Slot 0)]).
Definition ex_spelling : spelling :=
  mkSp 2 [mkHopSp 92 (ByName (s2t "backplane"%string)) 44 1; mkHopSp 47 (ByName (s2t "enet"%string)) 92 0;
          mkHopSp 44 (ByName (s2t "bp"%string)) 47 0] 47 0.
Example C15_nonvacuous :
  wf_route ex_route = true /\ wf_spelling ex_spelling ex_route = true
  /\ render ex_spelling ex_route = s2t "plc1:0044818\backplane,02/enet\10.11.12.13,bp/0"%string
  /\ outcome (render ex_spelling ex_route) false false
     = inr (s2t "plc1"%string, Some 44818,
            [9; 1; 2; 18; 11] ++ s2t "10.11.12.13"%string ++ [0; 1; 0])
  /\ outcome (s2t "10.20.30.100"%string) true true = inr (s2t "10.20.30.100"%string, None, [1; 0; 1; 0])
  /\ outcome (s2t "10.20.30.100/3"%string) true true = inr (s2t "10.20.30.100"%string, None, [1; 0; 1; 3])
  /\ outcome (s2t "10.20.30.100/3"%string) false true = inl RequestError
  /\ outcome (s2t "h/backplan/1"%string) false true = inl DataError
  /\ outcome (s2t "h/bp/256"%string) false true = inl DataError
  /\ outcome (s2t "h:65535/bp/1"%string) false true = inl RequestError
  /\ must_reject (ref_parse false (s2t "h/backplan/1"%string)) = true.
Proof. vm_compute. repeat split; reflexivity. Qed.
