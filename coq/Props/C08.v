(* Props/C08.v — codec failures are DataError: never foreign, silent or non-terminating.
   Statements over the shared codec model (Model/Codec.v as of /repo bcb4254, after the codec fix
   wave; its primitives raise [Foreign] exactly where Python's do, its public wrappers sit where
   the code's do) + exact + Print Assumptions only.  The side conditions and spec-side notions
   ([bad], [announced], [be_ok], ...) are in Proofs/CodecErrDefs.v.

   What the fix wave repaired is now PROVED at full strength (no guard): no exception but DataError
   escapes any encode (F22, DATE_AND_TIME); no value from fewer bytes than the type / the prefix
   announces (F17); BufferEmptyError only at the end of the buffer (STRINGN "", n_bytes(0)); the
   unbounded array terminates over every element type (F18) and decodes whole elements exactly.
   Two clauses are still falsified by the code: arrays of bit strings accept too few bits silently,
   and Array(<length type>, T) over an element type of no size runs `count` rounds. *)
From Coq Require Import String.
From PV Require Import Base.Bytes Base.Res Base.Proto Gen.Types Model.Codec.
From PV Require Import Proofs.CodecErrDefs Proofs.CodecErrDec Proofs.CodecErrEnc Proofs.CodecErrArr Proofs.CodecErrAll.
Open Scope Z_scope.

(* ------------------------------------------------------------------ the statement at full strength *)
(* encode: bytes or DataError, from every type and every value *)
Definition encode_total_full : Prop := forall t v, lib_enc (encode t v).
(* a value clearly outside the domain raises DataError *)
Definition encode_rejects_full : Prop := forall t v, bad t v = true -> encode t v = Err DataError.
(* decode: a value, DataError or BufferEmptyError — in particular the call returns ([decode] maps
   a loop that outruns its fuel to a foreign marker) *)
Definition decode_errors_full : Prop := forall t bs, lib_dec (decode t bs).
Definition decode_all_terminates_full : Prop :=
  forall t fuel bs, (length bs < fuel)%nat -> decode_fuel fuel t bs <> DOutOfFuel.
(* BufferEmptyError only when no bytes remain.  [be_ok] is a well-formedness condition on type
   TERMS, not on the code: every StructTag inside the type has its members inside struct_size and
   cannot be decoded from nothing (it has a member of positive size, or a bit member) — what the
   Logix driver builds from a template. *)
Definition buffer_empty_only_at_start_full : Prop :=
  forall t fuel bs rest, be_ok t = true -> decode_fuel fuel t bs = DEmpty rest -> rest = [].
(* no value from fewer bytes than the type's width / the head of the buffer announces *)
Definition no_short_read_full : Prop :=
  forall t bs v rest k, be_ok t = true -> decode t bs = Ok (v, rest) -> announced t bs = Some k -> k <= zlen bs.
(* an unbounded array over a buffer made of whole elements — chunks that each decode to a value
   wherever they stand, none empty — with an element type that reports the exhausted buffer,
   decodes exactly those elements and consumes the buffer *)
Definition decode_all_exact_full : Prop :=
  forall e (items : list (bytes * val)),
    is_bits e = false ->
    (forall b v, In (b, v) items -> b <> [] /\ forall fuel tail, decode_fuel fuel e (b ++ tail) = DOk v tail) ->
    (forall fuel, decode_fuel fuel e [] = DEmpty []) ->
    decode (TArrAll e) (concat (map fst items)) = Ok (VList (map snd items), []).

Definition C08_full : Prop :=
  encode_total_full /\ encode_rejects_full /\ decode_errors_full /\ decode_all_terminates_full
  /\ buffer_empty_only_at_start_full /\ no_short_read_full /\ decode_all_exact_full.

(* ------------------------------------------------------------------ the clauses that hold *)
Theorem C08_encode_total_holds : encode_total_full.
Proof. exact encode_lib. Qed.
Print Assumptions C08_encode_total_holds.
Theorem C08_buffer_empty_holds : buffer_empty_only_at_start_full.
Proof. exact buffer_empty_only_at_end. Qed.
Print Assumptions C08_buffer_empty_holds.
Theorem C08_no_short_read_holds : no_short_read_full.
Proof. exact no_short_read. Qed.
Print Assumptions C08_no_short_read_holds.
Theorem C08_decode_all_exact_holds : decode_all_exact_full.
Proof. exact decode_all_exact_items. Qed.
Print Assumptions C08_decode_all_exact_holds.

(* ------------------------------------------------------------------ the clauses the code still falsifies *)
(* BYTE[2].encode([True] * 8) == b"\xff": too few bits for a fixed array of bit strings, no error *)
Theorem C08_encode_rejects_refuted : ~ encode_rejects_full.
Proof. intros H. destruct w_bits_array as [Hb He]. specialize (H _ _ Hb). rewrite He in H. discriminate H. Qed.
Print Assumptions C08_encode_rejects_refuted.
(* Array(UDINT, Struct()).decode(b"\xff\xff\xff\xff") runs 4294967295 rounds on an exhausted buffer *)
Theorem C08_decode_all_terminates_refuted : ~ decode_all_terminates_full.
Proof. intros H. exact (H _ 5%nat [255; 255; 255; 255] (le_n _) (w_prefix_zero_width 5%nat)). Qed.
Print Assumptions C08_decode_all_terminates_refuted.
Theorem C08_decode_errors_refuted : ~ decode_errors_full.
Proof.
  intros H. exact (hang_not_lib _ _ (w_prefix_zero_width _) (H _ _)).
Qed.
Print Assumptions C08_decode_errors_refuted.

Theorem C08_full_refuted : ~ C08_full.
Proof. intros (_ & H & _). exact (C08_encode_rejects_refuted H). Qed.
Print Assumptions C08_full_refuted.

(* ------------------------------------------------------------------ the guards *)
(* [silent t v]: an array of bit strings inside the value has too few bits or a partial element.
   [hprogress t]: every Array(<length type>, T) inside the type is over an element type whose
   successful decode consumes input; the buffer is shorter than the model's [count_limit] (2^20)
   when the type has such an array (the bound of the loop the model runs for one range(count)). *)
Definition C08_guard_rejects (t : ty) (v : val) : bool := silent t v.
Definition C08_guard_terminates (t : ty) : bool := negb (hprogress t).

Definition C08_guarded_statement : Prop :=
  (forall t v, C08_guard_rejects t v = false -> bad t v = true -> encode t v = Err DataError)
  /\ (forall time date, lib_enc (datetime_encode2 time date))
  /\ (forall cs v, lib_enc (stringn_encode_cs cs v))
  /\ (forall items, lib_enc (stringi_encode_args items))
  (* no foreign exception from any type, any fuel *)
  /\ (forall fuel t bs e, decode_fuel fuel t bs = DErr e -> e = DataError)
  /\ (forall t bs, C08_guard_terminates t = false -> (has_prefix t = true -> Z.of_nat (length bs) < count_limit) ->
        lib_dec (decode t bs))
  /\ (forall t fuel bs, C08_guard_terminates t = false -> (length bs < fuel)%nat ->
        (has_prefix t = true -> Z.of_nat (length bs) < count_limit) -> decode_fuel fuel t bs <> DOutOfFuel)
  (* types without a length-prefixed array need no condition: Array._decode_all always ends *)
  /\ (forall t fuel bs, has_prefix t = false -> (length bs < fuel)%nat -> decode_fuel fuel t bs <> DOutOfFuel)
  /\ (forall t w bs v rest, be_ok t = true -> width_of t = Some w -> decode t bs = Ok (v, rest) -> (w <= length bs)%nat)
  /\ (forall t k bs, total_leaf t = true -> length bs = (k * swidth t)%nat ->
        exists vs, length vs = k /\ decode (TArrAll t) bs = Ok (VList vs, [])).

Theorem C08_guarded : C08_guarded_statement.
Proof.
  unfold C08_guarded_statement, C08_guard_rejects, C08_guard_terminates. repeat split.
  - intros t v Hg Hb. exact (encode_rejects_dataerror t v Hb Hg).
  - exact datetime_encode2_lib.
  - exact stringn_encode_cs_lib.
  - exact stringi_encode_args_lib.
  - exact decode_lib.
  - intros t bs Hg. apply decode_errors. now apply Bool.negb_false_iff.
  - intros t fuel bs Hg. apply decode_terminates. now apply Bool.negb_false_iff.
  - exact decode_all_terminates.
  - exact no_short_fixed_width.
  - exact decode_all_exact_fixed.
Qed.
Print Assumptions C08_guarded.

(* the guards are needed on the listed witnesses only for what the code does there *)
Example C08_deviations :
  (bad (TArrFixed 2 BYTE_ty) (VList (repeat (VBool true) 8)) = true /\ encode (TArrFixed 2 BYTE_ty) (VList (repeat (VBool true) 8)) = Ok [255])
  /\ (bad (TArrAll BYTE_ty) (VList (repeat (VBool true) 12)) = true /\ encode (TArrAll BYTE_ty) (VList (repeat (VBool true) 12)) = Ok [255])
  /\ (forall fuel, decode_fuel fuel (TArrPrefix false UDINT_ty (TStruct SPlain [])) [255; 255; 255; 255] = DOutOfFuel).
Proof. exact (conj w_bits_array (conj w_bits_array_partial w_prefix_zero_width)). Qed.

(* the classes the fix wave repaired, as the model (and the code) now behave *)
Example C08_repaired :
  encode (TArrFixed 2 UINT_ty) VNone = Err DataError
  /\ encode (ty_named "DATE_AND_TIME") (VTuple [VInt 1; VInt 2]) = Ok [1; 0; 0; 0; 2; 0]
  /\ encode (ty_named "DATE_AND_TIME") (VInt 5) = Err DataError
  /\ encode (TStruct SPlain [(Some [97], UINT_ty); (Some [98], UINT_ty)]) (VList [VInt 1]) = Err DataError
  /\ encode (TNBytes 2) (VStr [97; 98]) = Err DataError
  /\ decode (TArrAll (TStruct SPlain [])) [] = Ok (VList [], [])
  /\ decode (TArrAll TPcccAscii) [97; 98] = Ok (VList [VStr [98; 97]], [])
  /\ decode STRINGN_ty [1; 0; 0; 0; 65] = Ok (VStr [], [65])
  /\ decode (TNBytes 0) [97; 98] = Ok (VBytes [], [97; 98])
  /\ decode STRING_ty [5; 0; 97; 98] = Err DataError
  /\ decode (TNBytes 4) [97; 98] = Err DataError
  /\ decode (TFixedStr 4 false 4 4) [4; 0; 0; 0; 97; 98] = Err DataError
  /\ decode (TStructTag [((Some [120], 0%nat), TInt true 4)] [] [] 8) [1; 0; 0; 0] = Err DataError
  /\ decode TPcccAscii [] = Err BufferEmpty.
Proof. exact w_fixed. Qed.

(* ------------------------------------------------------------------ non-vacuity *)
(* a structure of an integer, a string, a padded StructTag with members out of order and a hidden
   bit host, in an unbounded array; a length-prefixed array of it: outside every guard *)
Definition ex_stag : ty :=
  TStructTag [((Some [104], 4%nat), TInt false 1); ((Some [120], 0%nat), TInt true 4)] [([98], (4%nat, 3%nat))] [[104]] 8.
Definition ex_elem : ty := TStruct SPlain [(Some [110], UINT_ty); (Some [115], STRING_ty); (Some [116], ex_stag)].
Example C08_nonvacuous :
  C08_guard_terminates (TArrPrefix false UINT_ty ex_elem) = false /\ be_ok (TArrAll ex_elem) = true
  /\ width_of ex_stag = Some 8%nat /\ strict (TArrFixed 3 (TStruct SPlain [(None, UINT_ty); (None, ex_stag)])) = true
  /\ decode (TArrAll ex_elem) [1; 0; 2; 0; 97; 98; 255; 255; 255; 255; 8; 0; 0; 0;  2; 0; 0; 0; 5; 0; 0; 0; 0; 7; 7; 7]
     = Ok (VList [VDict [(Some [110], VInt 1); (Some [115], VStr [97; 98]); (Some [116], VDict [(Some [120], VInt (-1)); (Some [98], VBool true)])];
                  VDict [(Some [110], VInt 2); (Some [115], VStr []); (Some [116], VDict [(Some [120], VInt 5); (Some [98], VBool false)])]], [])
  /\ decode (TArrPrefix false UINT_ty ex_elem) [1; 0;  1; 0; 2; 0; 97; 98; 255; 255; 255; 255; 8; 0; 0; 0;  9]
     = Ok (VList [VDict [(Some [110], VInt 1); (Some [115], VStr [97; 98]); (Some [116], VDict [(Some [120], VInt (-1)); (Some [98], VBool true)])]], [9])
  /\ decode (TArrAll ex_elem) [1; 0; 2; 0; 97; 98; 255; 255; 255] = Err DataError
  /\ decode ex_stag [1; 0; 0; 0] = Err DataError /\ decode ex_stag [] = Err BufferEmpty
  (* BufferEmptyError at the end of the buffer, after the length prefix: the reading of
     "where a value should start" recorded in harness/props/c08.py; consequence: an unbounded array
     drops a trailing element that is cut exactly at a component boundary *)
  /\ decode STRING_ty [5; 0] = Err BufferEmpty
  /\ decode (TArrAll ex_elem) [1; 0; 2; 0; 97; 98] = Ok (VList [], [])
  /\ (let v := VList [VInt 1; VStr [97]] in
      C08_guard_rejects ex_elem v = false /\ bad ex_elem v = true /\ encode ex_elem v = Err DataError)
  /\ (let v := VDict [(Some [110], VInt 7); (Some [115], VStr [256]); (Some [116], VDict [(Some [120], VInt 0); (Some [98], VBool true)])] in
      C08_guard_rejects ex_elem v = false /\ bad ex_elem v = true /\ encode ex_elem v = Err DataError)
  /\ bad (TArrFixed 2 UINT_ty) VNone = true /\ encode (TArrFixed 2 UINT_ty) VNone = Err DataError
  /\ C08_guard_rejects (TArrFixed 2 BYTE_ty) (VList [VBool true]) = false /\ encode (TArrFixed 2 BYTE_ty) (VList [VBool true]) = Err DataError.
Proof. vm_compute. repeat split. Qed.
