(* Props/C08.v — codec failures are DataError: never foreign, silent or non-terminating.
   Statements over the shared codec model (Model/Codec.v; its primitives raise [Foreign] exactly
   where Python's do, its public wrappers sit where the code's do) + exact + Print Assumptions only.
   The side conditions and spec-side notions ([bad], [announced], ...) are in Proofs/CodecErrDefs.v. *)
From Coq Require Import String.
From PV Require Import Base.Bytes Base.Res Base.Proto Gen.Types Model.Codec Model.CodecDom.
From PV Require Import Proofs.CodecErrDefs Proofs.CodecErrDec Proofs.CodecErrEnc Proofs.CodecErrArr Proofs.CodecErrAll.
Open Scope Z_scope.

(* ------------------------------------------------------------------ the statement at full strength *)
(* encode: bytes or DataError; a value clearly outside the domain raises DataError *)
Definition encode_total_full : Prop :=
  forall t v, in_model t v = true ->
    lib_enc (encode t v) /\ (bad t v = true -> encode t v = Err DataError).
(* decode: a value, DataError or BufferEmptyError — in particular the call returns ([decode] maps
   a loop that outruns every fuel to a foreign marker) *)
Definition decode_errors_full : Prop := forall t bs, lib_dec (decode t bs).
Definition decode_all_terminates_full : Prop :=
  forall t fuel bs, (length bs < fuel)%nat -> decode_fuel fuel t bs <> DOutOfFuel.
(* BufferEmptyError only when no bytes remain *)
Definition buffer_empty_only_at_start_full : Prop :=
  forall t fuel bs rest, decode_fuel fuel t bs = DEmpty rest -> rest = [].
(* no value from fewer bytes than the type's width / the head of the buffer announces *)
Definition no_short_read_full : Prop :=
  forall t bs v rest k, decode t bs = Ok (v, rest) -> announced t bs = Some k -> k <= zlen bs.
(* an unbounded array over the concatenation of whole element encodings decodes that many elements
   and consumes the buffer *)
Definition decode_all_exact_full : Prop :=
  forall e vs bss,
    Forall2 (fun v b => doc_dom e v = true /\ encode e v = Ok b /\ b <> []) vs bss ->
    exists out, decode (TArrAll e) (concat bss) = Ok (VList out, []) /\ length out = length vs.

Definition C08_full : Prop :=
  encode_total_full /\ decode_errors_full /\ decode_all_terminates_full
  /\ buffer_empty_only_at_start_full /\ no_short_read_full /\ decode_all_exact_full.

(* ------------------------------------------------------------------ the code falsifies every clause *)
(* F22: Array(2, UINT).encode(None) raises TypeError (the length test is outside the try) *)
Theorem C08_encode_total_refuted : ~ encode_total_full.
Proof. intros H. destruct (H (TArrFixed 2 UINT_ty) VNone eq_refl) as [Hl _]. rewrite w_array_encode_none in Hl. discriminate Hl. Qed.
Print Assumptions C08_encode_total_refuted.
(* F19: Struct(a, b, c).encode([1]) silently drops members *)
Theorem C08_encode_silent_refuted : ~ (forall t v, enc_foreign t v = false -> bad t v = true -> encode t v = Err DataError).
Proof. intros H. specialize (H S3_ty (VList [VInt 1]) eq_refl eq_refl). vm_compute in H. discriminate H. Qed.
Print Assumptions C08_encode_silent_refuted.
(* F18: Array(None, Struct()).decode(b"") never returns *)
Theorem C08_decode_errors_refuted : ~ decode_errors_full.
Proof. intros H. specialize (H (TArrAll (TStruct SPlain [])) []). rewrite w_hang_decode in H. destruct H; discriminate. Qed.
Print Assumptions C08_decode_errors_refuted.
Theorem C08_decode_all_terminates_refuted : ~ decode_all_terminates_full.
Proof. intros H. exact (H (TArrAll (TStruct SPlain [])) 1%nat [] (le_n _) (w_hang_struct0 1%nat)). Qed.
Print Assumptions C08_decode_all_terminates_refuted.
(* STRINGN of zero characters: BufferEmptyError with a byte remaining *)
Theorem C08_buffer_empty_refuted : ~ buffer_empty_only_at_start_full.
Proof. intros H. specialize (H STRINGN_ty 1%nat [1; 0; 0; 0; 65] [65] (w_stringn_empty 1%nat)). discriminate H. Qed.
Print Assumptions C08_buffer_empty_refuted.
(* F17: STRING.decode(b"\x05\x00ab") == "ab" *)
Theorem C08_no_short_read_refuted : ~ no_short_read_full.
Proof.
  intros H. destruct w_short_string as [Hd Ha]. specialize (H _ _ _ _ _ Hd Ha). vm_compute in H. apply H. reflexivity.
Qed.
Print Assumptions C08_no_short_read_refuted.
(* Array(None, STRINGN) over the encodings of "ab", "", "cd" returns ["ab"] *)
Theorem C08_decode_all_exact_refuted : ~ decode_all_exact_full.
Proof.
  intros H.
  specialize (H STRINGN_ty [VStr [97; 98]; VStr []; VStr [99; 100]]
                [enc_of STRINGN_ty (VStr [97; 98]); enc_of STRINGN_ty (VStr []); enc_of STRINGN_ty (VStr [99; 100])]).
  destruct H as (out & Hd & Hn).
  - repeat constructor; discriminate.
  - cbn [concat] in Hd. rewrite app_nil_r in Hd. change (decode (TArrAll STRINGN_ty) stringn3 = Ok (VList out, [])) in Hd.
    rewrite w_stringn_array in Hd. discriminate Hd.
Qed.
Print Assumptions C08_decode_all_exact_refuted.

Theorem C08_full_refuted : ~ C08_full.
Proof. intros (H & _). exact (C08_encode_total_refuted H). Qed.
Print Assumptions C08_full_refuted.

(* ------------------------------------------------------------------ the guards *)
(* encode: [enc_foreign] = exactly the calls on which TypeError escapes (an array type given a value
   without len(); DATE_AND_TIME called with one value); [silent] = a value in one of the three
   silently accepted classes occurs in it.  decode: [hprogress] = every unbounded array inside the
   type is over an element type that cannot succeed without consuming input; [be_ok] = no
   zero-length read (STRINGN / STRINGI, n_bytes(0), FixedSizeString(0)), StructTags strict;
   [strict] = elementary fixed-width classes and arrays / structures / StructTags without trailing
   padding of them. *)
Definition C08_guard_encode (t : ty) (v : val) : bool := enc_foreign t v.
Definition C08_guard_rejects (t : ty) (v : val) : bool := enc_foreign t v || silent t v.
Definition C08_guard_terminates (t : ty) : bool := negb (hprogress t).
Definition C08_guard_buffer_empty (t : ty) : bool := negb (be_ok t).
Definition C08_guard_short_read (t : ty) : bool := negb (strict t).

Definition C08_guarded_statement : Prop :=
  (* encode_total *)
  (forall t v, in_model t v = true -> C08_guard_encode t v = false -> lib_enc (encode t v))
  /\ (forall t v, C08_guard_encode t v = true -> encode t v = Err (Foreign TypeError))
  /\ (forall t v, in_model t v = true -> C08_guard_rejects t v = false -> bad t v = true -> encode t v = Err DataError)
  /\ (forall time date, lib_enc (datetime_encode2 time date))
  /\ (forall cs v, lib_enc (stringn_encode_cs cs v))
  /\ (forall items, lib_enc (stringi_encode_args items))
  (* decode_errors: no foreign exception from any type; termination under the guard *)
  /\ (forall fuel t bs e, decode_fuel fuel t bs = DErr e -> e = DataError)
  /\ (forall t bs, C08_guard_terminates t = false -> lib_dec (decode t bs))
  (* decode_all_terminates *)
  /\ (forall t fuel bs, C08_guard_terminates t = false -> (length bs < fuel)%nat -> decode_fuel fuel t bs <> DOutOfFuel)
  (* buffer_empty_only_at_start *)
  /\ (forall t fuel bs rest, C08_guard_buffer_empty t = false -> decode_fuel fuel t bs = DEmpty rest -> rest = [])
  (* no_short_fixed_width *)
  /\ (forall t bs v rest k, C08_guard_short_read t = false -> decode t bs = Ok (v, rest) -> announced t bs = Some k -> k <= zlen bs)
  /\ (forall t w bs v rest, C08_guard_short_read t = false -> width_of t = Some w -> decode t bs = Ok (v, rest) -> (w <= length bs)%nat)
  (* decode_all_exact *)
  /\ (forall e (items : list (bytes * val)),
        (forall b v, In (b, v) items -> b <> [] /\ forall fuel tail, decode_fuel fuel e (b ++ tail) = DOk v tail) ->
        (forall fuel, decode_fuel fuel e [] = DEmpty []) ->
        decode (TArrAll e) (concat (map fst items)) = Ok (VList (map snd items), []))
  /\ (forall t k bs, total_leaf t = true -> length bs = (k * swidth t)%nat ->
        exists vs, length vs = k /\ decode (TArrAll t) bs = Ok (VList vs, [])).

Theorem C08_guarded : C08_guarded_statement.
Proof.
  unfold C08_guarded_statement, C08_guard_encode, C08_guard_rejects, C08_guard_terminates, C08_guard_buffer_empty, C08_guard_short_read.
  repeat split.
  - intros t v Hm Hg. exact (encode_lib t v Hg Hm).
  - exact enc_foreign_escapes.
  - intros t v Hm Hg Hb. apply Bool.orb_false_elim in Hg as [Hf Hs]. exact (encode_rejects_dataerror t v Hb Hs Hf Hm).
  - exact datetime_encode2_lib.
  - exact stringn_encode_cs_lib.
  - exact stringi_encode_args_lib.
  - exact decode_lib.
  - intros t bs Hg. apply decode_errors. now apply Bool.negb_false_iff.
  - intros t fuel bs Hg. apply decode_terminates. now apply Bool.negb_false_iff.
  - intros t fuel bs rest Hg. apply buffer_empty_only_at_end. now apply Bool.negb_false_iff.
  - intros t bs v rest k Hg. apply no_short_read. now apply Bool.negb_false_iff.
  - intros t w bs v rest Hg. apply no_short_fixed_width. now apply Bool.negb_false_iff.
  - exact decode_all_exact_items.
  - exact decode_all_exact_fixed.
Qed.
Print Assumptions C08_guarded.

(* how a hang is exhibited: no fuel is enough *)
Theorem C08_hang_witnesses :
  (forall fuel, decode_fuel fuel (TArrAll (TStruct SPlain [])) [] = DOutOfFuel)
  /\ (forall fuel, decode_fuel fuel (TArrAll (TArrFixed 0 UINT_ty)) [] = DOutOfFuel)
  /\ (forall fuel, decode_fuel fuel (TArrAll (TArrAll UINT_ty)) [] = DOutOfFuel)
  /\ (forall fuel, decode_fuel fuel (TArrAll TPcccAscii) [] = DOutOfFuel)
  /\ (forall fuel, decode_fuel fuel (TArrAll (TStructTag [] [] [] 4)) [] = DOutOfFuel).
Proof. exact (conj w_hang_struct0 (conj w_hang_arr0 (conj w_hang_nested (conj w_hang_pccc_ascii w_hang_stag0)))). Qed.
Print Assumptions C08_hang_witnesses.

(* the other deviations, one witness per excluded class (each is what the real code does) *)
Example C08_deviations :
  encode (ty_named "DATE_AND_TIME") (VTuple [VInt 1; VInt 2]) = Err (Foreign TypeError)
  /\ (bad (TNBytes 2) (VStr [97; 98]) = true /\ encode (TNBytes 2) (VStr [97; 98]) = Ok [97; 98] /\ encode_result_kind (TNBytes 2) (VStr [97; 98]) = 1)
  /\ (bad (TArrFixed 2 BYTE_ty) (VList (repeat (VBool true) 8)) = true /\ encode (TArrFixed 2 BYTE_ty) (VList (repeat (VBool true) 8)) = Ok [255])
  /\ (forall fuel, decode_fuel fuel (TNBytes 0) [97; 98] = DEmpty [97; 98])
  /\ (decode (TNBytes 4) [97; 98] = Ok (VBytes [97; 98], []) /\ announced (TNBytes 4) [97; 98] = Some 4)
  /\ (decode (TFixedStr 4 false 4 4) [4; 0; 0; 0; 97; 98] = Ok (VStr [97; 98], []) /\ announced (TFixedStr 4 false 4 4) [4; 0; 0; 0; 97; 98] = Some 8)
  /\ (decode (TStructTag [((Some [120], 0%nat), TInt true 4)] [] [] 8) [1; 0; 0; 0] = Ok (VDict [(Some [120], VInt 1)], [])
      /\ announced (TStructTag [((Some [120], 0%nat), TInt true 4)] [] [] 8) [1; 0; 0; 0] = Some 8)
  /\ (decode TPcccAscii [] = Ok (VStr [], []) /\ announced TPcccAscii [] = Some 2).
Proof.
  exact (conj w_datetime_encode (conj w_nbytes_str (conj w_bits_array (conj w_nbytes0 (conj w_short_nbytes
        (conj w_short_fss (conj w_short_stag w_short_pccc_ascii))))))).
Qed.

(* ------------------------------------------------------------------ non-vacuity *)
(* a structure of an integer, a string and a tightly laid out StructTag, in an unbounded array:
   outside every guard; out-of-domain values are rejected, truncations are errors, whole elements
   decode exactly; BufferEmptyError where the reading above allows it *)
Definition ex_stag : ty :=
  TStructTag [((Some [120], 0%nat), TInt true 4); ((Some [104], 4%nat), TInt false 1)] [([98], (4%nat, 3%nat))] [[104]] 5.
Definition ex_elem : ty := TStruct SPlain [(Some [110], UINT_ty); (Some [115], STRING_ty); (Some [116], ex_stag)].
Example C08_nonvacuous :
  C08_guard_terminates (TArrAll ex_elem) = false /\ C08_guard_buffer_empty (TArrAll ex_elem) = false
  /\ C08_guard_short_read ex_stag = false /\ C08_guard_short_read (TArrFixed 3 (TStruct SPlain [(None, UINT_ty); (None, ex_stag)])) = false
  /\ decode (TArrAll ex_elem) [1; 0; 2; 0; 97; 98; 255; 255; 255; 255; 8;  2; 0; 0; 0; 5; 0; 0; 0; 0]
     = Ok (VList [VDict [(Some [110], VInt 1); (Some [115], VStr [97; 98]); (Some [116], VDict [(Some [120], VInt (-1)); (Some [98], VBool true)])];
                  VDict [(Some [110], VInt 2); (Some [115], VStr []); (Some [116], VDict [(Some [120], VInt 5); (Some [98], VBool false)])]], [])
  /\ decode (TArrAll ex_elem) [1; 0; 2; 0; 97; 98; 255; 255; 255] = Err DataError
  (* a truncation that falls on a component boundary: the member's BufferEmptyError (raised at the
     end of the buffer, as the reading above allows) ends the unbounded array, which returns [] *)
  /\ decode (TArrAll ex_elem) [1; 0; 2; 0; 97; 98; 255; 255; 255; 255] = Ok (VList [], [])
  /\ decode ex_stag [1; 0; 0; 0] = Err BufferEmpty /\ decode ex_stag [1; 0; 0] = Err DataError
  /\ decode STRING_ty [5; 0] = Err BufferEmpty
  /\ (let v := VList [VInt 1; VStr [97]] in
      C08_guard_rejects ex_elem v = true /\ bad ex_elem v = true)
  /\ (let v := VList [VInt 70000; VStr [97]; VDict [(Some [120], VInt 0); (Some [98], VBool true)]] in
      C08_guard_rejects ex_elem v = false /\ bad ex_elem v = true /\ encode ex_elem v = Err DataError)
  /\ (let v := VDict [(Some [110], VInt 7); (Some [115], VStr [256]); (Some [116], VDict [(Some [120], VInt 0); (Some [98], VBool true)])] in
      C08_guard_rejects ex_elem v = false /\ bad ex_elem v = true /\ encode ex_elem v = Err DataError)
  /\ C08_guard_encode (TArrFixed 2 UINT_ty) (VList [VInt 1]) = false /\ bad (TArrFixed 2 UINT_ty) (VList [VInt 1]) = true
  /\ encode (TArrFixed 2 UINT_ty) (VList [VInt 1]) = Err DataError.
Proof. vm_compute. repeat split. Qed.
