(* Props/C07.v — encodings are the CIP wire format.
   Statement over the codec model (Model/Codec.v) against the independent reference codec
   (Spec/Wire.v, Spec/WireFloat.v) + exact + Print Assumptions only.  Elementary rows and the type-code
   table come from Gen/Types.v, Gen/CodecFacts.v. *)
From Coq Require Import String.
From PV Require Import Base.Bytes Base.Res Base.Proto Gen.Types Model.Codec Spec.WireFloat Spec.Wire.
From PV Require Import Proofs.CodecWireDefs Proofs.CodecWireEnc Proofs.CodecWireDec Proofs.CodecWireCodes Proofs.CodecWireFloat.
Open Scope Z_scope.

(* Full strength.  For every type the reference defines ([wire_ty]: elementary types, strings,
   bit strings, byte blocks, fixed-capacity strings, arrays, structures, templates):
   - every value the reference encodes is encoded by the library to exactly the reference bytes;
   - every byte string is decoded to the value the reference decodes, leaving the same unread rest,
     and refused when the reference refuses it (truncated buffers included);
   - every documented CIP type code names a class of the documented width and layout. *)
Definition enc_law : Prop :=
  forall t v bs, wire_ty t = true -> spec_encode t v = Some bs -> encode t v = Ok bs.
Definition dec_law : Prop :=
  forall t bs, wire_ty t = true -> bytes_ok bs = true ->
  match spec_value (spec_decode t bs) with
  | Some (v, rest) => decode t bs = Ok (v, rest)
  | None => exists e, decode t bs = Err e
  end.
Definition codes_law : Prop := forall r, In r all_codes -> code_ok r = true.

Definition C07_full : Prop := enc_law /\ dec_law /\ codes_law.

(* The code falsifies it.  Witness: STRING2.decode(b"\x03\x00a\x00b\x00c\x00") raises DataError: the
   prefix counts characters, the decoder reads that many BYTES ("a\0b", not UTF-16). *)
Definition STRING2_ty : ty := TStr false 2 Utf16.
Theorem C07_full_refuted : ~ C07_full.
Proof.
  intros (_ & Hd & _). specialize (Hd STRING2_ty [3; 0; 97; 0; 98; 0; 99; 0] eq_refl eq_refl).
  vm_compute in Hd. discriminate Hd.
Qed.
Print Assumptions C07_full_refuted.

(* an empty output line, so that the axiom lists printed above are read as separate blocks *)
Goal True. Proof. idtac "". exact I. Qed.

(* One witness per deviation class (what the real implementation does on each: known_findings/C07.jsonl). *)
Definition ty_named (s : string) : ty := match ty_of_name (zs_of_string s) with Some t => t | None => TBool end.
Example dev_string2_is_gen_row : ty_named "STRING2" = STRING2_ty. Proof. reflexivity. Qed.

(* encode side *)
Example dev_bit_array_overlong :   (* BYTE[1].encode([True]*16): two bytes for an array of one *)
  let v := VList (repeat (VBool true) 16) in
  spec_encode (TArrFixed 1 (ty_named "BYTE")) v = Some [255] /\ encode (TArrFixed 1 (ty_named "BYTE")) v = Ok [255; 255]
  /\ enc_dev (TArrFixed 1 (ty_named "BYTE")) v = 2.
Proof. repeat split; reflexivity. Qed.
Example dev_array_of_n_bytes :     (* Array(2, n_bytes(1)): issubclass() on an instance *)
  let v := VList [VBytes [97]; VBytes [98]] in
  spec_encode (TArrFixed 2 (TNBytes 1)) v = Some [97; 98] /\ encode (TArrFixed 2 (TNBytes 1)) v = Err DataError
  /\ enc_dev (TArrFixed 2 (TNBytes 1)) v = 1
  /\ spec_decode (TArrFixed 2 (TNBytes 1)) [97; 98] = SOk v [] /\ decode (TArrFixed 2 (TNBytes 1)) [97; 98] = Err DataError.
Proof. repeat split; reflexivity. Qed.
Example dev_stringn_non_ascii :    (* STRINGN.encode("é"): UTF-8, two bytes for a count of one character of size 1 *)
  spec_encode TStringN (VStr [233]) = Some [1; 0; 1; 0; 233] /\ encode TStringN (VStr [233]) = Ok [1; 0; 1; 0; 195; 169]
  /\ enc_dev TStringN (VStr [233]) = 3.
Proof. repeat split; reflexivity. Qed.
Example dev_date_and_time_uniform_call :   (* DATE_AND_TIME.encode((time, date)): TypeError; as a member: DataError *)
  spec_encode TDateTime (VTuple [VInt 1; VInt 2]) = Some [1; 0; 0; 0; 2; 0]
  /\ encode TDateTime (VTuple [VInt 1; VInt 2]) = Err (Foreign TypeError)
  /\ encode_args TDateTime [VInt 1; VInt 2] = Ok [1; 0; 0; 0; 2; 0]
  /\ encode (TArrFixed 1 TDateTime) (VList [VTuple [VInt 1; VInt 2]]) = Err DataError.
Proof. repeat split; reflexivity. Qed.
(* decode side *)
Example dev_stringn_empty :        (* STRINGN.decode(STRINGN.encode("")): BufferEmptyError *)
  spec_decode TStringN [1; 0; 0; 0] = SOk (VStr []) [] /\ decode TStringN [1; 0; 0; 0] = Err BufferEmpty.
Proof. split; reflexivity. Qed.
Example dev_unbounded_bit_array :  (* Array(None, BYTE).decode: a list of lists, not the flat bit list *)
  spec_decode (TArrAll (TBits 1)) [1] = SOk (VList (VBool true :: repeat (VBool false) 7)) []
  /\ decode (TArrAll (TBits 1)) [1] = Ok (VList [VList (VBool true :: repeat (VBool false) 7)], []).
Proof. split; reflexivity. Qed.
Example dev_structtag_member_order :   (* members listed out of offset order: the later one is read at the stream position *)
  let t := TStructTag [((Some [98], 4%nat), TInt true 4); ((Some [97], 0%nat), TInt true 4)] [] [] 8 in
  wire_ty t = true /\ dec_ty t = false
  /\ spec_decode t [1; 0; 0; 0; 2; 0; 0; 0] = SOk (VDict [(Some [98], VInt 2); (Some [97], VInt 1)]) []
  /\ decode t [1; 0; 0; 0; 2; 0; 0; 0] = Err BufferEmpty.
Proof. repeat split; reflexivity. Qed.
(* truncated buffers: the reference refuses, the library returns a short value *)
Example dev_short_string :
  spec_decode (ty_named "STRING") [5; 0; 97] = STrunc /\ decode (ty_named "STRING") [5; 0; 97] = Ok (VStr [97], []).
Proof. split; reflexivity. Qed.
Example dev_short_n_bytes : spec_decode (TNBytes 3) [1; 2] = STrunc /\ decode (TNBytes 3) [1; 2] = Ok (VBytes [1; 2], []).
Proof. split; reflexivity. Qed.
Example dev_short_fixed_string :
  spec_decode (TFixedStr 4 false 4 4) [2; 0; 0; 0; 65; 66] = STrunc
  /\ decode (TFixedStr 4 false 4 4) [2; 0; 0; 0; 65; 66] = Ok (VStr [65; 66], []).
Proof. split; reflexivity. Qed.
Example dev_short_structtag :
  let t := TStructTag [((Some [120], 0%nat), TInt true 4)] [] [] 8 in
  spec_decode t [1; 0; 0; 0] = STrunc /\ decode t [1; 0; 0; 0] = Ok (VDict [(Some [120], VInt 1)], []).
Proof. split; reflexivity. Qed.
Example dev_unbounded_array_mid_element :   (* 3 UINTs for an array of pairs: the half element is dropped silently *)
  let t := TArrAll (TStruct SPlain [(Some [97], TInt false 2); (Some [98], TInt false 2)]) in
  spec_decode t [1; 0; 2; 0; 3; 0] = STrunc
  /\ decode t [1; 0; 2; 0; 3; 0] = Ok (VList [VDict [(Some [97], VInt 1); (Some [98], VInt 2)]], []).
Proof. split; reflexivity. Qed.
(* the type-code table *)
Example dev_date_and_time_size : existsb (fun r => is_date_and_time r && negb (code_ok r)) all_codes = true.
Proof. exact type_codes_date_and_time. Qed.

(* The guards: exactly the excluded input classes (Proofs/CodecWireDefs.v). *)
Definition C07_guard_enc (t : ty) (v : val) : bool := negb (enc_dev t v =? 0).
Definition is_trunc (r : sres) : bool := match r with STrunc => true | _ => false end.
Definition C07_guard_dec (t : ty) (bs : bytes) : bool := negb (dec_ty t) || is_trunc (spec_decode t bs).
Definition C07_guard_code (r : code_row) : bool := is_date_and_time r.

(* REAL: the model rounds / widens with integer arithmetic on the bit fields (Model/CodecFloat.v); the
   reference is Flocq's binary_normalize (Spec/WireFloat.v).  They agree on every bit pattern
   (Proofs/CodecWireFloat.v). *)
Definition float_agreement : Prop :=
  (forall b, sp_f64_ok b = true -> round32 b = spec_real32_of_64 b)
  /\ (forall u, 0 <= u < 2 ^ 32 -> widen32 u = spec_real64_of_32 u).
Theorem C07_float_agreement : float_agreement.
Proof. split; [exact round32_is_flocq|exact widen32_is_flocq]. Qed.

Definition C07_guarded_stmt : Prop :=
  (forall t v bs, wire_ty t = true -> C07_guard_enc t v = false -> spec_encode t v = Some bs -> encode t v = Ok bs)
  /\ (forall t bs, wire_ty t = true -> bytes_ok bs = true -> C07_guard_dec t bs = false ->
        match spec_decode t bs with
        | SOk v rest => decode t bs = Ok (v, rest)
        | SBad => decode t bs = Err DataError
        | SEnd => decode t bs = Err BufferEmpty
        | STrunc => False
        end)
  /\ (forall r, In r all_codes -> C07_guard_code r = false -> code_ok r = true)
  /\ (forall a b bs, spec_encode TDateTime (VTuple [VInt a; VInt b]) = Some bs -> encode_args TDateTime [VInt a; VInt b] = Ok bs).

Theorem C07_guarded : C07_guarded_stmt.
Proof.
  destruct C07_float_agreement as [Hr Hwd]. split; [|split; [|split]].
  - intros t v bs Hw Hg Hs. unfold C07_guard_enc in Hg. apply Bool.negb_false_iff in Hg. apply Z.eqb_eq in Hg.
    exact (encode_is_spec_gen Hr t v bs Hw Hs Hg).
  - intros t bs Hw Hok Hg. unfold C07_guard_dec in Hg. apply Bool.orb_false_elim in Hg as [Hd Ht].
    apply Bool.negb_false_iff in Hd. pose proof (decode_is_spec_gen Hwd t bs Hw Hd Hok) as H.
    destruct (spec_decode t bs); try exact H. discriminate Ht.
  - intros r Hin Hg. pose proof type_codes_guarded as H. rewrite forallb_forall in H. specialize (H r Hin).
    unfold C07_guard_code in Hg. rewrite Hg in H. exact H.
  - exact datetime_args_is_spec.
Qed.
Print Assumptions C07_guarded.

(* an empty output line, so that the axiom lists printed above are read as separate blocks *)
Goal True. Proof. idtac "". exact I. Qed.

(* The three laws, one by one (the names of DESIGN.md section 7). *)
Theorem encode_is_spec :
  forall t v bs, wire_ty t = true -> C07_guard_enc t v = false -> spec_encode t v = Some bs -> encode t v = Ok bs.
Proof. exact (proj1 C07_guarded). Qed.
Print Assumptions encode_is_spec.

(* an empty output line, so that the axiom lists printed above are read as separate blocks *)
Goal True. Proof. idtac "". exact I. Qed.

Theorem decode_is_spec :
  forall t bs, wire_ty t = true -> bytes_ok bs = true -> C07_guard_dec t bs = false ->
  match spec_decode t bs with
  | SOk v rest => decode t bs = Ok (v, rest)
  | SBad => decode t bs = Err DataError
  | SEnd => decode t bs = Err BufferEmpty
  | STrunc => False
  end.
Proof. exact (proj1 (proj2 C07_guarded)). Qed.
Print Assumptions decode_is_spec.

(* an empty output line, so that the axiom lists printed above are read as separate blocks *)
Goal True. Proof. idtac "". exact I. Qed.

Theorem type_codes : forall r, In r all_codes -> C07_guard_code r = false -> code_ok r = true.
Proof.
  intros r Hin Hg. pose proof type_codes_guarded as H. rewrite forallb_forall in H. specialize (H r Hin).
  unfold C07_guard_code in Hg. rewrite Hg in H. exact H.
Qed.
Print Assumptions type_codes.

(* an empty output line, so that the axiom lists printed above are read as separate blocks *)
Goal True. Proof. idtac "". exact I. Qed.

(* StructTag layout, spelled out: [size] bytes; byte j = the visible member covering j (0 in the
   padding) with the BOOL members of that byte set / cleared *)
Theorem C07_structtag_layout :
  forall ms bits priv size d ps bv,
  wire_ty (TStructTag ms bits priv size) = true ->
  stag_pieces (senc_sms ms) priv d = Some ps -> stag_bitvals bits d = Some bv ->
  enc_dev (TStructTag ms bits priv size) (VDict d) = 0 ->
  exists image, encode (TStructTag ms bits priv size) (VDict d) = Ok image /\ length image = size
                /\ forall j, (j < size)%nat -> nth j image 0 = bits_byte bv j (piece_byte ps j).
Proof. exact (structtag_layout_gen round32_is_flocq). Qed.
Print Assumptions C07_structtag_layout.

(* an empty output line, so that the axiom lists printed above are read as separate blocks *)
Goal True. Proof. idtac "". exact I. Qed.

(* non-vacuity: a structure of the kinds the property names (integers, REAL, strings, a fixed-capacity
   string, a bit string, an array) and a template with padding, a hidden host and bit members, one of
   them over a visible member *)
Definition ex_ty : ty :=
  TStruct SPlain [(Some [110], ty_named "UINT"); (None, ty_named "SINT"); (Some [115], TArrFixed 2 (ty_named "STRING"));
                  (Some [102], TFixedStr 4 false 4 3); (Some [119], ty_named "WORD"); (Some [114], ty_named "LREAL")].
Definition ex_val : val :=
  VList [VInt 513; VInt (-1); VList [VStr [97; 98]; VStr []]; VStr [120; 121; 122; 119];
         VList (VBool true :: repeat (VBool false) 14 ++ [VBool true]); VFloat 0x3ff8000000000000].
Definition ex_bytes : bytes :=
  [1; 2; 255; 2; 0; 97; 98; 0; 0; 3; 0; 0; 0; 120; 121; 122; 0; 1; 128; 0; 0; 0; 0; 0; 0; 248; 63].
Definition ex_tag : ty :=
  TStructTag [((Some [97], 0%nat), TInt true 2); ((Some [90; 104], 4%nat), TInt true 1); ((Some [100], 8%nat), TInt true 4)]
             [([98; 48], (4%nat, 0%nat)); ([98; 55], (4%nat, 7%nat)); ([108; 111], (0%nat, 0%nat))] [[90; 104]] 12.
Definition ex_tag_val : val :=
  VDict [(Some [97], VInt 0x0102); (Some [100], VInt (-2)); (Some [98; 48], VBool true); (Some [98; 55], VBool true);
         (Some [108; 111], VBool true)].
Example C07_nonvacuous :
  wire_ty ex_ty = true /\ dec_ty ex_ty = true /\ C07_guard_enc ex_ty ex_val = false
  /\ spec_encode ex_ty ex_val = Some ex_bytes /\ encode ex_ty ex_val = Ok ex_bytes
  /\ C07_guard_dec ex_ty (ex_bytes ++ [7]) = false
  /\ (exists v, spec_decode ex_ty (ex_bytes ++ [7]) = SOk v [7] /\ decode ex_ty (ex_bytes ++ [7]) = Ok (v, [7]))
  /\ wire_ty ex_tag = true /\ dec_ty ex_tag = true /\ C07_guard_enc ex_tag ex_tag_val = false
  /\ spec_encode ex_tag ex_tag_val = Some [3; 1; 0; 0; 129; 0; 0; 0; 254; 255; 255; 255]
  /\ encode ex_tag ex_tag_val = Ok [3; 1; 0; 0; 129; 0; 0; 0; 254; 255; 255; 255]
  /\ decode ex_tag [3; 1; 0; 0; 129; 0; 0; 0; 254; 255; 255; 255; 9]
     = Ok (VDict [(Some [97], VInt 0x0103); (Some [100], VInt (-2)); (Some [98; 48], VBool true); (Some [98; 55], VBool true);
                  (Some [108; 111], VBool true)], [9]).
Proof. vm_compute. repeat split. eexists. split; reflexivity. Qed.
