(* Props/C07.v — encodings are the CIP wire format.
   Statement over the codec model (Model/Codec.v) against the independent reference codec
   (Spec/Wire.v, Spec/WireFloat.v) + exact + Print Assumptions only.  Elementary rows and the type-code
   table come from Gen/Types.v, Gen/CodecFacts.v. *)
From Coq Require Import String.
From PV Require Import Base.Bytes Base.Res Base.Proto Gen.Types Model.Codec Spec.WireFloat Spec.Wire.
From PV Require Import Proofs.CodecWireDefs Proofs.CodecWireEnc Proofs.CodecWireDec Proofs.CodecWireCodes Proofs.CodecWireFloat.
Open Scope Z_scope.

(* Full strength.  For every type the reference defines ([wire_ty]: elementary types, strings,
   bit strings, byte blocks, fixed-capacity strings, arrays, structures, templates):
   - every value the reference encodes is encoded by the library to exactly the reference bytes;
   - every byte string is decoded to the value the reference decodes, leaving the same unread rest,
     and refused when the reference refuses it (truncated buffers included);
   - every documented CIP type code names a class of the documented width and layout. *)
Definition enc_law : Prop :=
  forall t v bs, wire_ty t = true -> spec_encode t v = Some bs -> encode t v = Ok bs.
Definition dec_law : Prop :=
  forall t bs, wire_ty t = true -> bytes_ok bs = true ->
  match spec_value (spec_decode t bs) with
  | Some (v, rest) => decode t bs = Ok (v, rest)
  | None => exists e, decode t bs = Err e
  end.
Definition codes_law : Prop := forall r, In r all_codes -> code_ok r = true.

Definition C07_full : Prop := enc_law /\ dec_law /\ codes_law.

(* The code falsifies it, on two input classes (after the codec repairs 44461bb..bcb4254 of /repo).
   Witness: BYTE[1].encode([True]*16) emits two bytes for an array of one element: an array of bit
   strings given more bits than its length is not truncated (every other element type is). *)
Definition ty_named (s : string) : ty := match ty_of_name (zs_of_string s) with Some t => t | None => TBool end.
Theorem C07_full_refuted : ~ C07_full.
Proof.
  intros (He & _ & _).
  specialize (He (TArrFixed 1 (TBits 1)) (VList (repeat (VBool true) 16)) [255] eq_refl eq_refl).
  vm_compute in He. discriminate He.
Qed.
Print Assumptions C07_full_refuted.

(* an empty output line, so that the axiom lists printed above are read as separate blocks *)
Goal True. Proof. idtac "". exact I. Qed.

(* The two remaining deviation classes, one witness each (known_findings/C07.jsonl). *)
Example dev_bit_array_overlong :
  let v := VList (repeat (VBool true) 16) in
  spec_encode (TArrFixed 1 (ty_named "BYTE")) v = Some [255] /\ encode (TArrFixed 1 (ty_named "BYTE")) v = Ok [255; 255]
  /\ enc_dev (TArrFixed 1 (ty_named "BYTE")) v = 2.
Proof. repeat split; reflexivity. Qed.
(* 3 UINTs for an unbounded array of pairs: the half element is dropped silently (BufferEmptyError
   raised by the second member ends the array) *)
Example dev_unbounded_array_mid_element :
  let t := TArrAll (TStruct SPlain [(Some [97], TInt false 2); (Some [98], TInt false 2)]) in
  spec_decode t [1; 0; 2; 0; 3; 0] = STrunc
  /\ decode t [1; 0; 2; 0; 3; 0] = Ok (VList [VDict [(Some [97], VInt 1); (Some [98], VInt 2)]], []).
Proof. split; reflexivity. Qed.

(* Classes that deviated before the repairs and now follow the reference (regression witnesses). *)
Example fixed_string2 :
  ty_named "STRING2" = TStr false 2 Utf16
  /\ decode (ty_named "STRING2") [3; 0; 97; 0; 98; 0; 99; 0] = Ok (VStr [97; 98; 99], [])
  /\ spec_decode (ty_named "STRING2") [3; 0; 97; 0; 98; 0; 99; 0] = SOk (VStr [97; 98; 99]) [].
Proof. repeat split; reflexivity. Qed.
Example fixed_stringn :
  decode TStringN [1; 0; 0; 0] = Ok (VStr [], []) /\ encode TStringN (VStr [233]) = Ok [1; 0; 1; 0; 233]
  /\ decode TStringN [1; 0; 1; 0; 233] = Ok (VStr [233], [])
  /\ spec_decode TStringN [2; 0; 2; 0; 61; 216; 0; 222] = SOk (VStr [128512]) []
  /\ decode TStringN [2; 0; 2; 0; 61; 216; 0; 222] = Ok (VStr [128512], []).
Proof. repeat split; reflexivity. Qed.
Example fixed_date_and_time :
  encode TDateTime (VTuple [VInt 1; VInt 2]) = Ok [1; 0; 0; 0; 2; 0]
  /\ encode (TArrFixed 1 TDateTime) (VList [VTuple [VInt 1; VInt 2]]) = Ok [1; 0; 0; 0; 2; 0].
Proof. split; reflexivity. Qed.
Example fixed_array_of_n_bytes :
  encode (TArrFixed 2 (TNBytes 1)) (VList [VBytes [97]; VBytes [98]]) = Ok [97; 98]
  /\ decode (TArrFixed 2 (TNBytes 1)) [97; 98] = Ok (VList [VBytes [97]; VBytes [98]], []).
Proof. split; reflexivity. Qed.
Example fixed_unbounded_bit_array :
  decode (TArrAll (TBits 1)) [1] = Ok (VList (VBool true :: repeat (VBool false) 7), []).
Proof. reflexivity. Qed.
Example fixed_structtag_member_order :
  let t := TStructTag [((Some [98], 4%nat), TInt true 4); ((Some [97], 0%nat), TInt true 4)] [] [] 8 in
  wire_ty t = true /\ decode t [1; 0; 0; 0; 2; 0; 0; 0] = Ok (VDict [(Some [98], VInt 2); (Some [97], VInt 1)], []).
Proof. split; reflexivity. Qed.
Example fixed_short_reads :
  decode (ty_named "STRING") [5; 0; 97] = Err DataError /\ decode (TNBytes 3) [1; 2] = Err DataError
  /\ decode (TFixedStr 4 false 4 4) [2; 0; 0; 0; 65; 66] = Err DataError
  /\ decode (TStructTag [((Some [120], 0%nat), TInt true 4)] [] [] 8) [1; 0; 0; 0] = Err DataError.
Proof. repeat split; reflexivity. Qed.

(* The guards: exactly the excluded input classes. *)
Definition C07_guard_enc (t : ty) (v : val) : bool := negb (enc_dev t v =? 0).
Definition is_trunc (r : sres) : bool := match r with STrunc => true | _ => false end.
Definition C07_guard_dec (t : ty) (bs : bytes) : bool := is_trunc (spec_decode t bs).

(* REAL: the model rounds / widens with integer arithmetic on the bit fields (Model/CodecFloat.v); the
   reference is Flocq's binary_normalize (Spec/WireFloat.v).  They agree on every bit pattern
   (Proofs/CodecWireFloat.v). *)
Definition float_agreement : Prop :=
  (forall b, sp_f64_ok b = true -> round32 b = spec_real32_of_64 b)
  /\ (forall u, 0 <= u < 2 ^ 32 -> widen32 u = spec_real64_of_32 u).
Theorem C07_float_agreement : float_agreement.
Proof. split; [exact round32_is_flocq|exact widen32_is_flocq]. Qed.

Definition C07_guarded_stmt : Prop :=
  (forall t v bs, wire_ty t = true -> C07_guard_enc t v = false -> spec_encode t v = Some bs -> encode t v = Ok bs)
  /\ (forall t bs, wire_ty t = true -> bytes_ok bs = true -> C07_guard_dec t bs = false ->
        match spec_decode t bs with
        | SOk v rest => decode t bs = Ok (v, rest)
        | SBad => decode t bs = Err DataError
        | SEnd => decode t bs = Err BufferEmpty
        | STrunc => False
        end)
  /\ codes_law
  /\ (forall a b bs, spec_encode TDateTime (VTuple [VInt a; VInt b]) = Some bs -> encode_args TDateTime [VInt a; VInt b] = Ok bs).

(* the type-code table holds without exception *)
Theorem type_codes : codes_law.
Proof. intros r Hin. pose proof type_codes_all as H. rewrite forallb_forall in H. exact (H r Hin). Qed.
Print Assumptions type_codes.

(* an empty output line, so that the axiom lists printed above are read as separate blocks *)
Goal True. Proof. idtac "". exact I. Qed.

Theorem C07_guarded : C07_guarded_stmt.
Proof.
  destruct C07_float_agreement as [Hr Hwd]. split; [|split; [|split]].
  - intros t v bs Hw Hg Hs. unfold C07_guard_enc in Hg. apply Bool.negb_false_iff in Hg. apply Z.eqb_eq in Hg.
    exact (encode_is_spec_gen Hr t v bs Hw Hs Hg).
  - intros t bs Hw Hok Hg. unfold C07_guard_dec in Hg. pose proof (decode_is_spec_gen Hwd t bs Hw Hok) as H.
    destruct (spec_decode t bs); try exact H. discriminate Hg.
  - exact type_codes.
  - exact datetime_args_is_spec.
Qed.
Print Assumptions C07_guarded.

(* an empty output line, so that the axiom lists printed above are read as separate blocks *)
Goal True. Proof. idtac "". exact I. Qed.

(* The laws one by one (the names of DESIGN.md section 7). *)
Theorem encode_is_spec :
  forall t v bs, wire_ty t = true -> C07_guard_enc t v = false -> spec_encode t v = Some bs -> encode t v = Ok bs.
Proof. exact (proj1 C07_guarded). Qed.
Print Assumptions encode_is_spec.

(* an empty output line, so that the axiom lists printed above are read as separate blocks *)
Goal True. Proof. idtac "". exact I. Qed.

Theorem decode_is_spec :
  forall t bs, wire_ty t = true -> bytes_ok bs = true -> C07_guard_dec t bs = false ->
  match spec_decode t bs with
  | SOk v rest => decode t bs = Ok (v, rest)
  | SBad => decode t bs = Err DataError
  | SEnd => decode t bs = Err BufferEmpty
  | STrunc => False
  end.
Proof. exact (proj1 (proj2 C07_guarded)). Qed.
Print Assumptions decode_is_spec.

(* an empty output line, so that the axiom lists printed above are read as separate blocks *)
Goal True. Proof. idtac "". exact I. Qed.

(* StructTag layout, spelled out: [size] bytes; byte j = the visible member covering j (0 in the
   padding) with the BOOL members of that byte set / cleared *)
Theorem C07_structtag_layout :
  forall ms bits priv size d ps bv,
  wire_ty (TStructTag ms bits priv size) = true ->
  stag_pieces (senc_sms ms) priv d = Some ps -> stag_bitvals bits d = Some bv ->
  enc_dev (TStructTag ms bits priv size) (VDict d) = 0 ->
  exists image, encode (TStructTag ms bits priv size) (VDict d) = Ok image /\ length image = size
                /\ forall j, (j < size)%nat -> nth j image 0 = bits_byte bv j (piece_byte ps j).
Proof. exact (structtag_layout_gen round32_is_flocq). Qed.
Print Assumptions C07_structtag_layout.

(* an empty output line, so that the axiom lists printed above are read as separate blocks *)
Goal True. Proof. idtac "". exact I. Qed.

(* non-vacuity: a structure of the kinds the property names (integers, REAL, strings incl. 2-byte
   characters, a fixed-capacity string, a bit string, arrays) and a template with padding, a hidden
   host and bit members, one of them over a visible member *)
Definition ex_ty : ty :=
  TStruct SPlain [(Some [110], ty_named "UINT"); (None, ty_named "SINT"); (Some [115], TArrFixed 2 (ty_named "STRING"));
                  (Some [102], TFixedStr 4 false 4 3); (Some [119], ty_named "WORD"); (Some [114], ty_named "LREAL");
                  (Some [117], ty_named "STRING2"); (Some [100], TDateTime)].
Definition ex_val : val :=
  VList [VInt 513; VInt (-1); VList [VStr [97; 98]; VStr []]; VStr [120; 121; 122; 119];
         VList (VBool true :: repeat (VBool false) 14 ++ [VBool true]); VFloat 0x3ff8000000000000;
         VStr [233; 8364]; VTuple [VInt 1; VInt 2]].
Definition ex_bytes : bytes :=
  [1; 2; 255; 2; 0; 97; 98; 0; 0; 3; 0; 0; 0; 120; 121; 122; 0; 1; 128; 0; 0; 0; 0; 0; 0; 248; 63;
   2; 0; 233; 0; 172; 32; 1; 0; 0; 0; 2; 0].
Definition ex_tag : ty :=
  TStructTag [((Some [97], 0%nat), TInt true 2); ((Some [90; 104], 4%nat), TInt true 1); ((Some [100], 8%nat), TInt true 4)]
             [([98; 48], (4%nat, 0%nat)); ([98; 55], (4%nat, 7%nat)); ([108; 111], (0%nat, 0%nat))] [[90; 104]] 12.
Definition ex_tag_val : val :=
  VDict [(Some [97], VInt 0x0102); (Some [100], VInt (-2)); (Some [98; 48], VBool true); (Some [98; 55], VBool true);
         (Some [108; 111], VBool true)].
Example C07_nonvacuous :
  wire_ty ex_ty = true /\ C07_guard_enc ex_ty ex_val = false
  /\ spec_encode ex_ty ex_val = Some ex_bytes /\ encode ex_ty ex_val = Ok ex_bytes
  /\ C07_guard_dec ex_ty (ex_bytes ++ [7]) = false
  /\ (exists v, spec_decode ex_ty (ex_bytes ++ [7]) = SOk v [7] /\ decode ex_ty (ex_bytes ++ [7]) = Ok (v, [7]))
  /\ wire_ty ex_tag = true /\ C07_guard_enc ex_tag ex_tag_val = false
  /\ spec_encode ex_tag ex_tag_val = Some [3; 1; 0; 0; 129; 0; 0; 0; 254; 255; 255; 255]
  /\ encode ex_tag ex_tag_val = Ok [3; 1; 0; 0; 129; 0; 0; 0; 254; 255; 255; 255]
  /\ decode ex_tag [3; 1; 0; 0; 129; 0; 0; 0; 254; 255; 255; 255; 9]
     = Ok (VDict [(Some [97], VInt 0x0103); (Some [100], VInt (-2)); (Some [98; 48], VBool true); (Some [98; 55], VBool true);
                  (Some [108; 111], VBool true)], [9]).
Proof. vm_compute. repeat split. eexists. split; reflexivity. Qed.
