(* Props/C09.v — emitted CIP paths denote the addressed object.
   Model: Model/Path.v (LogicalSegment / PortSegment / DataSegment._encode, EPATH.encode,
   request_path, tag_request_path, _find_tag_index; bit tables and port names regenerated into
   Gen/PathTables.v).  Oracle: the strict padded-EPATH parser and the intended readings of
   Spec/EPathParser.v.  Statements + exact + Print Assumptions only; proofs in Proofs/Path*.v, C09P.v. *)
From Coq Require Import String.
From PV Require Import Base.Bytes Base.Res Base.PyStr Gen.PathTables Model.Path Spec.EPathParser
     Proofs.PathSeg Proofs.PathTag Proofs.C09P.
Open Scope Z_scope.

(* ---- logical segments: every value 0..2^32-1 of a class / instance / member / connection point /
   attribute id is emitted, has even length and is read back as exactly that type and number
   (the 255/256 and 65535/65536 format boundaries are case splits of the proof, not samples) *)
Definition C09_logical : Prop :=
  forall t lt v, assoc_text t spec_ltypes = Some lt -> 0 <= v < 4294967296 ->
    exists bs, encode_seg true (Logical t (LInt v)) = Ok bs /\ Nat.even (length bs) = true
               /\ parse_padded_epath bs = Some [SLogical lt v].

(* ---- any path: whenever PADDED_EPATH.encode(segments, length=True[, pad_length]) EMITS bytes for
   segments that have an intended reading (and are not in [excluded]), these are: the word count,
   the optional zero pad byte, and an even-length body of exactly that many words which the
   independent parser reads back as exactly the intended names and numbers *)
Definition C09_epath (excluded : seg -> bool) : Prop :=
  forall segs ssegs pad_length out,
    denote_all segs = Some ssegs -> existsb excluded segs = false ->
    epath_encode padded_PADDED_EPATH segs true pad_length = Ok out ->
    exists w body, out = w :: (if pad_length then [0] else []) ++ body /\ len body = 2 * w
                   /\ parse_padded_epath body = Some ssegs /\ parse_counted pad_length out = Some ssegs.

(* ---- and it does emit, unless the path needs more than 255 words (then DataError, never a
   truncated count) *)
Definition C09_epath_total (excluded : seg -> bool) : Prop :=
  forall segs ssegs pad_length,
    denote_all segs = Some ssegs -> existsb excluded segs = false ->
    exists body, encode_segs padded_PADDED_EPATH segs = Ok body /\ Nat.even (length body) = true
      /\ parse_padded_epath body = Some ssegs
      /\ epath_encode padded_PADDED_EPATH segs true pad_length
         = (if len body / 2 <=? 255 then Ok (counted pad_length body) else Err DataError)
      /\ (len body / 2 <= 255 -> parse_counted pad_length (counted pad_length body) = Some ssegs).

(* ---- class / instance / attribute paths of generic messages: always emitted *)
Definition C09_request : Prop :=
  forall c i a, 0 <= c < 4294967296 -> 0 <= i < 4294967296 ->
    match a with Some x => 0 < x < 4294967296 | None => True end ->
    exists out, request_path (LInt c) (LInt i) (option_map LInt a) = Ok out
                /\ parse_counted false out = Some (request_reading c i a).

(* ---- tag strings: for EVERY tag AST in the documented syntax (optional program scope, any
   number of nested members, any number of indices per level (the documented 0-3 included), every
   index and instance id below 2^32, names of either length parity), tag_request_path applied to its
   rendering emits the counted path that reads back as the AST's names and numbers
   (symbol-instance addressing included), or DataError when it needs more than 255 words *)
Definition C09_tag : Prop :=
  forall p inst use,
    wf_tagpath LOGICAL_LIMIT p = true -> wf_instance LOGICAL_LIMIT p inst use = true ->
    exists body, Nat.even (length body) = true
      /\ parse_padded_epath body = Some (tag_reading p inst use)
      /\ tag_request_path (render_tag p) inst use
         = (if len body / 2 <=? 255 then Ok (Some (counted false body)) else Err DataError)
      /\ (len body / 2 <= 255 -> parse_counted false (counted false body) = Some (tag_reading p inst use)).

(* ---- routes: hops with named or numeric ports (up to [pmax]), slot links (int or decimal text)
   and IPv4 links of every length, optionally followed by further segments (the message-router
   path of Forward Open): what is emitted reads back as exactly those ports and link addresses *)
Definition C09_route (pmax : Z) : Prop :=
  forall hops extra extra_r pad_length out,
    forallb (wf_hop pmax) hops = true -> denote_all extra = Some extra_r -> existsb port_ge15 extra = false ->
    epath_encode padded_PADDED_EPATH (map hop_seg hops ++ extra) true pad_length = Ok out ->
    parse_counted pad_length out = Some (map hop_reading hops ++ extra_r).

Definition C09_route_total : Prop :=
  forall hops extra extra_r pad_length,
    forallb (wf_hop 14) hops = true -> denote_all extra = Some extra_r -> existsb port_ge15 extra = false ->
    exists body, Nat.even (length body) = true
      /\ parse_padded_epath body = Some (map hop_reading hops ++ extra_r)
      /\ epath_encode padded_PADDED_EPATH (map hop_seg hops ++ extra) true pad_length
         = (if len body / 2 <=? 255 then Ok (counted pad_length body) else Err DataError)
      /\ (len body / 2 <= 255 ->
          parse_counted pad_length (counted pad_length body) = Some (map hop_reading hops ++ extra_r)).

(* ================================================================ full strength *)
(* nothing excluded; every CIP port number 1..65535 *)
Definition C09_full : Prop :=
  C09_logical /\ C09_epath (fun _ => false) /\ C09_request /\ C09_tag /\ C09_route 65535.

(* The faithful model falsifies it: PortSegment has no extended port identifier.  Port 32, slot 0
   is emitted as 20 00, which is the logical segment "class 0" (DESIGN F20). *)
Theorem C09_full_refuted : ~ C09_full.
Proof.
  intros (_ & _ & _ & _ & Hr).
  destruct bad_hop_facts as (Hwf & _ & Henc & Hparse).
  specialize (Hr [bad_hop] [] [] false [1; 32; 0]). cbn [map app] in Hr.
  rewrite Hparse in Hr. specialize (Hr ltac:(cbn [forallb]; now rewrite Hwf) eq_refl eq_refl Henc).
  discriminate Hr.
Qed.
Print Assumptions C09_full_refuted.

(* the parts of the full statement that hold without any guard *)
Theorem C09_logical_holds : C09_logical.
Proof. exact logical_ok. Qed.
Print Assumptions C09_logical_holds.

Theorem C09_request_holds : C09_request.
Proof. exact request_path_ok. Qed.
Print Assumptions C09_request_holds.

Theorem C09_tag_holds : C09_tag.
Proof. exact tag_path_ok. Qed.
Print Assumptions C09_tag_holds.

(* ================================================================ the guard and what holds under it *)
(* exactly the excluded class: a NUMERIC port of 15 or more in a port segment *)
Definition C09_guard (s : seg) : bool := port_ge15 s.

Theorem C09_guarded :
  C09_logical /\ C09_epath C09_guard /\ C09_epath_total C09_guard /\ C09_request /\ C09_tag
  /\ C09_route 14 /\ C09_route_total.
Proof.
  split; [exact logical_ok|]. split; [exact epath_emitted_ok|]. split; [exact epath_total|].
  split; [exact request_path_ok|]. split; [exact tag_path_ok|]. split; [exact route_emitted_ok|exact route_total].
Qed.
Print Assumptions C09_guarded.

(* the guard is exact: every port number 15..255 (with any slot link) is emitted as bytes that do
   NOT read back as that port, and every port number above 255 is refused with DataError (nothing
   is emitted, so nothing is mis-addressed) *)
Theorem C09_guard_exact :
  (forall n z, 15 <= n <= 255 -> 0 <= z <= 255 ->
     encode_seg true (Port (inl n) (LinkInt z)) = Ok [n; z] /\ parse_padded_epath [n; z] <> Some [SPort n [z]])
  /\ (forall n link, 256 <= n -> encode_seg true (Port (inl n) link) = Err DataError).
Proof. split; [exact port_15_255_misread|exact port_gt255_rejected]. Qed.
Print Assumptions C09_guard_exact.

(* ================================================================ non-vacuity *)
(* Program:Main.tag[1,256,65536].m[7] with symbol-instance addressing requested (ignored under
   program scope); arr[70000].x addressed by instance id 300; the route bp/3, enet/10.10.10.1
   followed by the message-router path *)
Definition ex_tag1 : tagpath :=
  {| tp_program := Some (txt "Main");
     tp_base := {| lv_name := txt "tag"; lv_idx := [txt "1"; txt "256"; txt "65536"] |};
     tp_members := [{| lv_name := txt "m"; lv_idx := [txt "7"] |}] |}.
Definition ex_tag2 : tagpath :=
  {| tp_program := None;
     tp_base := {| lv_name := txt "arr"; lv_idx := [txt "70000"] |};
     tp_members := [{| lv_name := txt "x"; lv_idx := [] |}] |}.
Definition ex_hops : list hop :=
  [{| hop_port := inr (txt "bp"); hop_to := HSlot 3 |};
   {| hop_port := inl 2; hop_to := HAddr (txt "10") (txt "10") (txt "10") (txt "1") |}].
Definition ex_mr : list seg := [Logical (txt "class_id") (LBytes [2]); Logical (txt "instance_id") (LInt 1)].

Example C09_nonvacuous :
  wf_tagpath LOGICAL_LIMIT ex_tag1 = true /\ wf_instance LOGICAL_LIMIT ex_tag1 (Some 9) true = true
  /\ tag_request_path (render_tag ex_tag1) (Some 9) true
     = Ok (Some [19; 145; 12; 80; 114; 111; 103; 114; 97; 109; 58; 77; 97; 105; 110; 145; 3; 116; 97; 103; 0;
                 40; 1; 41; 0; 0; 1; 42; 0; 0; 0; 1; 0; 145; 1; 109; 0; 40; 7])
  /\ wf_tagpath LOGICAL_LIMIT ex_tag2 = true /\ wf_instance LOGICAL_LIMIT ex_tag2 (Some 300) true = true
  /\ tag_reading ex_tag2 (Some 300) true = [SLogical 0 107; SLogical 1 300; SLogical 2 70000; SSymbol (txt "x")]
  /\ tag_request_path (render_tag ex_tag2) (Some 300) true
     = Ok (Some [8; 32; 107; 37; 0; 44; 1; 42; 0; 112; 17; 1; 0; 145; 1; 120; 0])
  /\ forallb (wf_hop 14) ex_hops = true
  /\ epath_encode padded_PADDED_EPATH (map hop_seg ex_hops ++ ex_mr) true true
     = Ok [9; 0; 1; 3; 18; 10; 49; 48; 46; 49; 48; 46; 49; 48; 46; 49; 32; 2; 36; 1]
  /\ parse_counted true [9; 0; 1; 3; 18; 10; 49; 48; 46; 49; 48; 46; 49; 48; 46; 49; 32; 2; 36; 1]
     = Some [SPort 1 [3]; SPort 2 (txt "10.10.10.1"); SLogical 0 2; SLogical 1 1].
Proof. vm_compute. repeat split. Qed.
