(* Props/C09.v — emitted CIP paths denote the addressed object.
   Model: Model/Path.v (LogicalSegment / PortSegment / DataSegment._encode, EPATH.encode,
   request_path, tag_request_path, _find_tag_index; bit tables and port names regenerated into
   Gen/PathTables.v).  Oracle: the strict padded-EPATH parser and the intended readings of
   Spec/EPathParser.v.  Statements + exact + Print Assumptions only; proofs in Proofs/Path*.v, C09P.v. *)
From Coq Require Import String.
From PV Require Import Base.Bytes Base.Res Base.PyStr Gen.PathTables Model.Path Spec.EPathParser
     Proofs.PathSeg Proofs.PathTag Proofs.C09P.
Open Scope Z_scope.

(* ---- logical segments: every value 0..2^32-1 of a class / instance / member / connection point /
   attribute id is emitted, has even length and is read back as exactly that type and number
   (the 255/256 and 65535/65536 format boundaries are case splits of the proof, not samples) *)
Definition C09_logical : Prop :=
  forall t lt v, assoc_text t spec_ltypes = Some lt -> 0 <= v < 4294967296 ->
    exists bs, encode_seg true (Logical t (LInt v)) = Ok bs /\ Nat.even (length bs) = true
               /\ parse_padded_epath bs = Some [SLogical lt v].

(* ---- any path: whenever PADDED_EPATH.encode(segments, length=True[, pad_length]) EMITS bytes for
   segments that have an intended reading, these are: the word count, the optional zero pad byte,
   and an even-length body of exactly that many words which the independent parser reads back as
   exactly the intended names and numbers *)
Definition C09_epath : Prop :=
  forall segs ssegs pad_length out,
    denote_all segs = Some ssegs ->
    epath_encode padded_PADDED_EPATH segs true pad_length = Ok out ->
    exists w body, out = w :: (if pad_length then [0] else []) ++ body /\ len body = 2 * w
                   /\ parse_padded_epath body = Some ssegs /\ parse_counted pad_length out = Some ssegs.

(* ---- and it does emit, unless the path needs more than 255 words (then DataError, never a
   truncated count) *)
Definition C09_epath_total : Prop :=
  forall segs ssegs pad_length,
    denote_all segs = Some ssegs ->
    exists body, encode_segs padded_PADDED_EPATH segs = Ok body /\ Nat.even (length body) = true
      /\ parse_padded_epath body = Some ssegs
      /\ epath_encode padded_PADDED_EPATH segs true pad_length
         = (if len body / 2 <=? 255 then Ok (counted pad_length body) else Err DataError)
      /\ (len body / 2 <= 255 -> parse_counted pad_length (counted pad_length body) = Some ssegs).

(* ---- class / instance / attribute paths of generic messages: always emitted *)
Definition C09_request : Prop :=
  forall c i a, 0 <= c < 4294967296 -> 0 <= i < 4294967296 ->
    match a with Some x => 0 < x < 4294967296 | None => True end ->
    exists out, request_path (LInt c) (LInt i) (option_map LInt a) = Ok out
                /\ parse_counted false out = Some (request_reading c i a).

(* ---- tag strings: for EVERY tag AST in the documented syntax (optional program scope, any
   number of nested members, any number of indices per level (the documented 0-3 included), every
   index and instance id below 2^32, names of either length parity), tag_request_path applied to its
   rendering emits the counted path that reads back as the AST's names and numbers
   (symbol-instance addressing included), or DataError when it needs more than 255 words *)
Definition C09_tag : Prop :=
  forall p inst use,
    wf_tagpath LOGICAL_LIMIT p = true -> wf_instance LOGICAL_LIMIT p inst use = true ->
    exists body, Nat.even (length body) = true
      /\ parse_padded_epath body = Some (tag_reading p inst use)
      /\ tag_request_path (render_tag p) inst use
         = (if len body / 2 <=? 255 then Ok (Some (counted false body)) else Err DataError)
      /\ (len body / 2 <= 255 -> parse_counted false (counted false body) = Some (tag_reading p inst use)).

(* ---- routes: hops with named ports or ANY CIP port number 1..65535 (above 14: port identifier
   15 + the 16-bit extended port number), slot links (int or decimal text) and IPv4 links of every
   length (link size byte + pad), optionally followed by further segments (the message-router path
   of Forward Open): emitted unless longer than 255 words, and what is emitted reads back as exactly
   those ports and link addresses *)
Definition C09_route : Prop :=
  forall hops extra extra_r pad_length,
    forallb (wf_hop 65535) hops = true -> denote_all extra = Some extra_r ->
    exists body, Nat.even (length body) = true
      /\ parse_padded_epath body = Some (map hop_reading hops ++ extra_r)
      /\ epath_encode padded_PADDED_EPATH (map hop_seg hops ++ extra) true pad_length
         = (if len body / 2 <=? 255 then Ok (counted pad_length body) else Err DataError)
      /\ (len body / 2 <= 255 ->
          parse_counted pad_length (counted pad_length body) = Some (map hop_reading hops ++ extra_r)).

(* ================================================================ full strength *)
Definition C09_full : Prop :=
  C09_logical /\ C09_epath /\ C09_epath_total /\ C09_request /\ C09_tag /\ C09_route.

Theorem C09_holds : C09_full.
Proof.
  split; [exact logical_ok|]. split; [exact epath_emitted_ok|]. split; [exact epath_total|].
  split; [exact request_path_ok|]. split; [exact tag_path_ok|exact route_total].
Qed.
Print Assumptions C09_holds.

(* outside the port numbers: a number that does not fit 16 bits, or a negative one, is refused
   with DataError (nothing is emitted); 0 (reserved, not a port number) is written as it is and the
   strict parser refuses the result *)
Theorem C09_port_range :
  (forall n link, 65536 <= n -> encode_seg true (Port (inl n) link) = Err DataError)
  /\ (forall n link, n < 0 -> encode_seg true (Port (inl n) link) = Err DataError)
  /\ (forall z, 0 <= z <= 255 ->
        encode_seg true (Port (inl 0) (LinkInt z)) = Ok [0; z] /\ parse_padded_epath [0; z] = None).
Proof. split; [exact port_gt65535_rejected|]. split; [exact port_negative_rejected|exact port_zero_unreadable]. Qed.
Print Assumptions C09_port_range.

(* ================================================================ non-vacuity *)
(* Program:Main.tag[1,256,65536].m[7] with symbol-instance addressing requested (ignored under
   program scope); arr[70000].x addressed by instance id 300; the route bp/3, enet/10.10.10.1
   then port 300 (extended port identifier) slot "7",
   followed by the message-router path *)
Definition ex_tag1 : tagpath :=
  {| tp_program := Some (txt "Main");
     tp_base := {| lv_name := txt "tag"; lv_idx := [txt "1"; txt "256"; txt "65536"] |};
     tp_members := [{| lv_name := txt "m"; lv_idx := [txt "7"] |}] |}.
Definition ex_tag2 : tagpath :=
  {| tp_program := None;
     tp_base := {| lv_name := txt "arr"; lv_idx := [txt "70000"] |};
     tp_members := [{| lv_name := txt "x"; lv_idx := [] |}] |}.
Definition ex_hops : list hop :=
  [{| hop_port := inr (txt "bp"); hop_to := HSlot 3 |};
   {| hop_port := inl 2; hop_to := HAddr (txt "10") (txt "10") (txt "10") (txt "1") |};
   {| hop_port := inl 300; hop_to := HSlotStr (txt "7") |}].
Definition ex_mr : list seg := [Logical (txt "class_id") (LBytes [2]); Logical (txt "instance_id") (LInt 1)].

Example C09_nonvacuous :
  wf_tagpath LOGICAL_LIMIT ex_tag1 = true /\ wf_instance LOGICAL_LIMIT ex_tag1 (Some 9) true = true
  /\ tag_request_path (render_tag ex_tag1) (Some 9) true
     = Ok (Some [19; 145; 12; 80; 114; 111; 103; 114; 97; 109; 58; 77; 97; 105; 110; 145; 3; 116; 97; 103; 0;
                 40; 1; 41; 0; 0; 1; 42; 0; 0; 0; 1; 0; 145; 1; 109; 0; 40; 7])
  /\ wf_tagpath LOGICAL_LIMIT ex_tag2 = true /\ wf_instance LOGICAL_LIMIT ex_tag2 (Some 300) true = true
  /\ tag_reading ex_tag2 (Some 300) true = [SLogical 0 107; SLogical 1 300; SLogical 2 70000; SSymbol (txt "x")]
  /\ tag_request_path (render_tag ex_tag2) (Some 300) true
     = Ok (Some [8; 32; 107; 37; 0; 44; 1; 42; 0; 112; 17; 1; 0; 145; 1; 120; 0])
  /\ forallb (wf_hop 65535) ex_hops = true
  /\ epath_encode padded_PADDED_EPATH (map hop_seg ex_hops ++ ex_mr) true true
     = Ok [11; 0; 1; 3; 18; 10; 49; 48; 46; 49; 48; 46; 49; 48; 46; 49; 15; 44; 1; 7; 32; 2; 36; 1]
  /\ parse_counted true [11; 0; 1; 3; 18; 10; 49; 48; 46; 49; 48; 46; 49; 48; 46; 49; 15; 44; 1; 7; 32; 2; 36; 1]
     = Some [SPort 1 [3]; SPort 2 (txt "10.10.10.1"); SPort 300 [7]; SLogical 0 2; SLogical 1 1].
Proof. vm_compute. repeat split. Qed.
