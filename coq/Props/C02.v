(* Props/C02.v — tag writes change exactly the addressed data, exactly once.
   Statements + exact + Print Assumptions only.
   Model: Model/LogixWrite.v (encode_value, the write / fragmented / read-modify-write packets,
   RequestPacket.build_message, _send_write_fragmented, the packets of a plan) over the planner
   Model/LogixPlan.v.  Specification side: Spec/Expect.v (ref_write / ref_read: the reference effect
   of a request on the project's memory) and Spec/TargetLogix.v (the controller's tag services, which
   log every executed write as EvApp 1).  Proofs: Proofs/WriteBits.v WriteEnc.v WriteMsg.v WritePlan.v
   WriteCorrect.v; still-open request kinds are stated in Proofs/WriteFull.v.

   Reading guide.  A write request reaches the controller as: sequence count, service, request path,
   data.  "The path the driver emits denotes the addressed tag" is property C09 (and C01's parsing):
   here the wire location [l] the target resolves the path to is the one of the reference place
   (same instance, byte offset, type, remaining elements).  Everything after that point is proved:
   what the model puts in the data (type field, element count, value bytes / masks), that the
   target's strict service accepts it, that the memory it leaves IS the reference memory
   (so: the addressed bytes hold the reference encoding and nothing else moved), that exactly one
   executed write is logged, and that every request of a call is served by exactly one packet. *)
From Coq Require Import String Permutation.
From PV Require Import Base.Bytes Base.Res Base.PyStr Model.CodecFloat Model.Path Model.LogixPlan Model.LogixWrite.
From PV Require Import Spec.EncapParser Spec.MRParser Spec.TargetIface Spec.TargetCore Spec.Project Spec.Expect Spec.TargetLogix.
From PV Require Import Proofs.PlanP Proofs.TargetLogixP Proofs.WriteBits Proofs.WriteEnc Proofs.WriteMsg Proofs.WritePlan Proofs.WriteCorrect Proofs.WriteFull Proofs.WriteBools Proofs.WriteCall Proofs.WriteStruct Proofs.WriteMore.
Open Scope Z_scope.

(* ================================================================ rmw_effect *)
(* For ALL old values, ALL lists of bit writes merged into one packet (named bits 0..63; for a
   BOOL-array element the bit is taken mod 32) and the tag's width size (1/2/4/8): both masks are
   encodable and are sent with exactly `size` bytes; what the target computes, (old | OR) & AND
   byte-wise on the size-byte images, is the reference set/clear of exactly the named bits below the
   width, in call order: bit k of the result is the value of the LAST write naming k, and the old
   bit k when no write names it. *)
Definition C02_rmw_effect : Prop :=
  forall dword bl size old,
  Forall (fun bv => 0 <= eff_bit dword (fst bv) < 64) bl -> 0 < size <= 8 -> 0 <= old < pow256 (Z.to_nat size) ->
  let o := fst (rmw_masks dword bl) in
  let a := snd (rmw_masks dword bl) in
  let w := Z.to_nat size in
  mask_bytes o size = Ok (le_enc w o) /\ mask_bytes a size = Ok (le_enc w a)
  /\ length (le_enc w o) = w /\ length (le_enc w a) = w
  /\ le_dec (rmw_bytes (le_enc w old) (le_enc w o) (le_enc w a)) = apply_bits old (filter (in_width size) (eff dword bl))
  /\ forall k, 0 <= k ->
       Z.testbit (apply_bits old (filter (in_width size) (eff dword bl))) k
       = if k <? 8 * size then or_default (last_write (eff dword bl) k) (Z.testbit old k) else false.
Theorem C02_rmw_effect_holds : C02_rmw_effect.
Proof. exact rmw_effect. Qed.
Print Assumptions C02_rmw_effect_holds.

(* ================================================================ encode_value_sound *)
Definition C02_encode_value : Prop :=
  (* bytes pass through *)
  (forall q b, q_value q = PBytes b -> encode_value q = Ok (b, q_elements q))
  (* every failure is a RequestError *)
  /\ (forall q e, is_bytes (q_value q) = false -> encode_value q = Err e -> e = RequestError)
  (* BOOL arrays: an index that is not a multiple of 32 is refused *)
  /\ (forall q, is_bytes (q_value q) = false -> q_dword q = true -> opt_or0 (q_bit q) mod 32 <> 0 ->
        encode_value q = Err RequestError)
  (* ... and the element count becomes elements - bit / 32 (unchanged for other types) *)
  /\ (forall q b n, is_bytes (q_value q) = false -> encode_value q = Ok (b, n) -> n = q_new_elements q)
  (* which, with _parse_tag_request's ceil((bit + n) / 32), is ceil(n / 32): the DWORDs written *)
  /\ (forall bit n, 0 <= bit -> bit mod 32 = 0 -> 0 <= n ->
        (bit + n) / 32 + (if (bit + n) mod 32 =? 0 then 0 else 1) - bit / 32 = n / 32 + (if n mod 32 =? 0 then 0 else 1))
  (* a list longer than the requested count is cut to it *)
  /\ (forall q l, q_value q = PList l -> is_array_ty (ti_type (q_info q)) = true ->
        (q_dword q = true -> opt_or0 (q_bit q) mod 32 = 0) -> 1 < q_value_elements q -> q_value_elements q <= LogixWrite.zlen l ->
        encode_value q = encode_value (with_value q (PList (firstn (Z.to_nat (q_value_elements q)) l))))
  (* a shorter one is a RequestError *)
  /\ (forall q l, q_value q = PList l -> is_array_ty (ti_type (q_info q)) = true ->
        (q_dword q = true -> opt_or0 (q_bit q) mod 32 = 0) -> 1 < q_value_elements q -> LogixWrite.zlen l < q_value_elements q ->
        encode_value q = Err RequestError)
  (* a scalar written to one element of an array is [scalar] *)
  /\ (forall q, is_bytes (q_value q) = false -> is_nonstr_sequence (q_value q) = false ->
        is_array_ty (ti_type (q_info q)) = true -> q_value_elements q <= 1 ->
        (q_dword q = true -> opt_or0 (q_bit q) mod 32 = 0) ->
        encode_value q = encode_value (with_value q (PList [q_value q]))).
Theorem C02_encode_value_holds : C02_encode_value.
Proof.
  split; [exact encode_value_bytes|]. split; [exact encode_value_error_kind|]. split; [exact encode_value_misaligned|].
  split; [exact encode_value_elements|]. split; [exact bool_array_elements|]. split; [exact encode_value_truncates|].
  split; [exact encode_value_too_short|]. exact encode_value_scalar.
Qed.
Print Assumptions C02_encode_value_holds.

(* ================================================================ build_message_once + layout *)
Definition C02_build_once : Prop :=
  (forall p p1, build_message p = Ok p1 ->
     build_message p1 = Ok p1 /\ k_msg_setup p1 = true /\ k_message p1 = concat (k_msg p1))
  /\ (forall p p1 p2, build_message p = Ok p1 -> build_message p1 = Ok p2 -> k_message p2 = k_message p1).
Theorem C02_build_once_holds : C02_build_once.
Proof. split; [exact build_message_once|exact build_message_twice]. Qed.
Print Assumptions C02_build_once_holds.

(* the fragment message and the read-modify-write message; the target's message-router parser
   splits every message into service / path / data (the Write Tag message is in the theorems below) *)
Definition C02_layout : Prop :=
  (forall seq r off seg p, frag_from_request seq r off seg = Ok p -> seg <> [] -> k_path r <> None ->
     0 <= seq < 65536 -> 0 <= k_elements r < 65536 -> 0 <= off < 4294967296 ->
     exists p1 path, k_path r = Some path /\ build_message p = Ok p1
       /\ k_message p1 = le_enc 2 seq ++ [83] ++ path ++ frag_data (k_packed_type p) (k_elements r) off seg)
  /\ (forall p size o a path ob ab,
     k_kind p = KRmw -> k_msg_setup p = false -> k_msg p = [] -> k_added p = [] -> k_path p = Some path ->
     k_mask_size p = size -> k_or p = o -> k_and p = a ->
     0 <= k_seq p < 65536 -> 0 <= size < 65536 -> mask_bytes o size = Ok ob -> mask_bytes a size = Ok ab ->
     exists p1, build_message p = Ok p1 /\ k_message p1 = le_enc 2 (k_seq p) ++ [78] ++ path ++ rmw_data size ob ab)
  /\ (forall svc path body data, 0 <= svc < 128 -> counted_path path body ->
     MRParser.parse_mr ([svc] ++ path ++ data) = EncapParser.RcOk {| mr_service := svc; mr_path := body; mr_data := data |})
  (* and the fragmented service stores its segment at its offset *)
  /\ (forall p m img l data ty n off seg s,
     parse_wtype data = Some (ty, le_enc 2 n ++ le_enc 4 off ++ seg) ->
     type_matches p l ty = true -> loc_esize p l = Some s ->
     1 <= n <= w_avail l -> n < 65536 -> 0 <= off < 4294967296 ->
     1 <= Expect.blen seg -> off < n * s -> off + Expect.blen seg <= n * s ->
     fst (svc_write_frag p m img l data) = fst (do_store 83 m img l off seg)
     /\ exists extra, snd (svc_write_frag p m img l data) = snd (do_store 83 m img l off seg) ++ extra
          /\ Forall (fun e => match e with EvApp 3 _ _ => True | _ => False end) extra).
Theorem C02_layout_holds : C02_layout.
Proof. split; [exact frag_message|]. split; [exact rmw_message|]. split; [exact parse_mr_message|exact svc_write_frag_accepts]. Qed.
Print Assumptions C02_layout_holds.

(* ================================================================ fragments *)
(* the segments tile the value (from Proofs/PlanP.v), and storing them in order at their offsets
   leaves the image that one store of the whole value leaves *)
Definition C02_fragments : Prop :=
  (forall conn ovh value, 0 < conn - ovh ->
     let frs := write_fragments conn ovh value in
     concat (map snd frs) = value
     /\ Forall (fun '(o, s) => s <> [] /\ ovh + Z.of_nat (length s) <= conn) frs
     /\ (forall k, (k < length frs)%nat -> fst (nth k frs (0, [])) = Z.of_nat (length (concat (firstn k (map snd frs)))))
     /\ (forall k, (k < length frs)%nat ->
           snd (nth k frs (0, [])) = firstn (length (snd (nth k frs (0, [])))) (skipn (Z.to_nat (fst (nth k frs (0, [])))) value)))
  /\ (forall img base conn ovh value, 0 < conn - ovh -> value <> [] ->
     store_frags img base (write_fragments conn ovh value) = put_bytes img base value).
Theorem C02_fragments_holds : C02_fragments.
Proof. split; [exact write_frag_tiles|exact frag_stores_compose]. Qed.
Print Assumptions C02_fragments_holds.

(* ================================================================ applied_once *)
(* In what write() sends for a call with distinct request ids (they are the positions in the call):
   a request that parsed and encoded is served by exactly one packet — one Write Tag service, alone
   or as one entry of one multi-service packet, or one fragmented transfer, or, for a bit write, the
   single Read-Modify-Write of its merged group; a request that failed is served by none.  (Each
   executed service logs exactly one EvApp 1: the theorems below.) *)
Definition C02_applied_once : Prop :=
  forall cfg v reqs plan out failed,
  write_plan cfg v reqs = Ok (plan, out, failed) -> NoDup (map q_id reqs) ->
  length failed = length reqs
  /\ forall k q, nth_error reqs k = Some q ->
       exists fl, nth_error failed k = Some (q_id q, fl)
                  /\ count_occ Z.eq_dec (flat_map out_ids out) (q_id q) = if fl then 0%nat else 1%nat.
Theorem C02_applied_once_holds : C02_applied_once.
Proof. exact applied_once. Qed.
Print Assumptions C02_applied_once_holds.

(* ================================================================ write_correct, by kind of request *)
(* one value of an integer / REAL / LREAL type at any data place *)
Definition C02_value : Prop :=
  forall p m r inst off c dims avail s name v rv m_ref img id tag tyh inst_id ui seq path,
  resolve p r = Some (PlData inst off (BAtom c) dims avail) -> r_bit r = None -> r_count r = None ->
  mem_get m inst = Some img ->
  atom_name c = Some name -> value_atom c = true -> atom_size c = Some s -> denotes_atom c v rv ->
  ref_write p m r rv = Some m_ref ->
  1 <= avail -> 0 <= seq < 65536 ->
  let info := mkInfo false name (WElem name) tyh inst_id in
  let q := mkParsed id false tag None 1 None info v in
  let l := mkWLoc inst off (BAtom c) dims avail None in
  path_of tag info ui = Ok (Some path) ->
  exists data pk pk1,
    encode_value q = Ok (data, 1)
    /\ new_write_packet KWrite seq tag 1 info id ui 0 data = Ok pk
    /\ build_message pk = Ok pk1
    /\ k_message pk1 = le_enc 2 seq ++ [77] ++ path ++ write_data (le_enc 2 c) 1 data
    /\ svc_write p m img l (write_data (le_enc 2 c) 1 data) = (m_ref, mr_ok [], [EvApp 1 [inst; off; 77] data]).
Theorem C02_value_holds : C02_value.
Proof. exact write_correct_value. Qed.
Print Assumptions C02_value_holds.

(* `{n}` consecutive elements from any index; a longer list is truncated to n *)
Definition C02_array : Prop :=
  forall p m r inst off c dims avail s name l_py vs n m_ref img id tag n0 tyh inst_id ui seq path,
  resolve p r = Some (PlData inst off (BAtom c) dims avail) -> r_bit r = None -> r_count r = Some n ->
  mem_get m inst = Some img ->
  atom_name c = Some name -> value_atom c = true -> atom_size c = Some s ->
  Forall2 (denotes_atom c) l_py vs ->
  ref_write p m r (RList vs) = Some m_ref ->
  1 < n < 65536 -> 0 <= seq < 65536 ->
  let info := mkInfo false name (WArray n0 (WElem name)) tyh inst_id in
  let q := mkParsed id false tag None n None info (PList l_py) in
  let l := mkWLoc inst off (BAtom c) dims avail None in
  path_of tag info ui = Ok (Some path) ->
  exists data pk pk1,
    encode_value q = Ok (data, n)
    /\ new_write_packet KWrite seq tag n info id ui 0 data = Ok pk
    /\ build_message pk = Ok pk1
    /\ k_message pk1 = le_enc 2 seq ++ [77] ++ path ++ write_data (le_enc 2 c) n data
    /\ svc_write p m img l (write_data (le_enc 2 c) n data) = (m_ref, mr_ok [], [EvApp 1 [inst; off; 77] data]).
Theorem C02_array_holds : C02_array.
Proof. exact write_correct_array. Qed.
Print Assumptions C02_array_holds.

(* a string: LEN and characters, truncated to the capacity, the rest of DATA zero *)
Definition C02_string : Prop :=
  forall p m r inst off tid dims avail t lm dm cs m_ref img id tag tname inst_id ui seq path,
  resolve p r = Some (PlData inst off (BStruct tid) dims avail) -> r_bit r = None -> r_count r = None ->
  mem_get m inst = Some img ->
  find_template (p_templates p) tid = Some t -> string_shape t = Some (lm, dm) ->
  m_off lm = 0 -> m_off dm = 4 -> 0 <= m_arr dm -> 4 + m_arr dm <= t_size t -> 0 <= t_handle t < 65536 ->
  PyStr.text_eqb tname n_DWORD = false ->
  ref_write p m r (RStr cs) = Some m_ref ->
  1 <= avail -> 0 <= seq < 65536 ->
  let info := mkInfo true tname (WFixedStr (t_size t - 4) (m_arr dm)) (t_handle t) inst_id in
  let q := mkParsed id false tag None 1 None info (PStr cs) in
  let l := mkWLoc inst off (BStruct tid) dims avail None in
  path_of tag info ui = Ok (Some path) ->
  exists data pk pk1,
    encode_value q = Ok (data, 1)
    /\ new_write_packet KWrite seq tag 1 info id ui 0 data = Ok pk
    /\ build_message pk = Ok pk1
    /\ k_message pk1 = le_enc 2 seq ++ [77] ++ path ++ write_data (160 :: 2 :: le_enc 2 (t_handle t)) 1 data
    /\ svc_write p m img l (write_data (160 :: 2 :: le_enc 2 (t_handle t)) 1 data) = (m_ref, mr_ok [], [EvApp 1 [inst; off; 77] data]).
Theorem C02_string_holds : C02_string.
Proof. exact write_correct_string. Qed.
Print Assumptions C02_string_holds.

(* a BOOL tag / BOOL member: only its bit of the host byte *)
Definition C02_bool : Prop :=
  forall p m r inst off bit v m_ref img id tag tyh inst_id ui seq path,
  resolve p r = Some (PlBit inst off bit) -> r_bit r = None -> r_count r = None ->
  mem_get m inst = Some img ->
  ref_write p m r (RBool (truthy v)) = Some m_ref ->
  is_bytes v = false -> 0 <= seq < 65536 ->
  let info := mkInfo false n_BOOL (WElem n_BOOL) tyh inst_id in
  let q := mkParsed id false tag None 1 None info v in
  let l := mkWLoc inst off (BAtom C_BOOL) [] 1 (Some bit) in
  path_of tag info ui = Ok (Some path) ->
  exists data pk pk1 stored,
    encode_value q = Ok (data, 1) /\ data = [if truthy v then 255 else 0]
    /\ new_write_packet KWrite seq tag 1 info id ui 0 data = Ok pk
    /\ build_message pk = Ok pk1
    /\ k_message pk1 = le_enc 2 seq ++ [77] ++ path ++ write_data (le_enc 2 C_BOOL) 1 data
    /\ svc_write p m img l (write_data (le_enc 2 C_BOOL) 1 data) = (m_ref, mr_ok [], [EvApp 1 [inst; off; 77] [stored]]).
Theorem C02_bool_holds : C02_bool.
Proof. exact write_correct_bool. Qed.
Print Assumptions C02_bool_holds.

(* bits of an integer, any number of them merged into ONE Read-Modify-Write: the single store of the
   target = the reference bit writes applied one after the other in call order *)
Definition C02_bits : Prop :=
  forall p m img inst off c dims avail s bl old,
  atom_size c = Some s -> atom_integer c = true ->
  get_bytes img off s = Some old -> bytes_ok old = true ->
  Forall (fun bv => 0 <= fst bv < 8 * s) bl -> bl <> [] ->
  let pl := PlData inst off (BAtom c) dims avail in
  let l := mkWLoc inst off (BAtom c) dims avail None in
  let o := fst (rmw_masks false bl) in
  let a := snd (rmw_masks false bl) in
  exists ob ab img' stored,
    mask_bytes o s = Ok ob /\ mask_bytes a s = Ok ab
    /\ length ob = Z.to_nat s /\ length ab = Z.to_nat s
    /\ fold_left (ref_bit_step p pl) bl (Some img) = Some img'
    /\ svc_rmw p m img l (rmw_data s ob ab) = (mem_set m inst img', mr_ok [], [EvApp 1 [inst; off; 78] stored]).
Theorem C02_bits_holds : C02_bits.
Proof. exact write_correct_bits. Qed.
Print Assumptions C02_bits_holds.

(* ================================================================ nothing else changes; read_after_write *)
Definition C02_frame : Prop :=
  (* whatever is stored (value, slice, string, RMW word): every other tag, and every byte of this tag
     outside the stored range, keeps its value; the stored range reads back *)
  (forall m img inst off d img', put_bytes img off d = Some img' ->
     (forall j, j <> inst -> mem_get (mem_set m inst img') j = mem_get m j)
     /\ mem_get (mem_set m inst img') inst = Some img'
     /\ length img' = length img
     /\ (forall k, (k < Z.to_nat off \/ Z.to_nat off + length d <= k)%nat -> nth k img' 0 = nth k img 0)
     /\ get_bytes img' off (Expect.blen d) = Some d)
  (* read_after_write at the reference level: after the reference write (= the target's memory by the
     theorems above) the reference read of the same address returns the written value *)
  /\ (forall p m r v m' inst off c dims avail s,
     resolve p r = Some (PlData inst off (BAtom c) dims avail) ->
     r_bit r = None -> r_count r = None -> value_atom c = true -> atom_size c = Some s ->
     ref_write p m r v = Some m' ->
     ref_read p m' r = Some v
     /\ (forall j, j <> inst -> mem_get m' j = mem_get m j)
     /\ exists img img', mem_get m inst = Some img /\ mem_get m' inst = Some img'
          /\ length img' = length img
          /\ forall k, (k < Z.to_nat off \/ Z.to_nat off + Z.to_nat s <= k)%nat -> nth k img' 0 = nth k img 0).
Theorem C02_frame_holds : C02_frame.
Proof. split; [exact store_frame|exact value_frame_and_readback]. Qed.
Print Assumptions C02_frame_holds.

(* BOOL-array aligned ranges `arr[i]{n}` (i, n multiples of 32): whole 32-bit words from DWORD i/32;
   the statement is Proofs/WriteFull.stmt_bools *)
Definition C02_bools : Prop := stmt_bools.
Theorem C02_bools_holds : C02_bools.
Proof. exact write_correct_bools. Qed.
Print Assumptions C02_bools_holds.

(* one BOOL-array element `arr[i]`: ONE Read-Modify-Write of DWORD i / 32 naming bit i mod 32; the
   statement is Proofs/WriteFull.stmt_bool_element *)
Definition C02_bool_element : Prop := stmt_bool_element.
Theorem C02_bool_element_holds : C02_bool_element.
Proof. exact write_correct_bool_element. Qed.
Print Assumptions C02_bool_element_holds.

(* a whole structure given as a dict: visible members at their offsets (nested structures, strings,
   BOOL[32k] members as DWORDs, arrays of them, by induction over template nesting), BOOL members in the
   bits of their host bytes — hidden hosts, or a VISIBLE host listed before them (module-defined types:
   host and bits are then both in the dict; the bits are set after the host is stored, by the code's
   "all members, then all bit members" exactly as by the reference's member order) —, hidden members
   and padding zero: for the class Proofs/WriteStruct.ty_guard; statement Proofs/WriteStruct.stmt_struct *)
Definition C02_struct : Prop := stmt_struct.
Theorem C02_struct_holds : C02_struct.
Proof. exact write_correct_struct. Qed.
Print Assumptions C02_struct_holds.

(* a structure (or string) given as BYTES: passed through unchanged, stored by Write Tag; when the bytes
   are the reference encoding of a value the memory is ref_write's *)
Definition C02_struct_bytes : Prop :=
  forall p m r inst off tid dims avail t b rv m_ref img id tag ty tname inst_id ui seq path,
  resolve p r = Some (PlData inst off (BStruct tid) dims avail) -> r_bit r = None -> r_count r = None ->
  mem_get m inst = Some img ->
  find_template (p_templates p) tid = Some t -> 0 <= t_handle t < 65536 ->
  encode_val (depth_fuel p) p (BStruct tid) rv = Some b ->
  ref_write p m r rv = Some m_ref ->
  1 <= avail -> 0 <= seq < 65536 ->
  let info := mkInfo true tname ty (t_handle t) inst_id in
  let q := mkParsed id false tag None 1 None info (PBytes b) in
  let l := mkWLoc inst off (BStruct tid) dims avail None in
  path_of tag info ui = Ok (Some path) ->
  exists pk pk1,
    encode_value q = Ok (b, 1)
    /\ new_write_packet KWrite seq tag 1 info id ui 0 b = Ok pk
    /\ build_message pk = Ok pk1
    /\ k_message pk1 = le_enc 2 seq ++ [77] ++ path ++ write_data (160 :: 2 :: le_enc 2 (t_handle t)) 1 b
    /\ svc_write p m img l (write_data (160 :: 2 :: le_enc 2 (t_handle t)) 1 b) = (m_ref, mr_ok [], [EvApp 1 [inst; off; 77] b]).
Theorem C02_struct_bytes_holds : C02_struct_bytes.
Proof. exact write_correct_struct_bytes. Qed.
Print Assumptions C02_struct_bytes_holds.

(* `{n}` consecutive elements of an array of structures / strings (element type in the class of
   C02_struct), longer lists truncated *)
Definition C02_slice : Prop :=
  forall p m r inst off tid dims avail t e l_py vs n m_ref img id tag n0 inst_id ui seq path,
  ty_guard (depth_fuel p) p (BStruct tid) = true -> wty_of (depth_fuel p) p (BStruct tid) = Some e ->
  resolve p r = Some (PlData inst off (BStruct tid) dims avail) -> r_bit r = None -> r_count r = Some n ->
  mem_get m inst = Some img ->
  find_template (p_templates p) tid = Some t -> 0 <= t_handle t < 65536 -> PyStr.text_eqb (t_name t) n_DWORD = false ->
  Forall2 denotes l_py vs ->
  ref_write p m r (RList vs) = Some m_ref ->
  1 < n < 65536 -> 0 <= seq < 65536 ->
  let info := mkInfo true (t_name t) (WArray n0 e) (t_handle t) inst_id in
  let q := mkParsed id false tag None n None info (PList l_py) in
  let l := mkWLoc inst off (BStruct tid) dims avail None in
  path_of tag info ui = Ok (Some path) ->
  exists data pk pk1,
    encode_value q = Ok (data, n)
    /\ new_write_packet KWrite seq tag n info id ui 0 data = Ok pk
    /\ build_message pk = Ok pk1
    /\ k_message pk1 = le_enc 2 seq ++ [77] ++ path ++ write_data (160 :: 2 :: le_enc 2 (t_handle t)) n data
    /\ svc_write p m img l (write_data (160 :: 2 :: le_enc 2 (t_handle t)) n data) = (m_ref, mr_ok [], [EvApp 1 [inst; off; 77] data]).
Theorem C02_slice_holds : C02_slice.
Proof. exact write_correct_slice. Qed.
Print Assumptions C02_slice_holds.

(* ================================================================ the whole call *)
(* A multi-service packet as MultiServiceRequestPacket.build_message emits it, handed to the target's
   message router (TargetCore.dispatch): parsed as service 0x0A to the message router, unwrapped into
   exactly the embedded requests, which are executed one after the other by the application handler;
   application state and executed-write log are those of the embedded requests run in order (so the
   per-request theorems above apply to each of them, on the memory the previous one left). *)
Definition C02_multi : Prop :=
  forall (S : Type) (h : handler S) tr cap sq (st : tstate S) seq members m reqs,
  multi_message seq members = Ok m -> members <> [] ->
  t_inject st = [] -> cf_multi_service (t_cfg st) = true ->
  (forall msgs, map_res tag_only_message members = Ok msgs ->
     Forall2 (fun it r => parse_mr it = RcOk r /\ to_handler r = true) msgs reqs) ->
  exists rq caps, parse_mr (skipn 2 m) = RcOk rq /\ length caps = length reqs
    /\ let st' := fst (dispatch h tr cap sq st rq) in
       t_app st' = fst (run_items h tr (t_app st) (combine reqs caps))
       /\ writes_logged st' = rev (filter is_write_ev (snd (run_items h tr (t_app st) (combine reqs caps)))) ++ writes_logged st.
Theorem C02_multi_holds : C02_multi.
Proof. intros S h. exact (multi_packet_executes h). Qed.
Print Assumptions C02_multi_holds.

(* the Logix write services ignore the reply capacity (the capacities in C02_multi are immaterial) *)
Definition C02_cap_indep : Prop :=
  forall st tr c1 c2 rq l,
  resolve_path (ls_proj st) (mr_service rq =? 85) (mr_path rq) = TgTag l ->
  mr_service rq = 77 \/ mr_service rq = 78 \/ mr_service rq = 83 ->
  logix_request st tr c1 rq = logix_request st tr c2 rq.
Theorem C02_cap_indep_holds : C02_cap_indep.
Proof. exact logix_write_cap_indep. Qed.
Print Assumptions C02_cap_indep_holds.

(* a fragmented transfer end to end: every fragment _send_write_fragmented emits is accepted by Write
   Tag Fragmented, the memory afterwards is the memory ONE store of the whole value leaves, and exactly
   one executed write per fragment is logged, at its running offset *)
Definition C02_frag_transfer : Prop :=
  forall p m l img pt ty n s conn ovh value img',
  (forall r, parse_wtype (pt ++ r) = Some (ty, r)) -> type_matches p l ty = true -> loc_esize p l = Some s ->
  w_bit l = None -> 1 <= n <= w_avail l -> n < 65536 -> Expect.blen value = n * s -> n * s < 4294967296 ->
  mem_get m (w_inst l) = Some img -> 0 < conn - ovh -> value <> [] ->
  put_bytes img (w_off l) value = Some img' ->
  let frs := write_fragments conn ovh value in
  exists evs, run_frags p l pt n m frs = Some (mem_set m (w_inst l) img', evs)
    /\ filter is_store_ev evs = map (fun os => EvApp 1 [w_inst l; w_off l + fst os; 83] (snd os)) frs.
Theorem C02_frag_transfer_holds : C02_frag_transfer.
Proof. exact frag_transfer_correct. Qed.
Print Assumptions C02_frag_transfer_holds.

(* ================================================================ no history *)
(* "for every call, whatever failed before": what write() sends and reports ([write_plan], [write_outcome])
   is a Gallina FUNCTION of the call's arguments: the driver configuration, the parsed requests with their
   values, and the sequence counter [v] — the one piece of driver state a call reads that earlier calls
   (failed or not) have advanced; its freshness is property C17 and no theorem above depends on its value
   beyond 0 <= count < 65536.  Nothing else is carried from one write() to the next: the merge table of bit
   writes, the packets, their masks and messages are created inside the call.  So "run_write from the state
   left by any earlier call = run_write from a fresh state" holds in the model by construction; it is a
   fact about the CODE (no packet, mask or merge table kept on the driver), tied on every run by the
   harness's histories: a multi-request write failing at its k-th send / receive, re-open, further calls
   held to the full oracle and to frame-for-frame correspondence; two drivers alternating on one target. *)
Remark C02_no_history : forall cfg v reqs cfg' v' reqs',
  cfg = cfg' -> v = v' -> reqs = reqs' -> write_plan cfg v reqs = write_plan cfg' v' reqs'.
Proof. intros; subst; reflexivity. Qed.
Remark C02_outcome_no_history : forall out sts out' sts',
  out = out' -> sts = sts' -> write_outcome out sts = write_outcome out' sts'.
Proof. intros; subst; reflexivity. Qed.

(* ================================================================ the property *)
Definition C02_proved : Prop :=
  C02_rmw_effect /\ C02_encode_value /\ C02_build_once /\ C02_layout /\ C02_fragments /\ C02_applied_once
  /\ C02_value /\ C02_array /\ C02_string /\ C02_bool /\ C02_bits /\ C02_bools /\ C02_bool_element /\ C02_frame
  /\ C02_multi /\ C02_cap_indep /\ C02_frag_transfer /\ C02_struct /\ C02_struct_bytes /\ C02_slice.

(* a one-element slice of a BOOL array `arr[i]{1}` written with a one-item list, whatever the item
   (refuted before pycomm3 4698d97: set_bit tested the truthiness of the LIST) *)
Definition C02_bool_slice1 : Prop := stmt_bool_slice1.
Theorem C02_bool_slice1_holds : C02_bool_slice1.
Proof. exact write_correct_bool_slice1. Qed.
Print Assumptions C02_bool_slice1_holds.

(* full strength: whole structures given as dicts for EVERY well-formed project (C02_struct below is
   the same statement for the class [ty_guard]) *)
Definition C02_full : Prop :=
  C02_proved /\ C02_bool_slice1 /\ stmt_struct_with (fun p _ => wf_project p = true).

(* PARTIAL: C02_partial (+ C02_bool_slice1_holds) is everything C02_full asks EXCEPT the struct clause for
   templates outside Proofs/WriteStruct.ty_guard, i.e. exactly:
     - a BOOL member listed BEFORE a visible non-BOOL member that covers its byte (code: bits win; reference:
       the later host overwrites them — the two differ; no fixture or generated project has this order);
     - hidden BOOL members (the code then demands a dict entry for a member the reference does not list);
     - BYTE / WORD / LWORD bit-string members (DWORD / BOOL[32k] members ARE covered);
     - string types whose LEN / DATA are not at offsets 0 / 4.
   Hypotheses the clauses carry, and why they are hypotheses of THIS property rather than gaps:
     - every write_correct_* clause: the target resolves the emitted request path to the wire location
       [l] of the reference place (same instance, offset, type, remaining elements), and the parsed request
       [q] is what _parse_tag_request yields.  Which bytes denote which tag is property C09 (paths) and
       C01/C03 (request parsing), proved there against the same Spec/EPathParser / Spec/Expect; C02 starts
       where the path has been resolved ("the addressed location").
     - C02_value / C02_array / C02_struct for REAL: [denotes] relates the Python float b64 to the reference
       binary32 by round32 b64 = Some b32.  That struct.pack('<f') IS this rounding is the codec property
       (C06/C07, Model/CodecFloat.v against Flocq); C02 states "the encoding of the supplied value".
     - C02_multi / C02_frag_transfer: no error injection pending, multi-service enabled (a configuration of
       the reference target, not of the driver), and the connected-transport layer hands the data item to
       the message router (C11 frames, C14 delivery).
     - 0 <= sequence count, handle, element count < 65536: ranges of the UINT fields, true of every value
       the driver produces (C17 for the counter; the upload for handles).
   All of this is also exercised on the implementation by the oracle of harness/props/c02.py on every run. *)
Theorem C02_partial : C02_proved.
Proof.
  split; [exact rmw_effect|]. split; [exact C02_encode_value_holds|]. split; [exact C02_build_once_holds|].
  split; [exact C02_layout_holds|]. split; [exact C02_fragments_holds|]. split; [exact applied_once|].
  split; [exact write_correct_value|]. split; [exact write_correct_array|]. split; [exact write_correct_string|].
  split; [exact write_correct_bool|]. split; [exact write_correct_bits|]. split; [exact write_correct_bools|].
  split; [exact write_correct_bool_element|]. split; [exact C02_frame_holds|].
  split; [exact C02_multi_holds|]. split; [exact logix_write_cap_indep|]. split; [exact frag_transfer_correct|]. split; [exact write_correct_struct|]. split; [exact write_correct_struct_bytes|exact write_correct_slice].
Qed.
Print Assumptions C02_partial.

(* non-vacuity: the hypotheses are inhabited.  A DINT tag written with -2 through the model's packet
   and the target's service gives the reference memory; four bit writes merged on an INT. *)
Example C02_nonvacuous :
  let g := mkTag [100] 7 ScCtrl (BAtom C_DINT) [] 0 false 0 0 0 0 in
  let p := mkProject [] [g] in
  let m := [(7, [1; 2; 3; 4])] in
  let r := mkReq None [mkSeg [100] []] None None in
  let info := mkInfo false (Expect.zs "DINT") (WElem (Expect.zs "DINT")) 0 (Some 7) in
  let q := mkParsed 0 false [100] None 1 None info (PInt (-2)) in
  wf_project p = true /\ wf_mem p m = true
  /\ resolve p r = Some (PlData 7 0 (BAtom C_DINT) [] 1)
  /\ denotes_atom C_DINT (PInt (-2)) (RInt (-2))
  /\ ref_write p m r (RInt (-2)) = Some [(7, [254; 255; 255; 255])]
  /\ encode_value q = Ok ([254; 255; 255; 255], 1)
  /\ path_of [100] info true = Ok (Some [2; 32; 107; 36; 7])
  /\ svc_write p m [1; 2; 3; 4] (mkWLoc 7 0 (BAtom C_DINT) [] 1 None) (write_data (le_enc 2 C_DINT) 1 [254; 255; 255; 255])
     = ([(7, [254; 255; 255; 255])], mr_ok [], [EvApp 1 [7; 0; 77] [254; 255; 255; 255]])
  /\ rmw_masks false [(3, true); (0, false); (3, false); (9, true)] = (512, 18446744073709551606).
Proof.
  cbv zeta. split; [reflexivity|]. split; [reflexivity|]. split; [reflexivity|].
  split; [constructor; reflexivity|]. vm_compute. repeat split; reflexivity.
Qed.

(* ================================================================ extension: one element through an ARRAY type class *)
(* Request kinds the clauses above do not state (they take a NON-array type class for a single value, and
   1 < n for `{n}`): `arr[i]`, `udts[i]`, `strs[i]`, `udt.arr[j]`, `udts[i].inner[k]` := one value — the tag_info
   the driver holds is the array's (Array(n0, element)), encode_value wraps the value as [value] —, and the same
   places written as `...{1}` with a list of any length >= 1 (first item written, rest ignored, by the code as by
   the reference).  Element types: Proofs/WriteStruct.ty_guard minus bit strings (an element of a BOOL array is
   C02_bool_element / C02_bool_slice1).  Statements: Proofs/WriteSlices.stmt_element / stmt_slice1 (generic in the
   type field packed_data_type yields, under "it parses as a type the location matches"), instances below. *)
From PV Require Import Proofs.WriteSlices.

Definition C02_write_correct_element : Prop := stmt_element.
Theorem C02_write_correct_element_holds : C02_write_correct_element.
Proof. exact write_correct_element. Qed.
Print Assumptions C02_write_correct_element_holds.

Definition C02_write_correct_slice1 : Prop := stmt_slice1.
Theorem C02_write_correct_slice1_holds : C02_write_correct_slice1.
Proof. exact write_correct_slice1. Qed.
Print Assumptions C02_write_correct_slice1_holds.

(* the instance for an element of an array of structures / strings given as a dict / str
   (`udts[i]`, `udt.inner[k]`, `strs[i]`): type field = the structure handle *)
Definition C02_write_correct_element_struct : Prop :=
  forall p m r inst off tid dims avail t e x rv m_ref img id tag n0 inst_id ui seq path,
  ty_guard (depth_fuel p) p (BStruct tid) = true -> wty_of (depth_fuel p) p (BStruct tid) = Some e ->
  resolve p r = Some (PlData inst off (BStruct tid) dims avail) -> r_bit r = None -> r_count r = None ->
  mem_get m inst = Some img ->
  find_template (p_templates p) tid = Some t -> 0 <= t_handle t < 65536 -> PyStr.text_eqb (t_name t) n_DWORD = false ->
  denotes x rv -> ref_write p m r rv = Some m_ref -> 1 <= avail -> 0 <= seq < 65536 ->
  let info := mkInfo true (t_name t) (WArray n0 e) (t_handle t) inst_id in
  let q := mkParsed id false tag None 1 None info x in
  let l := mkWLoc inst off (BStruct tid) dims avail None in
  path_of tag info ui = Ok (Some path) ->
  exists data pk pk1,
    encode_value q = Ok (data, 1)
    /\ new_write_packet KWrite seq tag 1 info id ui 0 data = Ok pk
    /\ build_message pk = Ok pk1
    /\ k_message pk1 = le_enc 2 seq ++ [77] ++ path ++ write_data (160 :: 2 :: le_enc 2 (t_handle t)) 1 data
    /\ svc_write p m img l (write_data (160 :: 2 :: le_enc 2 (t_handle t)) 1 data) = (m_ref, mr_ok [], [EvApp 1 [inst; off; 77] data]).
Theorem C02_write_correct_element_struct_holds : C02_write_correct_element_struct.
Proof. exact write_correct_element_struct. Qed.
Print Assumptions C02_write_correct_element_struct_holds.

(* the instance for an element of an array of integers / REALs / LREALs, incl. an array MEMBER (`udt.arr[j]`) *)
Definition C02_write_correct_element_atom : Prop :=
  forall p m r inst off c dims avail name x rv m_ref img id tag n0 tyh inst_id ui seq path,
  resolve p r = Some (PlData inst off (BAtom c) dims avail) -> r_bit r = None -> r_count r = None ->
  mem_get m inst = Some img ->
  atom_name c = Some name -> value_atom c = true ->
  denotes x rv -> ref_write p m r rv = Some m_ref -> 1 <= avail -> 0 <= seq < 65536 ->
  let info := mkInfo false name (WArray n0 (WElem name)) tyh inst_id in
  let q := mkParsed id false tag None 1 None info x in
  let l := mkWLoc inst off (BAtom c) dims avail None in
  path_of tag info ui = Ok (Some path) ->
  exists data pk pk1,
    encode_value q = Ok (data, 1)
    /\ new_write_packet KWrite seq tag 1 info id ui 0 data = Ok pk
    /\ build_message pk = Ok pk1
    /\ k_message pk1 = le_enc 2 seq ++ [77] ++ path ++ write_data (le_enc 2 c) 1 data
    /\ svc_write p m img l (write_data (le_enc 2 c) 1 data) = (m_ref, mr_ok [], [EvApp 1 [inst; off; 77] data]).
Theorem C02_write_correct_element_atom_holds : C02_write_correct_element_atom.
Proof. exact write_correct_element_atom. Qed.
Print Assumptions C02_write_correct_element_atom_holds.

(* `{1}` instances *)
Definition C02_write_correct_slice1_struct : Prop :=
  forall p m r inst off tid dims avail t e l_py vs m_ref img id tag n0 inst_id ui seq path,
  ty_guard (depth_fuel p) p (BStruct tid) = true -> wty_of (depth_fuel p) p (BStruct tid) = Some e ->
  resolve p r = Some (PlData inst off (BStruct tid) dims avail) -> r_bit r = None -> r_count r = Some 1 ->
  mem_get m inst = Some img ->
  find_template (p_templates p) tid = Some t -> 0 <= t_handle t < 65536 -> PyStr.text_eqb (t_name t) n_DWORD = false ->
  Forall2 denotes l_py vs -> ref_write p m r (RList vs) = Some m_ref -> 0 <= seq < 65536 ->
  let info := mkInfo true (t_name t) (WArray n0 e) (t_handle t) inst_id in
  let q := mkParsed id false tag None 1 None info (PList l_py) in
  let l := mkWLoc inst off (BStruct tid) dims avail None in
  path_of tag info ui = Ok (Some path) ->
  exists data pk pk1,
    encode_value q = Ok (data, 1)
    /\ new_write_packet KWrite seq tag 1 info id ui 0 data = Ok pk
    /\ build_message pk = Ok pk1
    /\ k_message pk1 = le_enc 2 seq ++ [77] ++ path ++ write_data (160 :: 2 :: le_enc 2 (t_handle t)) 1 data
    /\ svc_write p m img l (write_data (160 :: 2 :: le_enc 2 (t_handle t)) 1 data) = (m_ref, mr_ok [], [EvApp 1 [inst; off; 77] data]).
Theorem C02_write_correct_slice1_struct_holds : C02_write_correct_slice1_struct.
Proof. exact write_correct_slice1_struct. Qed.
Print Assumptions C02_write_correct_slice1_struct_holds.

Definition C02_write_correct_slice1_atom : Prop :=
  forall p m r inst off c dims avail name l_py vs m_ref img id tag n0 tyh inst_id ui seq path,
  resolve p r = Some (PlData inst off (BAtom c) dims avail) -> r_bit r = None -> r_count r = Some 1 ->
  mem_get m inst = Some img ->
  atom_name c = Some name -> value_atom c = true ->
  Forall2 denotes l_py vs -> ref_write p m r (RList vs) = Some m_ref -> 0 <= seq < 65536 ->
  let info := mkInfo false name (WArray n0 (WElem name)) tyh inst_id in
  let q := mkParsed id false tag None 1 None info (PList l_py) in
  let l := mkWLoc inst off (BAtom c) dims avail None in
  path_of tag info ui = Ok (Some path) ->
  exists data pk pk1,
    encode_value q = Ok (data, 1)
    /\ new_write_packet KWrite seq tag 1 info id ui 0 data = Ok pk
    /\ build_message pk = Ok pk1
    /\ k_message pk1 = le_enc 2 seq ++ [77] ++ path ++ write_data (le_enc 2 c) 1 data
    /\ svc_write p m img l (write_data (le_enc 2 c) 1 data) = (m_ref, mr_ok [], [EvApp 1 [inst; off; 77] data]).
Theorem C02_write_correct_slice1_atom_holds : C02_write_correct_slice1_atom.
Proof. exact write_correct_slice1_atom. Qed.
Print Assumptions C02_write_correct_slice1_atom_holds.

(* non-vacuity on a concrete project (Proofs/WriteSlices.ex2_proj: mix : udtMix, mixes : udtMix[3], us : udtS with a
   string member): `mixes[1]` := dict; `mixes[2]{1}` := [dict, 5]; member paths `mix.Vals[1]`, `mixes[1].Count`,
   `us.Name` resolve to the data places the clauses are stated for, and the reference / model / target agree there *)
Example C02_write_correct_element_nonvacuous :
  wf_project ex2_proj = true /\ wf_mem ex2_proj ex2_mem = true
  /\ ty_guard (depth_fuel ex2_proj) ex2_proj (BStruct 672) = true
  /\ denotes (py_of ex2_rv) ex2_rv
  /\ resolve ex2_proj (mkReq None [mkSeg (WriteFull.zs "mixes") [1]] None None) = Some (PlData 11 12 (BStruct 672) [] 2)
  /\ resolve ex2_proj (mkReq None [mkSeg (WriteFull.zs "mixes") [2]] None (Some 1)) = Some (PlData 11 24 (BStruct 672) [] 1)
  /\ resolve ex2_proj (mkReq None [mkSeg (WriteFull.zs "mix") []; mkSeg (WriteFull.zs "Vals") [1]] None None) = Some (PlData 9 8 (BAtom C_DINT) [] 1)
  /\ resolve ex2_proj (mkReq None [mkSeg (WriteFull.zs "mixes") [1]; mkSeg (WriteFull.zs "Count") []] None None) = Some (PlData 11 14 (BAtom C_INT) [] 1)
  /\ resolve ex2_proj (mkReq None [mkSeg (WriteFull.zs "us") []; mkSeg (WriteFull.zs "Name") []] None None) = Some (PlData 13 0 (BStruct 3000) [] 1).
Proof.
  split; [reflexivity|]. split; [reflexivity|]. split; [vm_compute; reflexivity|]. split; [exact ex2_denotes|].
  vm_compute. repeat split; reflexivity.
Qed.
Example C02_write_correct_element_example : _ := ex_element_struct.
Example C02_write_correct_slice1_example : _ := ex_slice1_struct.
Example C02_write_correct_member_paths_example : _ := ex_member_paths.

(* ================================================================ C02_full is false of the faithful model; the exact guard *)
(* The struct clause of C02_full for EVERY well-formed project fails on a structure whose BOOL member is listed
   BEFORE a visible member covering its byte, written with a dict that contradicts itself (Pt00 = True, Data = 0 with
   Pt00 = Data.0): the code lets the bits win, the reference lets the later member win; no memory satisfies both
   entries, so this is a limit of the reference's convention, not a violation of the property text (replayed on the
   real driver through the harness (check_call of harness/props/c02.py on the fixed scenario + modT): memory after the write = "bits win",
   every byte outside the structure unchanged, one write executed, frames = the model's; with a dict that does not contradict
   itself the full oracle passes: corpus/C02/10-bool-before-host-consistent-dict.json).
   Second witness (Proofs/WriteStruct2.struct_hidden_bool): a hidden BOOL member makes the dict of the visible
   members fail with RequestError before anything is sent — no successful write, nothing for C02 to say.
   The guard is the complement of Proofs/WriteStruct.ty_guard; inside it the clause is C02_struct_holds. *)
From PV Require Import Proofs.WriteStruct2.

Theorem C02_full_refuted : ~ C02_full.
Proof. intros (_ & _ & H). exact (struct_full_refuted H). Qed.
Print Assumptions C02_full_refuted.

Definition C02_guard (p : project) (tid : Z) : bool := negb (ty_guard (depth_fuel p) p (BStruct tid)).

Definition C02_guarded_stmt : Prop :=
  C02_proved /\ C02_bool_slice1 /\ stmt_struct_with (fun p tid => C02_guard p tid = false).
Theorem C02_guarded : C02_guarded_stmt.
Proof.
  split; [exact C02_partial|]. split; [exact write_correct_bool_slice1|].
  unfold stmt_struct_with. intros p m r inst off tid dims avail t x rv m_ref img id tag ty inst_id ui seq path Hg.
  apply (write_correct_struct p m r inst off tid dims avail t x rv m_ref img id tag ty inst_id ui seq path).
  unfold C02_guard in Hg. destruct (ty_guard (depth_fuel p) p (BStruct tid)); [reflexivity|discriminate].
Qed.
Print Assumptions C02_guarded.

(* the witnesses: both projects are well-formed and outside the guard's complement; what differs / fails *)
Example C02_full_refuted_witness : _ := bh_facts.
Example C02_consistent_dict_agrees : _ := bh_consistent.
Example C02_hidden_bool_witness : _ := struct_hidden_bool.
Example C02_bit_string_members_agree : _ := bits_members_agree.
Example C02_odd_string_layout_differs : _ := odd_string_differs.
