(* Props/C04.v — connected requests fit the connection; large data is tiled by fragments.
   Statement + exact + Print Assumptions only.  Planner model: Model/LogixPlan.v
   (MULTISERVICE_READ_OVERHEAD regenerated from /repo/pycomm3/const.py). *)
From PV Require Import Base.Bytes Model.LogixPlan Proofs.PlanP.
From Coq Require Import Permutation.
Open Scope Z_scope.

Definition C04_full : Prop :=
  (* (1) multi-service READ packets: for every request list, every connection size: each packet's
     planner overhead + the estimates of its requests is within the connection size ... *)
  (forall conn reqs, Forall (fun g => OVH + sum_sz g <= conn \/ g = []) (read_groups conn reqs))
  (* ... and the estimate dominates the bytes really sent and really solicited: for the requests
     (message length m >= 8 incl. the 2-byte sequence count, data size d, type field 2 or 4 bytes) of
     a packet within the bound, the connected request item (10 + sum (2 + m - 2)) and the solicited
     reply item (8 + sum (2 + 4 + tlen + d)) are both within the connection size *)
  /\ (forall conn g real, OVH + sum_sz g <= conn -> 10 <= OVH ->
        map snd g = map (fun '(m, d, t) => d + m + 2) real ->
        Forall (fun '(m, d, t) => 8 <= m /\ 0 <= d /\ (t = 2 \/ t = 4)) real ->
        10 + fold_right (fun '(m, d, t) a => act_req m + a) 0 real <= conn
        /\ 8 + fold_right (fun '(m, d, t) a => act_reply t d + a) 0 real <= conn)
  (* (2) multi-service WRITE packets: OVH + sum of len(message) (which IS the size of the connected
     data item) is within the connection size *)
  /\ (forall conn reqs, let '(_, _, wr) := write_scan conn reqs [] [] [] in
        Forall (fun g => OVH + sum_sz g <= conn \/ g = []) (groups_sized conn wr))
  (* (3) a single read that is not fragmented solicits a reply that fits *)
  /\ (forall conn r, read_build_single conn r = Some (PSingle (r_id r)) -> 10 <= r_msg r -> 0 <= r_data r ->
        forall tlen, tlen = 2 \/ tlen = 4 -> 2 + 4 + tlen + r_data r <= conn /\ r_msg r <= conn)
  (* (4) no request is lost or duplicated by planning (so "any size is readable/writable" reduces to
     the fragmented services): the packets of a plan contain every valid request exactly once *)
  /\ (forall conn micro reqs, Permutation (plan_ids (read_build_requests conn micro reqs)) (map r_id (rvalid reqs)))
  /\ (forall conn reqs, Permutation (plan_ids (write_build_multi conn reqs)) (map w_id (wvalid reqs)))
  (* (5) fragmented WRITE: for every value and every per-fragment overhead below the connection size,
     the fragments concatenate to the value, none is empty, each request fits, the k-th offset is the
     number of bytes in the fragments before it (start 0, contiguous, non-overlapping, exact cover),
     and each fragment is the slice of the value at its offset *)
  /\ (forall conn ovh value, 0 < conn - ovh ->
        let frs := write_fragments conn ovh value in
        concat (map snd frs) = value
        /\ Forall (fun '(o, s) => s <> [] /\ ovh + Z.of_nat (length s) <= conn) frs
        /\ (forall k, (k < length frs)%nat ->
              fst (nth k frs (0, [])) = Z.of_nat (length (concat (firstn k (map snd frs)))))
        /\ (forall k, (k < length frs)%nat ->
              snd (nth k frs (0, [])) = firstn (length (snd (nth k frs (0, [])))) (skipn (Z.to_nat (fst (nth k frs (0, [])))) value)))
  (* (6) fragmented READ: against a peer answering with ANY sequence of fragments (any lengths, the
     last one flagged final) the offsets requested are 0, |f1|, |f1|+|f2|, ... = bytes received so
     far, and the reassembled value is the concatenation *)
  /\ (forall init last,
        read_fragments (map (fun f => (f, true)) init ++ [(last, false)]) 0 [] []
          = Some (offsets_from 0 (init ++ [last]), concat init ++ last)
        /\ forall k, (k < length (init ++ [last]))%nat ->
             nth k (offsets_from 0 (init ++ [last])) 0 = Z.of_nat (length (concat (firstn k (init ++ [last])))))
  (* (7) negotiation: whatever the target accepts, when with_forward_open succeeds the size field of the
     Forward Open that succeeded equals the connection size all of the above plan with; a standard
     Forward Open after a refused Large one asks for 500 *)
  /\ (forall st al astd, 0 <= fo_csize st <= (if fo_ext st then 65535 else 511) ->
        let '(attempts, st', opened) := negotiate st al astd in
        opened = true ->
        snd (last attempts (false, 0)) = fo_csize st' /\ fst (last attempts (false, 0)) = fo_ext st'
        /\ (fo_ext st = true -> al = false -> attempts = [(true, fo_csize st); (false, 500)] /\ fo_csize st' = 500)).

Theorem C04_holds : C04_full.
Proof.
  split; [exact read_multi_groups_fit|].
  split; [exact read_multi_actual_fits|].
  split; [exact write_multi_groups_fit|].
  split; [exact read_single_fits2|].
  split; [exact read_plan_partition|].
  split; [exact write_multi_partition|].
  split; [exact write_frag_tiles|].
  split; [exact read_frag_offsets|].
  exact negotiate_size_agrees.
Qed.
Print Assumptions C04_holds.

(* non-vacuity: at connection size 500, three reads of 200-byte data (message length 12) are split
   into two packets, a 480-byte one is fragmented, an erroneous one is skipped; a 1000-byte write
   with 24 bytes of per-fragment overhead is cut into 476 + 476 + 48 *)
Example C04_nonvacuous :
  read_build_multi 500 [ {| r_id := 0; r_err := false; r_data := 200; r_msg := 12 |};
                         {| r_id := 1; r_err := false; r_data := 200; r_msg := 12 |};
                         {| r_id := 2; r_err := true;  r_data := 0;   r_msg := 0 |};
                         {| r_id := 3; r_err := false; r_data := 480; r_msg := 12 |};
                         {| r_id := 4; r_err := false; r_data := 200; r_msg := 12 |} ]
  = [PMulti [0; 1]; PMulti [4]; PFrag 3]
  /\ map (fun p => (fst p, length (snd p))) (write_fragments 500 24 (zeros 1000)) = [(0, 476%nat); (476, 476%nat); (952, 48%nat)].
Proof. vm_compute. split; reflexivity. Qed.
