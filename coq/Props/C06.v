(* Props/C06.v — data-type codecs round-trip every value.
   Statement over the codec model (Model/Codec.v; domains in Model/CodecDom.v) + exact + Print
   Assumptions only.  Elementary rows come from Gen/Types.v, Gen/CodecFacts.v. *)
From Coq Require Import String Permutation.
From PV Require Import Base.Bytes Base.Res Base.Proto Gen.Types Model.Codec Model.CodecDom.
From PV Require Import Proofs.CodecRT Proofs.CodecRTAll Proofs.CodecRTFloat.
Open Scope Z_scope.

(* Full strength: for every type the constructors are documented to build and every value its
   documentation accepts ([doc_dom]), the encoding decodes to the value (up to [norm]: REAL to
   binary32 precision, over-long input to a fixed array truncated, positional struct input read back
   as a dict) and the decoder consumes exactly the encoding, whatever data [rest] follows (nothing
   can follow a type documented to consume the whole buffer: [greedy]); and a structure encodes to
   the same bytes from a dict and from the positional sequence of its values. *)
Definition roundtrip_at (t : ty) (v : val) (rest : bytes) : Prop :=
  exists bs, encode t v = Ok bs /\ decode t (bs ++ rest) = Ok (norm t v, rest).

Definition struct_dict_positional_law : Prop :=
  forall ms kvs, map fst kvs = map fst ms -> keys_nodup (map fst ms) = true ->
    encode (TStruct SPlain ms) (VDict kvs) = encode (TStruct SPlain ms) (VList (map snd kvs)).

(* ... and a dict is read BY NAME: the bytes depend only on the values found under the member
   names, so the order of the dict and keys that name no member do not matter; a missing name is
   DataError *)
Definition struct_dict_by_name_law : Prop :=
  (forall ms kvs kvs', (forall m, In m ms -> dict_get kvs (fst m) = dict_get kvs' (fst m)) ->
     encode (TStruct SPlain ms) (VDict kvs) = encode (TStruct SPlain ms) (VDict kvs'))
  /\ (forall ms kvs kvs', Permutation kvs kvs' -> NoDup (map fst kvs) ->
       encode (TStruct SPlain ms) (VDict kvs) = encode (TStruct SPlain ms) (VDict kvs'))
  /\ (forall ms pre k x post, (forall m, In m ms -> fst m <> k) ->
       encode (TStruct SPlain ms) (VDict (pre ++ (k, x) :: post)) = encode (TStruct SPlain ms) (VDict (pre ++ post)))
  /\ (forall ms kvs m, In m ms -> ~ In (fst m) (map fst kvs) -> encode (TStruct SPlain ms) (VDict kvs) = Err DataError).

Definition C06_full : Prop :=
  (forall t v rest, doc_dom t v = true -> (doc_greedy t = true -> rest = []) -> roundtrip_at t v rest)
  /\ struct_dict_positional_law /\ struct_dict_by_name_law.

(* The code still falsifies it.  Witness: Array(UINT, UINT): encode writes no length prefix (as
   documented), so decoding the encoding of [1, 2] takes the first element for the count. *)
Definition ty_named (s : string) : ty := match ty_of_name (zs_of_string s) with Some t => t | None => TBool end.
Definition is_err {A} (r : res A) : bool := match r with Err _ => true | Ok _ => false end.
Definition rt_result (t : ty) (v : val) (rest : bytes) : res (val * bytes) :=
  match encode t v with Ok bs => decode t (bs ++ rest) | Err e => Err e end.

Definition UINT_by_UINT : ty := TArrPrefix false (ty_named "UINT") (ty_named "UINT").
Theorem C06_full_refuted : ~ C06_full.
Proof.
  intros [H _]. specialize (H UINT_by_UINT (VList [VInt 1; VInt 2]) [] eq_refl (fun _ => eq_refl)).
  destruct H as (bs & He & Hd). vm_compute in He. injection He as <-. vm_compute in Hd. discriminate Hd.
Qed.
Print Assumptions C06_full_refuted.

(* The remaining deviations, one witness per excluded class (each value is in the documented
   domain; each line is what the real implementation does, see known_findings/C06.jsonl). *)
Example dev_array_length_type :
  doc_dom UINT_by_UINT (VList [VInt 1; VInt 2]) = true
  /\ rt_result UINT_by_UINT (VList [VInt 1; VInt 2]) [] = Ok (VList [VInt 2], []).
Proof. split; reflexivity. Qed.
(* BYTE[1] given 16 bits: not truncated to the array length; the second byte is left in the stream *)
Example dev_bit_array_overlong :
  let v := VList (repeat (VBool true) 16) in
  doc_dom (TArrFixed 1 (ty_named "BYTE")) v = true
  /\ encode (TArrFixed 1 (ty_named "BYTE")) v = Ok [255; 255]
  /\ rt_result (TArrFixed 1 (ty_named "BYTE")) v [] = Ok (VList (repeat (VBool true) 8), [255]).
Proof. repeat split; reflexivity. Qed.
(* PCCC_STRING: odd lengths cannot be encoded; even ones over-read what follows *)
Example dev_pccc_string :
  doc_dom TPcccString (VStr [97; 98; 99]) = true /\ encode TPcccString (VStr [97; 98; 99]) = Err DataError
  /\ rt_result TPcccString (VStr [97; 98]) [120; 121] = Ok (VStr [97; 98; 121; 120], []).
Proof. repeat split; reflexivity. Qed.
(* ListIdentityObject has no _encode: what decode returns cannot be encoded *)
Example dev_list_identity :
  match ListIdentityObject_ty with
  | Some t =>
      match decode t (zeros 22 ++ [1; 0; 12; 0; 3; 0; 2; 1; 0; 0; 120; 86; 52; 18; 1; 97; 5]) with
      | Ok (v, _) => doc_dom t v = true /\ encode t v = Err DataError
      | Err _ => False
      end
  | None => False
  end.
Proof. vm_compute. split; reflexivity. Qed.

(* The guard: exactly the complement of the computable side conditions of the positive theorem:
   the type is outside [wf_ty] or the value outside [in_dom] (Model/CodecDom.v; every such class in
   the documented domain is one of the deviations above), or data follows a type whose decoder
   reads to the end of the buffer ([greedy] = [doc_greedy] plus PCCC_STRING). *)
Definition C06_guard (t : ty) (v : val) (rest : bytes) : bool :=
  negb (wf_ty t && in_dom t v) || (greedy t && match rest with [] => false | _ => true end).

Theorem C06_guarded :
  (forall t v rest, C06_guard t v rest = false -> roundtrip_at t v rest)
  /\ struct_dict_positional_law /\ struct_dict_by_name_law.
Proof.
  split; [|split; [exact struct_dict_positional|
                   exact (conj struct_dict_lookup (conj struct_dict_permutation (conj struct_dict_extra_key struct_dict_missing_key)))]].
  intros t v rest Hg. unfold C06_guard in Hg. apply Bool.orb_false_elim in Hg as [Hg Hr].
    apply Bool.negb_false_iff in Hg.
    apply andb_prop in Hg as [Hwf Hd].
    apply (roundtrip t v rest Hwf Hd). intros Hgr. rewrite Hgr in Hr. now destruct rest.
Qed.
Print Assumptions C06_guarded.

(* Array(<length type>, T), stated honestly: not decode (encode v) = v (no prefix is written), but the
   documented decode — count in the length type, then the elements — inverts prefix ++ encoding.
   The count here is the one that was written, length l (<= count_limit), and the element type is
   inside wf_ty (so it contains no further length-prefixed array): the loop runs length l times even
   over an element type that occupies no bytes.  A count read from FOREIGN bytes over such an
   element type (the code then loops `count` times over nothing; C08's
   dec:hang:length-prefixed-array-over-zero-width-element, known_findings/C06.jsonl class
   Array(length-type):zero-size-element-count-loop) is outside these hypotheses. *)
Theorem C06_length_prefixed :
  forall inst lsg lw e l rest,
    (0 < lw)%nat -> is_bits e = false -> wf_ty (TArrFixed (length l) e) = true ->
    in_dom (TArrFixed (length l) e) (VList l) = true ->
    int_in_range lsg lw (zlen l) = true -> zlen l <= count_limit ->
    exists p bs, encode (TInt lsg lw) (VInt (zlen l)) = Ok p
                 /\ encode (TArrPrefix inst (TInt lsg lw) e) (VList l) = Ok bs
                 /\ decode (TArrPrefix inst (TInt lsg lw) e) (p ++ bs ++ rest)
                    = Ok (norm (TArrFixed (length l) e) (VList l), rest).
Proof. exact roundtrip_prefixed. Qed.
Print Assumptions C06_length_prefixed.

(* STRING2's domain is every string of Unicode scalar values whose UTF-16 length fits the prefix *)
Definition STRING2_ty : ty := TStr false 2 Utf16.
Theorem C06_string2_domain :
  ty_named "STRING2" = STRING2_ty
  /\ forall s rest, forallb scalar_ok s = true -> in_urange 2 (code_units Utf16 s) = true ->
       C06_guard STRING2_ty (VStr s) rest = false.
Proof.
  split; [reflexivity|]. intros s rest Hs Hr. unfold C06_guard, STRING2_ty.
  assert (Hd : in_dom (TStr false 2 Utf16) (VStr s) = true).
  { cbn [in_dom]. unfold str_dom. rewrite (CodecRTBase.utf16_inverts s Hs). cbn [andb int_in_range]. exact Hr. }
  rewrite Hd. reflexivity.
Qed.
Print Assumptions C06_string2_domain.

(* DATE_AND_TIME.encode(time, date) (two positional arguments) is the same as encode((time, date)),
   for every time and date — date 0 included — and so round-trips as well *)
Theorem C06_datetime_call_forms :
  (forall t d, encode_args TDateTime [VInt t; VInt d] = encode TDateTime (VTuple [VInt t; VInt d]))
  /\ (forall t d rest, in_urange 4 t = true -> in_urange 2 d = true ->
        exists bs, encode_args TDateTime [VInt t; VInt d] = Ok bs
                   /\ decode TDateTime (bs ++ rest) = Ok (VTuple [VInt t; VInt d], rest)).
Proof. split; [exact datetime_call_forms|exact datetime_positional_roundtrip]. Qed.
Print Assumptions C06_datetime_call_forms.

(* REAL "to IEEE precision": the normal form of an in-domain REAL value is Flocq's binary32
   rounding (to nearest, ties to even) of the double, embedded back exactly.  This theorem alone
   depends on the stdlib real-number axioms (through Flocq). *)
Theorem C06_real_precision : forall b, real_precision_statement b.
Proof. exact real_precision. Qed.
Print Assumptions C06_real_precision.

(* non-vacuity: a nested structure of arrays of strings with an unnamed member, encoded from a
   dict, followed by other data; an unbounded array; and the identity object *)
Definition ex_fixed : ty :=   (* the classes the fix wave brought into the law *)
  TStruct SPlain [(Some [116], ty_named "DATE_AND_TIME"); (Some [119], ty_named "STRING2"); (Some [101], ty_named "STRINGN");
                  (Some [112], TArrFixed 2 (TNBytes 2)); (Some [122], TNBytes 0); (Some [98], TArrAll (ty_named "BYTE"))].
Definition ex_fixed_val : val :=
  VDict [(Some [116], VTuple [VInt 5; VInt 6]); (Some [119], VStr [97; 128512]); (Some [101], VStr []);
         (Some [112], VList [VBytes [1; 2]; VBytes [3; 4]]); (Some [122], VBytes []);
         (Some [98], VList (repeat (VBool true) 8 ++ repeat (VBool false) 8))].
Example C06_nonvacuous_fixed_classes :
  C06_guard ex_fixed ex_fixed_val [] = false /\ rt_result ex_fixed ex_fixed_val [] = Ok (ex_fixed_val, []).
Proof. vm_compute. split; reflexivity. Qed.

Definition ex_ty : ty :=
  TStruct SPlain [(Some [110], ty_named "UINT");
                  (None, ty_named "SINT");
                  (Some [115], TArrFixed 2 (ty_named "STRING"));
                  (Some [102], TFixedStr 4 false 4 3);
                  (Some [114], ty_named "REAL")].
Definition ex_val : val :=
  VDict [(Some [110], VInt 513); (None, VInt (-1)); (Some [115], VList [VStr [97; 98]; VStr []; VStr [99]]);
         (Some [102], VStr [120; 121; 122; 119]); (Some [114], VFloat 0x3fb999999999999a)].
(* a Logix template: DINT at 0, hidden SINT host at 4 carrying two BOOL members, a string at 8 *)
Definition ex_stag : ty :=
  TStructTag [((Some [120], 0%nat), ty_named "DINT"); ((Some [90; 104], 4%nat), ty_named "SINT");
              ((Some [115], 8%nat), TFixedStr 4 false 4 4)]
             [([98; 48], (4%nat, 0%nat)); ([98; 55], (4%nat, 7%nat))] [[90; 104]] 16.
Definition ex_stag_val : val :=
  VDict [(Some [120], VInt (-5)); (Some [115], VStr [97; 98]); (Some [98; 48], VBool true); (Some [98; 55], VBool true)].
Example C06_nonvacuous_structtag :
  C06_guard ex_stag ex_stag_val [1] = false
  /\ encode ex_stag ex_stag_val = Ok [251; 255; 255; 255; 129; 0; 0; 0; 2; 0; 0; 0; 97; 98; 0; 0]
  /\ decode ex_stag ([251; 255; 255; 255; 129; 0; 0; 0; 2; 0; 0; 0; 97; 98; 0; 0] ++ [1]) = Ok (ex_stag_val, [1]).
Proof. vm_compute. repeat split. Qed.

Example C06_nonvacuous :
  C06_guard ex_ty ex_val [7; 7] = false /\ doc_dom ex_ty ex_val = true
  /\ encode ex_ty ex_val = Ok [1; 2; 255; 2; 0; 97; 98; 0; 0; 3; 0; 0; 0; 120; 121; 122; 0; 205; 204; 204; 61]
  /\ decode ex_ty ([1; 2; 255; 2; 0; 97; 98; 0; 0; 3; 0; 0; 0; 120; 121; 122; 0; 205; 204; 204; 61] ++ [7; 7])
     = Ok (VDict [(Some [110], VInt 513); (Some [115], VList [VStr [97; 98]; VStr []]); (Some [102], VStr [120; 121; 122]);
                  (Some [114], VFloat 0x3fb99999a0000000)], [7; 7])
  /\ C06_guard (TArrAll ex_ty) (VList [ex_val; ex_val]) [] = false
  /\ match ModuleIdentityObject_ty with
     | Some t => match decode t [1; 0; 12; 0; 3; 0; 2; 1; 0; 0; 120; 86; 52; 18; 1; 97; 5] with
                 | Ok (v, rest) => C06_guard t v rest = false /\ norm t v = v
                 | Err _ => False
                 end
     | None => False
     end.
Proof. vm_compute. repeat split. Qed.
