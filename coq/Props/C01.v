(* Props/C01.v — tag reads return exactly what the controller holds.
   Statement + exact + Print Assumptions only.  Client model: Model/LogixRead.v (request parsing,
   planner of Model/LogixPlan.v, messages, reply parsing, fragment reassembly, multi-service
   demultiplexing, bit / BOOL-range extraction), composed with the reference target
   (Spec/TargetCore.v dispatch + Multiple Service Packet, Spec/TargetLogix.v tag services);
   reference interpretation: Spec/Expect.v (ref_read / ref_type).

   C01_full is the property at full strength (every request that exists in the controller and can
   travel through the connection).  What is proved:
     C01_full_refuted   the full statement fails on `g{65536}` for an array of 65536 elements: the element
                        count of Read Tag is a UINT, the request cannot be built, its Tag is falsy.
     C01_guard          exactly that input class (the client's element count >= 65536).
     C01_partial      = read_correct_partial: C01's conclusion for every request that [request_ok]:
                        the client's parse of the string and the target's resolution of the client's
                        path agree with the place Expect.resolve assigns ([resolves], a per-request
                        condition decidable by computation) — for ALL projects with a sound layout,
                        memory images, fragment policies, connection sizes, numbers of requests,
                        single-packet / multi-service / fragmented plans, element types (atomic, REAL /
                        LREAL as bit patterns, arrays and {n} slices, integer bits, BOOL members, BOOL
                        arrays and ranges, strings, structures with hidden hosts at any nesting depth).
     C01_tags           end to end, string layer included, for read("Tag1", "Tag2", ...) of controller-scope
                        tags of any type (Proofs/ReadResolve.v proves [request_ok] for them).
     C01_single_segment end to end, string layer included, for every single-segment request on controller-scope
                        tags: name, name[i], name[i,j], name[i,j,k], ....bit, ...{n}; BOOL arrays name[i]{n}
                        (Proofs/ReadResolve1.v proves [request_ok] for them), any number of them in one call.
     C01_paths          end to end, string layer included, for every request shape
                        [Program:P.]tag[i..].member[j..]. ... [.bit][{n}] (Proofs/ReadResolve2.v proves [request_ok]
                        for them): member paths at any depth, BOOL / BOOL-array members, arrays of structures,
                        program-scoped tags — given as structured requests (a visible tag, template member names
                        spelled as the controller spells them, decimal fields) whose text is [item_text].
     C01_strings        THE HEADLINE ON STRINGS: C01_guarded_statement for every list of request strings that satisfy
                        the computable predicate [plain_request p s] (Proofs/ReadStrings.v), with no resolution
                        hypothesis.  The strings outside the predicate are listed, with an Example per class, next
                        to the theorem (end of this file).
     C01_guarded_from_resolution : the guarded statement follows from [resolution_sound].  What separates
                        C01_paths from [resolution_sound]: (a) C01_paths_are_requests proves parse_request (item_text x)
                        = Some (item_ast x), exists_in and the guard for every structured request, but the converse
                        is not proved (an arbitrary string s with parse_request s = Some r is not shown to be the
                        [item_text] of a structured request: Expect.parse_request is not inverted); (b) [resolution_sound] as stated is too strong without more guards: names that
                        are not ASCII / longer than 255 bytes / spelled in another case, decimal fields longer than
                        4300 digits, `x[i]` on a scalar DWORD ([dword_arrays]) make the client fail where the
                        reference has a value.
     C01_components     the component lemmas, each universally quantified. *)
From Coq Require Import String.
From PV Require Import Base.Bytes Base.Res Base.PyStr Spec.Project Spec.Expect Spec.TargetIface Spec.TargetCore Spec.TargetLogix.
From PV Require Import Model.LogixRead.
From PV Require Import Proofs.ReadBits Proofs.ReadDecode Proofs.ReadTarget Proofs.ReadValue Proofs.ReadFrag Proofs.ReadMulti
  Proofs.ReadPlan Proofs.ReadCorrect Proofs.ReadResolve Proofs.ReadResolve1 Proofs.ReadResolve2 Proofs.ReadStrings.
Open Scope list_scope.
Open Scope Z_scope.

(* ---------------------------------------------------------------- the property *)
(* the request goes through the connection: its path fits, one element fits a reply, the data size fits
   the UDINT offset of Read Tag Fragmented, the fuel of the model's fragment loop suffices *)
Definition travels (conn : Z) (fuel : nat) (q : preq) (path : bytes) : Prop :=
  Path.len path + 11 <= conn /\ ti_esize (pq_info q) + 10 <= conn
  /\ pq_elements q * ti_esize (pq_info q) < 4294967296
  /\ (Z.to_nat (pq_elements q * ti_esize (pq_info q)) < fuel)%nat.

(* a request that exists in the connected controller (spelled as the controller spells it) *)
Definition exists_in (p : project) (mem : Project.mem) (cfg : ccfg) (fuel : nat) (s : text) (r : request_ast) : Prop :=
  parse_request s = Some r /\ ref_read p mem r <> None
  /\ (exists q path, parse_tag_request (client_tags p) s = Ok q /\ read_path (c_use_ids cfg) q = Ok path
                     /\ travels (c_conn cfg) fuel q path).

Definition C01_conclusion p mem cfg fuel st reqs asts : Prop :=
  exists st' sent tags,
    run_read fuel cfg (client_tags p) st reqs = (st', sent, Done tags)
    /\ Forall2 (tag_correct p mem) asts tags.

Definition C01_full : Prop :=
  forall p mem pol basic cfg fuel st ms reqs asts,
    wf_project p = true -> wf_mem p mem = true -> layout_ok p = true -> 0 < po_bool_true pol < 256 ->
    quiet (mkLState p mem pol basic) ms st -> (c_micro800 cfg = false -> ms = true) -> c_conn cfg < 65536 ->
    Forall2 (exists_in p mem cfg fuel) reqs asts ->
    C01_conclusion p mem cfg fuel st reqs asts.

(* the excluded input class: the element count the client puts on the wire does not fit the UINT
   field of Read Tag (`tag{65536}` and up; BOOL arrays: more than 65535 DWORDs) *)
Definition C01_guard (p : project) (s : text) : bool :=
  match parse_tag_request (client_tags p) s with
  | Ok q => 65536 <=? pq_elements q
  | Err _ => false
  end.

Definition C01_guarded_statement : Prop :=
  forall p mem pol basic cfg fuel st ms reqs asts,
    wf_project p = true -> wf_mem p mem = true -> layout_ok p = true -> 0 < po_bool_true pol < 256 ->
    quiet (mkLState p mem pol basic) ms st -> (c_micro800 cfg = false -> ms = true) -> c_conn cfg < 65536 ->
    Forall2 (exists_in p mem cfg fuel) reqs asts -> Forall (fun s => C01_guard p s = false) reqs ->
    C01_conclusion p mem cfg fuel st reqs asts.

(* the unproved layer, stated: existence implies that client, target and reference address the same place *)
Definition resolution_sound : Prop :=
  forall p mem cfg fuel s r, wf_project p = true -> wf_mem p mem = true -> layout_ok p = true ->
    exists_in p mem cfg fuel s r -> C01_guard p s = false -> request_ok p mem cfg fuel s r.

(* ---------------------------------------------------------------- what is proved *)
Definition C01_partial : Prop :=
  forall p mem pol basic cfg fuel st ms reqs asts,
    layout_ok p = true -> 0 < po_bool_true pol < 256 ->
    (forall inst img, mem_get mem inst = Some img -> bytes_ok img = true) ->
    quiet (mkLState p mem pol basic) ms st -> (c_micro800 cfg = false -> ms = true) -> c_conn cfg < 65536 ->
    Forall2 (request_ok p mem cfg fuel) reqs asts ->
    exists st' sent tags,
      run_read fuel cfg (client_tags p) st reqs = (st', sent, Done tags)
      /\ Forall2 (tag_correct p mem) asts tags.

Theorem C01_partial_holds : C01_partial.
Proof.
  intros p mem pol basic cfg fuel st ms reqs asts Hlay Hbt Hmem Hq Hms Hconn HF.
  exact (read_correct_partial p mem pol basic cfg fuel Hlay Hbt Hmem st ms reqs asts Hq Hms Hconn HF).
Qed.
Print Assumptions C01_partial_holds.

Lemma wf_mem_bytes_ok p mem : wf_mem p mem = true -> forall inst img, mem_get mem inst = Some img -> bytes_ok img = true.
Proof.
  unfold wf_mem. intros H inst img Hg.
  apply andb_prop in H. destruct H as [H Hkeys]. apply andb_prop in H. destruct H as [Htags _].
  rewrite forallb_forall in Hkeys, Htags.
  assert (Hin : In (inst, img) mem).
  { clear -Hg. induction mem as [|[k v] m IH]; [discriminate|]. cbn in Hg. destruct (k =? inst) eqn:E.
    - injection Hg as ->. left. f_equal. lia.
    - right. auto. }
  specialize (Hkeys _ Hin). cbn [fst] in Hkeys.
  destruct (find_tag_inst (p_tags p) inst) as [g|] eqn:Eg; [|discriminate].
  assert (Hgin : In g (p_tags p) /\ g_inst g = inst).
  { clear -Eg. induction (p_tags p) as [|x l IH]; [discriminate|]. cbn in Eg. destruct (g_inst x =? inst) eqn:E.
    - injection Eg as ->. split; [left; reflexivity|lia].
    - destruct (IH Eg). split; [right; assumption|assumption]. }
  destruct Hgin as [Hgin Hgi]. specialize (Htags _ Hgin). rewrite Hgi, Hg in Htags.
  destruct (tag_size p g); [|discriminate]. apply andb_prop in Htags. tauto.
Qed.

Theorem C01_guarded_from_resolution : resolution_sound -> C01_guarded_statement.
Proof.
  intros Hres p mem pol basic cfg fuel st ms reqs asts Hwf Hwm Hlay Hbt Hq Hms Hconn HF Hg.
  apply (C01_partial_holds p mem pol basic cfg fuel st ms reqs asts Hlay Hbt (wf_mem_bytes_ok p mem Hwm) Hq Hms Hconn).
  induction HF as [|s r reqs asts H _ IH]; [constructor|].
  inversion Hg as [|x y Hgs Hg']; subst. constructor; [|apply IH; exact Hg'].
  apply (Hres p mem cfg fuel s r Hwf Hwm Hlay H Hgs).
Qed.
Print Assumptions C01_guarded_from_resolution.

(* ---------------------------------------------------------------- end to end (string layer included) for whole tags:
   read("Tag1", "Tag2", ...) of controller-scope tags of ANY type (atomic, BOOL, BOOL array, arrays (first
   element), structures, strings), any number of them, any plan, instance or symbolic addressing *)
Definition tag_ast (g : tagdef) : request_ast := mkReq None [mkSeg (g_name g) []] None None.

Definition C01_tags : Prop :=
  forall p mem pol basic cfg fuel st ms (gs : list tagdef),
    wf_project p = true -> wf_mem p mem = true -> layout_ok p = true -> upload_ok p = true -> 0 < po_bool_true pol < 256 ->
    quiet (mkLState p mem pol basic) ms st -> (c_micro800 cfg = false -> ms = true) -> c_conn cfg < 65536 ->
    Forall (fun g => In g (visible_tags p) /\ g_scope g = ScCtrl /\ plain_name (g_name g) = true
                     /\ ref_read p mem (tag_ast g) <> None
                     /\ (forall q path, parse_tag_request (client_tags p) (g_name g) = Ok q -> read_path (c_use_ids cfg) q = Ok path ->
                                        fits (c_conn cfg) fuel q path)) gs ->
    C01_conclusion p mem cfg fuel st (map g_name gs) (map tag_ast gs).

Theorem C01_tags_hold : C01_tags.
Proof.
  intros p mem pol basic cfg fuel st ms gs Hwf Hwm Hlay Hup Hbt Hq Hms Hconn HF.
  apply (C01_partial_holds p mem pol basic cfg fuel st ms (map g_name gs) (map tag_ast gs) Hlay Hbt (wf_mem_bytes_ok p mem Hwm) Hq Hms Hconn).
  induction HF as [|g gs (Hvis & Hsc & Hname & Href & Hfits) _ IH]; [constructor|]. cbn [map]. constructor; [|exact IH].
  exact (plain_request_ok p mem cfg fuel g Hwf Hwm Hlay Hup Hvis Hsc Hname Href Hfits).
Qed.
Print Assumptions C01_tags_hold.

(* ---------------------------------------------------------------- end to end for every single-segment request on
   controller-scope tags: "name", "name[i]", "name[i,j,k]", "....bit", "...{n}" on data tags (atomic, arrays,
   structures, strings), "name", "name[i]", "name{n}", "name[i]{n}" on BOOL arrays, whole BOOL tags.
   [sreq_ok] (Proofs/ReadResolve1.v): the tag is visible, the indices / bit / count are decimal fields, the
   request exists (ref_read <> None) and fits the connection. *)
Definition C01_single_segment : Prop :=
  forall p mem pol basic cfg fuel st ms (xs : list sreq),
    wf_project p = true -> wf_mem p mem = true -> layout_ok p = true -> upload_ok p = true -> 0 < po_bool_true pol < 256 ->
    quiet (mkLState p mem pol basic) ms st -> (c_micro800 cfg = false -> ms = true) -> c_conn cfg < 65536 ->
    Forall (sreq_ok p mem cfg fuel) xs ->
    C01_conclusion p mem cfg fuel st (map sreq_text xs) (map sreq_ast xs).

Theorem C01_single_segment_holds : C01_single_segment.
Proof.
  intros p mem pol basic cfg fuel st ms xs Hwf Hwm Hlay Hup Hbt Hq Hms Hconn HF.
  apply (C01_partial_holds p mem pol basic cfg fuel st ms (map sreq_text xs) (map sreq_ast xs) Hlay Hbt (wf_mem_bytes_ok p mem Hwm) Hq Hms Hconn).
  induction HF as [|x xs Hx _ IH]; [constructor|]. cbn [map]. constructor; [|exact IH].
  exact (sreq_request_ok p mem cfg fuel x Hwf Hwm Hlay Hup Hx).
Qed.
Print Assumptions C01_single_segment_holds.

(* ---------------------------------------------------------------- end to end for every request shape:
   [Program:P.]tag[i..].member[j..]. ... [.bit][{n}] — structure-member paths at any depth (BOOL members, BOOL-array
   members, arrays of structures), program-scoped tags, and the single-segment requests above.
   [item_ok] (Proofs/ReadResolve2.v): the names are those of a visible tag and of template members, spelled as the
   controller spells them; indices / bit / count are decimal fields; the request exists (ref_read <> None), can be
   built (read_path succeeds) and fits the connection.  [dword_arrays]: BOOL arrays are arrays. *)
Definition C01_paths : Prop :=
  forall p mem pol basic cfg fuel st ms (xs : list ritem),
    wf_project p = true -> wf_mem p mem = true -> layout_ok p = true -> upload_ok p = true -> dword_arrays p = true ->
    0 < po_bool_true pol < 256 ->
    quiet (mkLState p mem pol basic) ms st -> (c_micro800 cfg = false -> ms = true) -> c_conn cfg < 65536 ->
    Forall (item_ok p mem cfg fuel) xs ->
    C01_conclusion p mem cfg fuel st (map item_text xs) (map item_ast xs).

Theorem C01_paths_hold : C01_paths.
Proof.
  intros p mem pol basic cfg fuel st ms xs Hwf Hwm Hlay Hup Hda Hbt Hq Hms Hconn HF.
  apply (C01_partial_holds p mem pol basic cfg fuel st ms (map item_text xs) (map item_ast xs) Hlay Hbt (wf_mem_bytes_ok p mem Hwm) Hq Hms Hconn).
  induction HF as [|x xs Hx _ IH]; [constructor|]. cbn [map]. constructor; [|exact IH].
  exact (item_request_ok p mem cfg fuel x Hwf Hwm Hlay Hup Hda Hx).
Qed.
Print Assumptions C01_paths_hold.

(* the structured requests are requests in the sense of C01_full: Expect.parse_request reads [item_text x] as
   [item_ast x], the request exists and travels, and it is outside the guard — so C01_paths is C01_guarded_statement
   restricted to the strings that are the text of a structured request *)
Theorem C01_paths_are_requests : forall p mem cfg fuel (x : ritem),
  wf_project p = true -> wf_mem p mem = true -> layout_ok p = true -> upload_ok p = true -> dword_arrays p = true ->
  item_ok p mem cfg fuel x -> item_wf x ->
  exists_in p mem cfg fuel (item_text x) (item_ast x) /\ C01_guard p (item_text x) = false.
Proof.
  intros p mem cfg fuel x Hwf Hwm Hlay Hup Hda Hok Hiwf.
  destruct (item_request_ok p mem cfg fuel x Hwf Hwm Hlay Hup Hda Hok) as (q & path & Hres & Hfits & _ & Href).
  destruct Hres as (pl & pb & l & _ & Hparse & Hrp & _).
  destruct Hfits as (F1 & F2 & F3 & F4 & F5).
  split.
  - split; [exact (item_parse_request p mem cfg fuel x Hok Hiwf)|]. split; [exact Href|].
    exists q, path. split; [exact Hparse|]. split; [exact Hrp|]. repeat split; assumption.
  - unfold C01_guard. rewrite Hparse. apply Z.leb_gt. exact F4.
Qed.
Print Assumptions C01_paths_are_requests.

(* ---------------------------------------------------------------- the full statement is refuted by the UINT element count.
   An array of 65536 SINTs exists; `g{65536}` asks for all of it; the element count of Read Tag is a UINT:
   the request cannot be built and its Tag is falsy ("Failed to build request - DataError(...)"). *)
Definition big_proj : project := mkProject [] [mkTag (zs "g") 5 ScCtrl (BAtom 194) [65536] 0 false 0 0 0 67108864].
Definition big_mem : Project.mem := [(5, zeros 65536)].
Definition big_cfg : ccfg := mkCfg 4000 false true.
Definition big_req : text := zs "g{65536}".
Definition big_ast : request_ast := mkReq None [mkSeg (zs "g") []] None (Some 65536).
Definition big_st : tstate lstate := set_app (mkLState big_proj big_mem default_policy init_basic) (init_tstate init_lstate).

Lemma big_run : snd (run_read (Z.to_nat 70000) big_cfg (client_tags big_proj) big_st [big_req]) = Done [err_tag big_req].
Proof. vm_compute. reflexivity. Qed.

Theorem C01_full_refuted : ~ C01_full.
Proof.
  intros H.
  destruct (H big_proj big_mem default_policy init_basic big_cfg (Z.to_nat 70000) big_st true [big_req] [big_ast])
    as (st' & sent & tags & Hrun & Htags).
  - vm_compute. reflexivity.
  - vm_compute. reflexivity.
  - vm_compute. reflexivity.
  - vm_compute. split; reflexivity.
  - repeat split; reflexivity.
  - reflexivity.
  - reflexivity.
  - constructor; [|constructor]. split; [vm_compute; reflexivity|]. split.
    + assert (Hs : (match ref_read big_proj big_mem big_ast with Some _ => true | None => false end) = true)
        by (vm_compute; reflexivity).
      destruct (ref_read big_proj big_mem big_ast); [discriminate|discriminate Hs].
    + eexists. eexists. split; [vm_compute; reflexivity|]. split; [vm_compute; reflexivity|].
      unfold travels. cbn [pq_elements pq_info ti_esize].
      split; [vm_compute; discriminate|]. split; [vm_compute; discriminate|]. split; [vm_compute; reflexivity|]. lia.
  - pose proof big_run as Hb. rewrite Hrun in Hb. cbn [snd] in Hb. injection Hb as ->.
    inversion Htags as [|a t la lt Hc _]; subst.
    destruct Hc as (v & tn & c & _ & _ & (He & _)). cbn in He. discriminate.
Qed.
Print Assumptions C01_full_refuted.

(* ---------------------------------------------------------------- component lemmas, each universally quantified *)
Definition C01_components : Prop :=
  (* integer bit: bool(value & 1 << bit) is bit [bit] of the two's-complement value, for every value and bit *)
  (forall v b, 0 <= b -> negb (Z.land v (Z.shiftl 1 b) =? 0) = Z.testbit v b)
  /\ (forall w u b, 0 <= b < 8 * Z.of_nat w -> Z.testbit (to_signed w u) b = Z.testbit u b)
  (* BOOL arrays: the DWORD count of _parse_tag_request covers the addressed bits and stays inside the array *)
  /\ (forall bit n words, 0 <= bit -> 1 <= n -> bit + n <= 32 * words ->
        let total := bit + n in
        let elements := total / 32 + (if total mod 32 =? 0 then 0 else 1) in
        1 <= elements <= words /\ bit + n <= 32 * elements /\ 32 * (elements - 1) < bit + n)
  (* ... and value[bit : bit + n] of the DWORDs read from element 0 are the addressed BOOLs *)
  /\ (forall (img : bytes) off bit n elements,
        0 <= off -> 0 <= bit -> 1 <= n -> bit + n <= 32 * elements -> off + 4 * elements <= Z.of_nat (length img) ->
        let d := firstn (Z.to_nat (4 * elements)) (skipn (Z.to_nat off) img) in
        let b0 := bit / 8 in
        let b1 := (bit + n - 1) / 8 in
        let d' := firstn (Z.to_nat (b1 - b0 + 1)) (skipn (Z.to_nat (off + b0)) img) in
        firstn (Z.to_nat n) (skipn (Z.to_nat bit) (bools_of_bytes d))
        = firstn (Z.to_nat n) (skipn (Z.to_nat (bit - 8 * b0)) (bools_of_bytes d')))
  (* reply decode . target image = reference value, for every element type of every project with a
     sound layout (induction on the template nesting): the type class consumes exactly the image *)
  /\ (forall p, layout_ok p = true -> forall f1 ty tc s,
        elem_tc f1 p ty = Some tc -> base_size p ty = Some s ->
        forall d rest, Path.len d = s -> bytes_ok d = true ->
          exists v', decode_tc tc (d ++ rest) = Ok (v', rest)
                     /\ forall f2 v, decode_val f2 p ty d = Some v -> pyeq v' v)
  (* fragment reassembly against the target, for every fragment-length policy; fuel > data size suffices *)
  /\ (forall app ms conn path pb q l img s tb full,
        path_wf path pb -> tag_cia pb -> resolve_path (ls_proj app) false pb = TgTag l ->
        mem_get (ls_mem app) (w_inst l) = Some img -> 0 <= pq_elements q < 65536 ->
        loc_esize (ls_proj app) l = Some s -> type_bytes (ls_proj app) l = Some tb -> tb_ok tb -> 1 <= s ->
        1 <= pq_elements q <= w_avail l -> s <= conn - 2 - 4 - Expect.blen tb ->
        2 + (1 + EncapParser.blen path + 6) <= conn -> pq_elements q * s < 4294967296 ->
        loc_bytes (ls_pol app) img l 0 (pq_elements q * s) = Some full -> (w_bit l <> None -> pq_elements q * s = 1) ->
        forall fuel st sent, quiet app ms st -> (Z.to_nat (pq_elements q * s) < fuel)%nat ->
        exists st' sent',
          frag_loop (target_peer conn) fuel st path q 0 true [] sent
          = (st', sent', Done (reply_opt (tb ++ full) (pq_info q) (pq_elements q))) /\ quiet app ms st')
  (* the transport as a whole: any number of requests the target serves, any plan *)
  /\ (forall app tags cfg st rs fuel ms,
        quiet app ms st -> (c_micro800 cfg = false -> ms = true) ->
        Forall (good app tags cfg) rs -> c_conn cfg < 65536 ->
        Forall (fun r => (Z.to_nat (rq_n r * rq_sz r) < fuel)%nat) rs ->
        exists st' sent,
          read (target_peer (c_conn cfg)) fuel cfg tags st (map rq_s rs)
          = (st', sent, Done (map (fun r => post_read (rq_q r) (res_of r)) rs)) /\ quiet app ms st').

Theorem C01_components_hold : C01_components.
Proof.
  split; [exact bit_extract|].
  split; [exact testbit_to_signed|].
  split; [exact dword_cover|].
  split; [exact bool_range|].
  split; [intros p Hl f1 ty tc s H1 H2; exact (decode_elem_spec p Hl f1 ty tc s H1 H2)|].
  split; [intros; eapply frag_read_ok; eassumption|].
  exact read_transport.
Qed.
Print Assumptions C01_components_hold.

(* ---------------------------------------------------------------- non-vacuity: the hypotheses of C01_partial are inhabited.
   A project with a DINT tag, an INT[4] array and a BOOL[64] array; one call with four requests (one
   multi-service packet): a tag, an array slice, a BOOL-array element, an integer bit. *)
Definition ex_tag (n : text) (inst code : Z) (dims : list Z) : tagdef := mkTag n inst ScCtrl (BAtom code) dims 0 false 0 0 0 67108864.
Definition ex_proj : project := mkProject [] [ex_tag (zs "x") 7 196 []; ex_tag (zs "a") 9 195 [4]; ex_tag (zs "b") 11 211 [2]].
Definition ex_mem : Project.mem := [(7, [254; 255; 255; 255]); (9, [1; 0; 2; 0; 3; 0; 4; 128]); (11, [0; 0; 0; 0; 2; 0; 0; 0])].
Definition ex_cfg : ccfg := mkCfg 500 false true.
Definition ex_reqs : list text := [zs "x"; zs "a[1]{2}"; zs "b[33]"; zs "x.31"].


Ltac fact := first [ reflexivity | exact I | (vm_compute; reflexivity) | (vm_compute; lia) | (vm_compute; discriminate)
                   | (vm_compute; intros; discriminate) | (vm_compute; intros; congruence) ].

Definition ex_asts : list request_ast :=
  [mkReq None [mkSeg (zs "x") []] None None; mkReq None [mkSeg (zs "a") [1]] None (Some 2);
   mkReq None [mkSeg (zs "b") [33]] None None; mkReq None [mkSeg (zs "x") []] (Some 31) None].

Ltac res_with pb :=
  unfold resolves; eexists; exists pb; eexists;
  split; [vm_compute; reflexivity|]; split; [vm_compute; reflexivity|]; split; [vm_compute; reflexivity|];
  split; [unfold path_wf; repeat split; fact|]; split; [first [left; vm_compute; reflexivity | right; eexists; eexists; vm_compute; reflexivity]|];
  split; [vm_compute; discriminate|]; split; [vm_compute; reflexivity|].

Example C01_nonvacuous_hyps : Forall2 (request_ok ex_proj ex_mem ex_cfg 100) ex_reqs ex_asts.
Proof.
  unfold ex_reqs, ex_asts.
  repeat constructor.
  - eexists. eexists. split; [|split; [|split]].
    + res_with [32; 107; 36; 7].
      cbn [agree]. repeat split; try fact.
      * exists 4. split; [reflexivity|]. unfold info_for. split; [exists 1%nat; vm_compute; reflexivity|].
        split; [fact|]. split; [eexists; split; vm_compute; reflexivity|fact].
      * intros _. left. reflexivity.
    + unfold fits. repeat split; fact.
    + fact.
    + fact.
  - eexists. eexists. split; [|split; [|split]].
    + res_with [32; 107; 36; 9; 40; 1].
      cbn [agree]. repeat split; try fact.
      * exists 2. split; [reflexivity|]. unfold info_for. split; [exists 1%nat; vm_compute; reflexivity|].
        split; [fact|]. split; [eexists; split; vm_compute; reflexivity|fact].
    + unfold fits. repeat split; fact.
    + fact.
    + fact.
  - eexists. eexists. split; [|split; [|split]].
    + res_with [32; 107; 36; 11; 40; 0].
      cbn [agree]. repeat split; try fact.
      * left. reflexivity.
      * exists 1%nat. vm_compute. reflexivity.
    + unfold fits. repeat split; fact.
    + fact.
    + fact.
  - eexists. eexists. split; [|split; [|split]].
    + res_with [32; 107; 36; 7].
      cbn [agree]. repeat split; try fact.
      * exists 4. split; [reflexivity|]. unfold info_for. split; [exists 1%nat; vm_compute; reflexivity|].
        split; [fact|]. split; [eexists; split; vm_compute; reflexivity|fact].
      * intros _. left. reflexivity.
    + unfold fits. repeat split; fact.
    + fact.
    + fact.
Qed.

Example C01_nonvacuous :
  wf_project ex_proj = true /\ wf_mem ex_proj ex_mem = true /\ layout_ok ex_proj = true
  /\ (let st := set_app (mkLState ex_proj ex_mem default_policy init_basic) (init_tstate init_lstate) in
      exists st' sent tags, run_read 100 ex_cfg (client_tags ex_proj) st ex_reqs = (st', sent, Done tags)
                            /\ Forall2 (tag_correct ex_proj ex_mem) ex_asts tags
                            /\ map tg_value tags = [Some (RInt (-2)); Some (RList [RInt 2; RInt 3]); Some (RBool true); Some (RBool true)]).
Proof.
  split; [vm_compute; reflexivity|]. split; [vm_compute; reflexivity|]. split; [vm_compute; reflexivity|].
  cbv zeta.
  assert (H1 : layout_ok ex_proj = true) by (vm_compute; reflexivity).
  assert (H2 : 0 < po_bool_true default_policy < 256) by (vm_compute; split; reflexivity).
  assert (H3 : forall inst img, mem_get ex_mem inst = Some img -> bytes_ok img = true)
    by (intros inst img H; apply (wf_mem_bytes_ok ex_proj ex_mem ltac:(vm_compute; reflexivity) inst img H)).
  assert (H4 : quiet (mkLState ex_proj ex_mem default_policy init_basic) true
                 (set_app (mkLState ex_proj ex_mem default_policy init_basic) (init_tstate init_lstate)))
    by (repeat split; reflexivity).
  assert (H5 : c_micro800 ex_cfg = false -> true = true) by reflexivity.
  assert (H6 : c_conn ex_cfg < 65536) by reflexivity.
  destruct (C01_partial_holds ex_proj ex_mem default_policy init_basic ex_cfg 100%nat
              (set_app (mkLState ex_proj ex_mem default_policy init_basic) (init_tstate init_lstate)) true ex_reqs ex_asts
              H1 H2 H3 H4 H5 H6 C01_nonvacuous_hyps)
    as (st' & sent & tags & Hrun & Htags).
  - exists st', sent, tags. split; [exact Hrun|]. split; [exact Htags|].
    assert (Hc : snd (run_read 100 ex_cfg (client_tags ex_proj)
                        (set_app (mkLState ex_proj ex_mem default_policy init_basic) (init_tstate init_lstate)) ex_reqs)
                 = Done tags) by (rewrite Hrun; reflexivity).
    vm_compute in Hc. injection Hc as <-. reflexivity.
Qed.

(* the hypotheses of C01_single_segment are inhabited by the same four requests *)
Definition ex_sreqs : list sreq :=
  [mkSreq (ex_tag (zs "x") 7 196 []) [] [] None None;
   mkSreq (ex_tag (zs "a") 9 195 [4]) [zs "1"] [1] None (Some (zs "2", 2));
   mkSreq (ex_tag (zs "b") 11 211 [2]) [zs "33"] [33] None None;
   mkSreq (ex_tag (zs "x") 7 196 []) [] [] (Some (zs "31", 31)) None].

Ltac sreq_fact :=
  unfold sreq_ok; cbn [sr_g sr_ids sr_idv sr_bit sr_cnt];
  split; [vm_compute; tauto|]; split; [reflexivity|]; split; [vm_compute; reflexivity|];
  split; [repeat constructor; vm_compute; congruence|];
  split; [first [exact I | repeat split; vm_compute; congruence]|];
  split; [first [exact I | repeat split; vm_compute; congruence]|];
  split; [unfold sreq_shape; cbn [sr_g sr_ids sr_idv sr_bit sr_cnt g_ty ex_tag g_dims]; unfold C_BOOL, C_DWORD; cbn [Z.eqb Pos.eqb];
          first [split; [reflexivity|cbn [length]; lia] | repeat constructor; lia]|];
  split; [vm_compute; discriminate|];
  intros q path H1 H2; vm_compute in H1; injection H1 as <-; vm_compute in H2; injection H2 as <-;
  unfold fits; repeat split; fact.

Example C01_single_nonvacuous :
  map sreq_text ex_sreqs = ex_reqs /\ map sreq_ast ex_sreqs = ex_asts
  /\ upload_ok ex_proj = true /\ Forall (sreq_ok ex_proj ex_mem ex_cfg 100) ex_sreqs.
Proof.
  split; [vm_compute; reflexivity|]. split; [vm_compute; reflexivity|]. split; [vm_compute; reflexivity|].
  unfold ex_sreqs. constructor; [sreq_fact|]. constructor; [sreq_fact|]. constructor; [sreq_fact|]. constructor; [sreq_fact|constructor].
Qed.

(* ---------------------------------------------------------------- non-vacuity of C01_paths: a UDT with a hidden host member,
   BOOL members, an INT and a DINT[2]; an array of two of them, a program-scoped DINT; one call with five
   requests: members of array elements, a BOOL member, an integer bit of a program tag, a whole structure *)
Definition px_udt : template :=
  mkTemplate (zs "udtMix") (Some (zs "n1")) 672 17185 12 0
    [ mkMember (zs "ZZZZZZZZZZudtMix0") (BAtom C_SINT) 0 0 0 true;
      mkMember (zs "bRun") (BAtom C_BOOL) 0 0 0 false;
      mkMember (zs "bFault") (BAtom C_BOOL) 0 0 5 false;
      mkMember (zs "Count") (BAtom C_INT) 0 2 0 false;
      mkMember (zs "Vals") (BAtom C_DINT) 2 4 0 false ].
Definition px_prog : tagdef := mkTag (zs "Program:Main") 3 ScCtrl (BOpaque 104) [] 0 false 0 0 0 67108864.
Definition px_mix : tagdef := mkTag (zs "mix") 9 ScCtrl (BStruct 672) [2] 0 false 0 0 0 67108864.
Definition px_v : tagdef := mkTag (zs "v") 11 (ScProg (zs "Main")) (BAtom C_DINT) [] 0 false 0 0 0 67108864.
Definition px_proj : project := mkProject [px_udt] [px_prog; px_mix; px_v].
Definition px_mem : Project.mem :=
  [(9, [32; 0; 7; 0; 1; 0; 0; 0; 2; 0; 0; 0;   1; 0; 254; 255; 3; 0; 0; 0; 4; 0; 0; 128]); (11, [8; 0; 0; 0])].
Definition px_cfg : ccfg := mkCfg 500 false true.
Definition px_items : list ritem :=
  [ inr (mkGreq px_mix (zs "mix", [zs "1"], [1]) [(zs "Count", [], [])] None None);
    inr (mkGreq px_mix (zs "mix", [zs "0"], [0]) [(zs "Vals", [zs "1"], [1])] None None);
    inr (mkGreq px_mix (zs "mix", [zs "0"], [0]) [(zs "bFault", [], [])] None None);
    inr (mkGreq px_v (zs "v", [], []) [] (Some (zs "3", 3)) None);
    inl (mkSreq px_mix [zs "1"] [1] None None) ].
Ltac ppok := unfold ppart_ok; split; [vm_compute; reflexivity|]; split;
  [repeat constructor; vm_compute; congruence|repeat constructor; cbn; lia].
Ltac greq_fact :=
  unfold greq_ok; cbn [gq_g gq_x1 gq_more gq_bit gq_cnt];
  split; [vm_compute; tauto|]; split; [reflexivity|];
  split; [repeat (constructor; [ppok|]); constructor|];
  split; [vm_compute; reflexivity|]; split; [vm_compute; reflexivity|];
  split; [first [exact I | repeat split; vm_compute; congruence]|];
  split; [first [exact I | repeat split; vm_compute; congruence]|];
  split; [repeat constructor; cbn; lia|];
  split; [first [left; discriminate | right; left; discriminate]|];
  split; [intros pl0 pl1 H1 H2; vm_compute in H1; injection H1 as <-; vm_compute in H2; injection H2 as <-;
          first [exact I | vm_compute; split; [reflexivity|exact I]]|];
  split; [vm_compute; discriminate|];
  split; [intros q H; vm_compute in H; injection H as <-; eexists; vm_compute; reflexivity|];
  intros q path H1 H2; vm_compute in H1; injection H1 as <-; vm_compute in H2; injection H2 as <-;
  unfold fits; repeat split; fact.
Ltac sreq_fact2 :=
  unfold sreq_ok; cbn [sr_g sr_ids sr_idv sr_bit sr_cnt];
  split; [vm_compute; tauto|]; split; [reflexivity|]; split; [vm_compute; reflexivity|];
  split; [repeat constructor; vm_compute; congruence|];
  split; [first [exact I | repeat split; vm_compute; congruence]|];
  split; [first [exact I | repeat split; vm_compute; congruence]|];
  split; [unfold sreq_shape; cbn [sr_g sr_ids sr_idv sr_bit sr_cnt g_ty px_mix g_dims]; repeat constructor; lia|];
  split; [vm_compute; discriminate|];
  intros q path H1 H2; vm_compute in H1; injection H1 as <-; vm_compute in H2; injection H2 as <-;
  unfold fits; repeat split; fact.


Example C01_paths_nonvacuous :
  wf_project px_proj = true /\ wf_mem px_proj px_mem = true /\ layout_ok px_proj = true /\ upload_ok px_proj = true
  /\ dword_arrays px_proj = true
  /\ map item_text px_items = [zs "mix[1].Count"; zs "mix[0].Vals[1]"; zs "mix[0].bFault"; zs "Program:Main.v.3"; zs "mix[1]"]
  /\ Forall (item_ok px_proj px_mem px_cfg 100) px_items
  /\ (let st := set_app (mkLState px_proj px_mem default_policy init_basic) (init_tstate init_lstate) in
      exists st' sent tags, run_read 100 px_cfg (client_tags px_proj) st (map item_text px_items) = (st', sent, Done tags)
        /\ Forall2 (tag_correct px_proj px_mem) (map item_ast px_items) tags
        /\ firstn 4 (map tg_value tags) = [Some (RInt (-2)); Some (RInt 2); Some (RBool true); Some (RBool true)]).
Proof.
  assert (Hit : Forall (item_ok px_proj px_mem px_cfg 100) px_items).
  { unfold px_items. do 4 (constructor; [cbn [item_ok]; greq_fact|]). constructor; [cbn [item_ok]; sreq_fact2|constructor]. }
  assert (H1 : wf_project px_proj = true) by (vm_compute; reflexivity).
  assert (H2 : wf_mem px_proj px_mem = true) by (vm_compute; reflexivity).
  assert (H3 : layout_ok px_proj = true) by (vm_compute; reflexivity).
  assert (H4 : upload_ok px_proj = true) by (vm_compute; reflexivity).
  assert (H5 : dword_arrays px_proj = true) by (vm_compute; reflexivity).
  split; [exact H1|]. split; [exact H2|]. split; [exact H3|]. split; [exact H4|]. split; [exact H5|].
  split; [vm_compute; reflexivity|]. split; [exact Hit|]. cbv zeta.
  assert (H6 : 0 < po_bool_true default_policy < 256) by (vm_compute; split; reflexivity).
  assert (H7 : quiet (mkLState px_proj px_mem default_policy init_basic) true
                 (set_app (mkLState px_proj px_mem default_policy init_basic) (init_tstate init_lstate)))
    by (repeat split; reflexivity).
  assert (H8 : c_micro800 px_cfg = false -> true = true) by reflexivity.
  assert (H9 : c_conn px_cfg < 65536) by reflexivity.
  destruct (C01_paths_hold px_proj px_mem default_policy init_basic px_cfg 100%nat
              (set_app (mkLState px_proj px_mem default_policy init_basic) (init_tstate init_lstate)) true px_items
              H1 H2 H3 H4 H5 H6 H7 H8 H9 Hit)
    as (st' & sent & tags & Hrun & Htags).
  exists st', sent, tags. split; [exact Hrun|]. split; [exact Htags|].
  assert (Hc : snd (run_read 100 px_cfg (client_tags px_proj)
                      (set_app (mkLState px_proj px_mem default_policy init_basic) (init_tstate init_lstate)) (map item_text px_items))
               = Done tags) by (rewrite Hrun; reflexivity).
  vm_compute in Hc. injection Hc as <-. reflexivity.
Qed.

(* ================================================================ THE HEADLINE ON REQUEST STRINGS.
   [plain_request p s] (Proofs/ReadStrings.v) is a computable predicate of the string and the project:
   the string splits into [Program:P.]tag[i..].member[j..]...[.bit][{n}]; rendering the pieces back gives the
   string itself; the tag is a visible tag and the members are template members, all named exactly as the
   controller names them; names are ASCII without . [ ] { }, 1..255 characters (a single controller-scope
   segment: also without ':'); no member segment is made only of digits; decimal fields have at most 4300
   digits, index values fit 32 bits, at most three per segment; array dimensions are at most 2^32; a BOOL tag
   carries no index / bit / count, a BOOL array no bit and no more indices than dimensions.
   For such strings C01_guarded_statement holds without any resolution hypothesis ([dword_arrays]: a project-level
   computable condition, BOOL arrays have a dimension).

   OUTSIDE the predicate, and why:
     (a) a name spelled in another case        the reference (like Logix) is case-insensitive, the driver's tag
                                               dict is not (README: names are case-sensitive): out_case
     (b) a decimal field of > 4300 digits      Python's int() refuses it, Expect.parse_nat reads it: out_digits
     (c) a name of >= 256 characters           the symbolic segment has a one-byte length (symbolic addressing;
                                               by symbol instance the read works): out_long_name
     (d) x[i] on a scalar DWORD                the client sends x[0], the target rejects the index: out_scalar_dword
     (e) a member segment made only of digits  both the driver and Expect.parse_request read it as a bit: not a
                                               member request at all
     (f) non-ASCII names                       outside the text domain of the model (Base/PyStr.v)
     (g) NOT KNOWN TO FAIL, only unproved: a single controller-scope segment whose name contains ':' (module tags
         read whole, `Rack:I`; their members `Rack:I.Data` are inside), array dimensions above 2^32. *)
Definition C01_strings : Prop :=
  forall p mem pol basic cfg fuel st ms reqs asts,
    wf_project p = true -> wf_mem p mem = true -> layout_ok p = true -> upload_ok p = true -> dword_arrays p = true ->
    0 < po_bool_true pol < 256 ->
    quiet (mkLState p mem pol basic) ms st -> (c_micro800 cfg = false -> ms = true) -> c_conn cfg < 65536 ->
    Forall (fun s => plain_request p s = true) reqs ->
    Forall2 (exists_in p mem cfg fuel) reqs asts -> Forall (fun s => C01_guard p s = false) reqs ->
    C01_conclusion p mem cfg fuel st reqs asts.

Theorem C01_strings_hold : C01_strings.
Proof.
  intros p mem pol basic cfg fuel st ms reqs asts Hwf Hwm Hlay Hup Hda Hbt Hq Hms Hconn Hplain HF Hg.
  assert (Hxs : exists xs, map item_text xs = reqs /\ map item_ast xs = asts /\ Forall (item_ok p mem cfg fuel) xs).
  { induction HF as [|s r reqs asts H _ IH]; [exists []; repeat split; constructor|].
    inversion Hplain as [|? ? Hp Hplain']; subst. inversion Hg as [|? ? Hgs Hg']; subst.
    destruct (IH Hplain' Hg') as (xs & E1 & E2 & Hok).
    destruct H as (Hpr & Href & q & path & Hparse & Hrp & T1 & T2 & T3 & T4).
    assert (Hn16 : pq_elements q < 65536) by (unfold C01_guard in Hgs; rewrite Hparse in Hgs; apply Z.leb_gt; exact Hgs).
    destruct (plain_item p mem cfg fuel s r Hp Hpr Href) as (x & Ex1 & Ex2 & Hx).
    { exists q, path. split; [exact Hparse|]. split; [exact Hrp|]. repeat split; assumption. }
    exists (x :: xs). cbn [map]. rewrite Ex1, Ex2, E1, E2. repeat split. constructor; assumption. }
  destruct Hxs as (xs & <- & <- & Hok).
  exact (C01_paths_hold p mem pol basic cfg fuel st ms xs Hwf Hwm Hlay Hup Hda Hbt Hq Hms Hconn Hok).
Qed.
Print Assumptions C01_strings_hold.

Example C01_strings_nonvacuous :
  forallb (plain_request px_proj) (map item_text px_items) = true /\ forallb (plain_request ex_proj) ex_reqs = true.
Proof. split; vm_compute; reflexivity. Qed.

(* ---- outside classes *)
Definition out_st (p : project) (m : Project.mem) : tstate lstate := set_app (mkLState p m default_policy init_basic) (init_tstate init_lstate).
Definition has_value (p : project) (m : Project.mem) (s : text) : bool :=
  match parse_request s with Some r => match ref_read p m r with Some _ => true | None => false end | None => false end.
Definition client_fails (p : project) (m : Project.mem) (cfg : ccfg) (s : text) : bool :=
  match snd (run_read 5000 cfg (client_tags p) (out_st p m) [s]) with
  | Done [t] => tg_error t
  | _ => false
  end.
Definition outside (p : project) (m : Project.mem) (cfg : ccfg) (s : text) : bool :=
  negb (plain_request p s) && has_value p m s && client_fails p m cfg s.

(* (a) a name spelled in another case *)
Example out_case : outside ex_proj ex_mem ex_cfg (zs "X") = true.
Proof. vm_compute. reflexivity. Qed.
(* (b) a decimal field of more than 4300 digits: Python's int() refuses it *)
Definition long_index : text := zs "a[" ++ repeat 48 4300 ++ zs "1]".
Example out_digits : outside ex_proj ex_mem ex_cfg long_index = true.
Proof. vm_compute. reflexivity. Qed.
(* (c) a name of 256 characters: the symbolic segment has a one-byte length *)
Definition long_name : text := repeat 97 256.
Definition ln_proj : project := mkProject [] [ex_tag long_name 7 196 []].
Definition ln_mem : Project.mem := [(7, [1; 0; 0; 0])].
Example out_long_name : wf_project ln_proj = true /\ outside ln_proj ln_mem (mkCfg 4000 false false) long_name = true.
Proof. vm_compute. split; reflexivity. Qed.
(* (d) x[i] on a scalar DWORD *)
Definition sd_proj : project := mkProject [] [ex_tag (zs "d") 7 211 []].
Definition sd_mem : Project.mem := [(7, [8; 0; 0; 0])].
Example out_scalar_dword : wf_project sd_proj = true /\ dword_arrays sd_proj = false /\ outside sd_proj sd_mem ex_cfg (zs "d[3]") = true.
Proof. vm_compute. repeat split; reflexivity. Qed.

(* ================================================================ EXTENSION 1: the reference grammar inverted (Proofs/ReadResolve3.v).
   [ref_core] follows Expect.parse_request keeping the text of the decimal fields.  Proved for EVERY string:
   a string the reference reads has a core with the reference's AST, and the string is that core rendered as
   [Program:P.]tag[i..].member[j..]...[.bit][{n}] — no hypothesis on the characters of the names, the number of
   segments, leading zeros, ....  So in C01_resolution_strings the string-level condition of [plain_request]
   ("rendering the pieces back gives the string itself") is gone: what is left, [sem_ok p s], is only about the
   PROJECT — the tag is visible and found under its exact spelling, members spelled as the templates spell them
   (out_case), decimal fields of <= 4300 digits (out_digits), names ASCII, 1..255 characters, without . [ ] { }
   (out_long_name; '}' can occur in a name the reference reads: "a}b{3}"), no member segment made of digits,
   index values < 2^32 and dimensions <= 2^32, BOOL / BOOL-array shapes (out_scalar_dword under [dword_arrays]),
   a single controller-scope segment without ':' — i.e. exactly [ReadStrings.item_okb].
   STILL SEPARATING THIS FROM [resolution_sound]: that [exists_in] + the negation of the out_* classes imply [sem_ok]
   (each conjunct of item_okb from existence) is not proved. *)
From PV Require Import Proofs.ReadResolve3 Proofs.ReadInstance.

Definition C01_resolution_grammar : Prop :=
  forall s r, parse_request s = Some r ->
    exists c, ref_core s = Some c /\ core_ast c = r /\ core_text c = s /\ core_vals c.

Theorem C01_resolution_grammar_holds : C01_resolution_grammar.
Proof.
  intros s r H. destruct (ref_core_complete s r H) as (c & Ec & Ea). destruct (ref_core_render s c Ec) as [Et Hv].
  exists c. repeat split; assumption.
Qed.
Print Assumptions C01_resolution_grammar_holds.

(* [resolution_sound] restricted by [sem_ok] only *)
Definition C01_resolution_sem : Prop :=
  forall p mem cfg fuel s r, wf_project p = true -> wf_mem p mem = true -> layout_ok p = true ->
    upload_ok p = true -> dword_arrays p = true -> sem_ok p s = true ->
    exists_in p mem cfg fuel s r -> C01_guard p s = false -> request_ok p mem cfg fuel s r.

Theorem C01_resolution_sem_holds : C01_resolution_sem.
Proof.
  intros p mem cfg fuel s r Hwf Hwm Hlay Hup Hda Hs (Hpr & Href & q & path & Hparse & Hrp & T1 & T2 & T3 & T4) Hgs.
  assert (Hn16 : pq_elements q < 65536) by (unfold C01_guard in Hgs; rewrite Hparse in Hgs; apply Z.leb_gt; exact Hgs).
  apply (resolution_sem p mem cfg fuel s r Hwf Hwm Hlay Hup Hda Hs Hpr Href).
  exists q, path. split; [exact Hparse|]. split; [exact Hrp|]. repeat split; assumption.
Qed.
Print Assumptions C01_resolution_sem_holds.

Definition C01_resolution_strings : Prop :=
  forall p mem pol basic cfg fuel st ms reqs asts,
    wf_project p = true -> wf_mem p mem = true -> layout_ok p = true -> upload_ok p = true -> dword_arrays p = true ->
    0 < po_bool_true pol < 256 ->
    quiet (mkLState p mem pol basic) ms st -> (c_micro800 cfg = false -> ms = true) -> c_conn cfg < 65536 ->
    Forall (fun s => sem_ok p s = true) reqs ->
    Forall2 (exists_in p mem cfg fuel) reqs asts -> Forall (fun s => C01_guard p s = false) reqs ->
    C01_conclusion p mem cfg fuel st reqs asts.

Theorem C01_resolution_strings_hold : C01_resolution_strings.
Proof.
  intros p mem pol basic cfg fuel st ms reqs asts Hwf Hwm Hlay Hup Hda Hbt Hq Hms Hconn Hsem HF Hg.
  apply (C01_partial_holds p mem pol basic cfg fuel st ms reqs asts Hlay Hbt (wf_mem_bytes_ok p mem Hwm) Hq Hms Hconn).
  induction HF as [|s r reqs asts H _ IH]; [constructor|].
  inversion Hsem as [|? ? Hs Hsem']; subst. inversion Hg as [|? ? Hgs Hg']; subst.
  constructor; [|apply IH; assumption].
  exact (C01_resolution_sem_holds p mem cfg fuel s r Hwf Hwm Hlay Hup Hda Hs H Hgs).
Qed.
Print Assumptions C01_resolution_strings_hold.

(* non-vacuity: member paths with indexes at two levels, a bit and a count, leading zeros, a program-scoped
   tag with a bit, tag[i,j,k]-style single segments, tag{n} — all inside [sem_ok]; and one core spelled out *)
Definition rs_reqs : list text :=
  [zs "mix[1].Vals[0].31{1}"; zs "mix[0].Vals[01]"; zs "mix[1].Count.03"; zs "Program:Main.v.3"; zs "mix{2}"; zs "mix[0].Vals{2}"].
Example C01_resolution_nonvacuous :
  forallb (sem_ok px_proj) (rs_reqs ++ map item_text px_items) = true
  /\ forallb (sem_ok ex_proj) (ex_reqs ++ [zs "a[1]{3}"; zs "b[3]{40}"; zs "x.0"]) = true
  /\ ref_core (zs "mix[1].Vals[00].31{1}")
     = Some (None, (zs "mix", [zs "1"], [1]), [(zs "Vals", [zs "00"], [0])], Some (zs "31", 31), Some (zs "1", 1))
  /\ forallb (fun s => match parse_request s with Some _ => true | None => false end) rs_reqs = true.
Proof.
  split; [vm_compute; reflexivity|]. split; [vm_compute; reflexivity|]. split; [vm_compute; reflexivity|]. vm_compute; reflexivity.
Qed.

(* ================================================================ EXTENSION 2: symbol-instance addressing and member paths
   (Proofs/ReadInstance.v).
   (1) reference target: the class 0x6B / instance pair stands for the tag with that symbol instance WHATEVER
       follows (element indexes, member names at any depth), in every scope (also after a Program:P segment),
       for every project whose instance ids and names are distinct (wf_project);
   (2) the same at the byte level for controller-scope tags: inst_seg_bytes ++ R and sym_seg_bytes name ++ R
       resolve alike, R = element segments then member parts;
   (3) the driver (packets/util.tag_request_path) opens with the instance pair exactly when [by_instance]:
       use_instance_ids and the request's tag info has a non-zero instance id and the first dotted part does
       not start with "Program:"; otherwise the path is the symbolic one;
   (4) THE EXCLUSIONS THE CODE MAKES: for every request with a member path, and every Program: scoped request,
       [by_instance] is false — _get_tag_info returns the member's entry of the data-type dict, which carries no
       instance id — so member requests are always addressed symbolically, use_instance_ids or not, and are
       covered by C01_paths for both settings.  The instance form is emitted only for single-segment
       controller-scope requests (C01_single_segment / ReadResolve1.path_single). *)
Definition C01_instance_paths : Prop :=
  (forall p g listing rest, wf_project p = true -> In g (p_tags p) -> (listing = false \/ rest <> []) ->
     resolve_in_scope p listing (g_scope g) (inst_psegs (g_inst g) ++ rest)
     = resolve_in_scope p listing (g_scope g) (PSym (g_name g) :: rest))
  /\ (forall p g idv more, wf_project p = true -> In g (p_tags p) -> g_scope g = ScCtrl ->
        starts_with txt_Program_ (g_name g) = false -> Path.len (g_name g) < 256 -> idx32 idv -> Forall ppart_ok more ->
        resolve_path p false (inst_seg_bytes (g_inst g) ++ rest_bytes idv more)
        = resolve_path p false (sym_seg_bytes (g_name g) ++ rest_bytes idv more))
  /\ (forall use q, by_instance use q = false -> read_path use q = read_path false q)
  /\ (forall p mem cfg fuel x,
        wf_project p = true -> wf_mem p mem = true -> layout_ok p = true -> upload_ok p = true -> dword_arrays p = true ->
        greq_ok p mem cfg fuel x ->
        exists q, parse_tag_request (client_tags p) (gq_text x) = Ok q
          /\ (gq_more x <> [] -> ti_inst (pq_info q) = None)
          /\ by_instance (c_use_ids cfg) q = false
          /\ read_path (c_use_ids cfg) q = read_path false q).

Theorem C01_instance_paths_hold : C01_instance_paths.
Proof.
  split; [exact instance_in_scope|].
  split; [intros p g idv more H1 H2 H3 H4 H5 H6 H7; exact (proj2 (proj2 (instance_path_resolves p g idv more H1 H2 H3 H4 H5 H6 H7)))|].
  split; [exact read_path_symbolic|exact greq_ok_symbolic].
Qed.
Print Assumptions C01_instance_paths_hold.

(* non-vacuity on px_proj: `mix` has symbol instance 9.  The instance pair followed by [1] and .Count reaches
   the same INT as the symbolic path; with use_instance_ids the driver still builds the symbolic path for
   "mix[1].Count" (and the instance path for "mix[1]") *)
Definition ip_member : ppart := (zs "Count", [], []).
Definition same_place (a b : target) : bool :=
  match a, b with
  | TgTag l1, TgTag l2 => (w_inst l1 =? 9) && (w_inst l2 =? 9) && (w_off l1 =? 14) && (w_off l2 =? 14)
  | _, _ => false
  end.
Definition ip_driver (s : text) (inst_form : bool) (expect : bytes) : bool :=
  match parse_tag_request (client_tags px_proj) s with
  | Ok q => Bool.eqb (by_instance true q) inst_form
            && match read_path true q with Ok b => text_eqb b expect | Err _ => false end
  | Err _ => false
  end.
Example C01_instance_nonvacuous :
  same_place (resolve_path px_proj false (inst_seg_bytes 9 ++ rest_bytes [1] [ip_member]))
             (resolve_path px_proj false (sym_seg_bytes (zs "mix") ++ rest_bytes [1] [ip_member])) = true
  /\ ip_driver (zs "mix[1].Count") false (8 :: sym_seg_bytes (zs "mix") ++ rest_bytes [1] [ip_member]) = true
  /\ ip_driver (zs "mix[1]") true (3 :: inst_seg_bytes 9 ++ rest_bytes [1] []) = true.
Proof.
  split; [vm_compute; reflexivity|]. split; vm_compute; reflexivity.
Qed.
