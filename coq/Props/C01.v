(* Props/C01.v — tag reads return exactly what the controller holds.
   Statement + exact + Print Assumptions only.  Client model: Model/LogixRead.v (request parsing,
   messages, reply parsing, fragment reassembly, multi-service demultiplexing, bit / BOOL-range
   extraction), composed with the reference target (Spec/TargetCore.v + Spec/TargetLogix.v);
   reference interpretation: Spec/Expect.v. *)
From PV Require Import Base.Bytes Base.Res Base.PyStr Spec.Project Spec.Expect Model.LogixRead.
From PV Require Import Proofs.ReadBits Proofs.ReadDecode.
Open Scope Z_scope.

(* ---------------------------------------------------------------- component lemmas, each universally quantified *)
Definition C01_components : Prop :=
  (* integer bit: bool(value & 1 << bit) is bit [bit] of the two's-complement value, for every value and bit *)
  (forall v b, 0 <= b -> negb (Z.land v (Z.shiftl 1 b) =? 0) = Z.testbit v b)
  /\ (forall w u b, 0 <= b < 8 * Z.of_nat w -> Z.testbit (to_signed w u) b = Z.testbit u b)
  (* BOOL arrays: the DWORD count of _parse_tag_request covers the addressed bits and stays inside the array *)
  /\ (forall bit n words, 0 <= bit -> 1 <= n -> bit + n <= 32 * words ->
        let total := bit + n in
        let elements := total / 32 + (if total mod 32 =? 0 then 0 else 1) in
        1 <= elements <= words /\ bit + n <= 32 * elements /\ 32 * (elements - 1) < bit + n)
  (* ... and value[bit : bit + n] of the DWORDs read from element 0 are the addressed BOOLs *)
  /\ (forall (img : bytes) off bit n elements,
        0 <= off -> 0 <= bit -> 1 <= n -> bit + n <= 32 * elements -> off + 4 * elements <= Z.of_nat (length img) ->
        let d := firstn (Z.to_nat (4 * elements)) (skipn (Z.to_nat off) img) in
        let b0 := bit / 8 in
        let b1 := (bit + n - 1) / 8 in
        let d' := firstn (Z.to_nat (b1 - b0 + 1)) (skipn (Z.to_nat (off + b0)) img) in
        firstn (Z.to_nat n) (skipn (Z.to_nat bit) (bools_of_bytes d))
        = firstn (Z.to_nat n) (skipn (Z.to_nat (bit - 8 * b0)) (bools_of_bytes d')))
  (* reply decode . target image = reference value, for every element type of every project with a
     sound layout: atomic types, structures at any nesting depth with bit members and hidden hosts,
     strings; the type class consumes exactly the image *)
  /\ (forall p, layout_ok p = true -> forall f1 ty tc s,
        elem_tc f1 p ty = Some tc -> base_size p ty = Some s ->
        forall d rest, Path.len d = s -> bytes_ok d = true ->
          exists v', decode_tc tc (d ++ rest) = Ok (v', rest)
                     /\ forall f2 v, decode_val f2 p ty d = Some v -> pyeq v' v).

Theorem C01_components_hold : C01_components.
Proof.
  split; [exact bit_extract|].
  split; [exact testbit_to_signed|].
  split; [exact dword_cover|].
  split; [exact bool_range|].
  intros p Hl f1 ty tc s H1 H2. exact (decode_elem_spec p Hl f1 ty tc s H1 H2).
Qed.
Print Assumptions C01_components_hold.
