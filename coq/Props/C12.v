(* Props/C12.v — reply frames survive any TCP segmentation; sends deliver everything or fail.
   Statement + exact + Print Assumptions only. HEADER_SIZE comes from Gen/Consts.v. *)
From PV Require Import Base.Bytes Base.Res Model.Sock Proofs.SockP.
Open Scope Z_scope.

Definition C12_full : Prop :=
  (* receive returns exactly the frame for EVERY segmentation into non-empty chunks (down to one
     byte; chunks longer than the 256-byte read size are read piecewise), any body length *)
  (forall f cs tl fuel, well_formed_frame f -> concat cs = f -> Forall nonempty cs ->
     (length f + 1 <= fuel)%nat -> receive fuel (map Chunk cs) tl = Done (Ok f))
  (* if the peer closes, times out or errors after ANY strict prefix, however segmented, the call
     terminates with CommError: no hang (fuel is not exhausted), no partial frame *)
  /\ (forall f cs q rest tl fuel, well_formed_frame f -> concat cs ++ q = f -> q <> [] ->
        Forall nonempty cs -> stops rest -> (length f + 1 <= fuel)%nat ->
        receive fuel (map Chunk cs ++ rest) tl = Done (Err CommError))
  (* send hands every byte to the kernel, in order, for every pattern of partial sends *)
  /\ (forall msg accepts fuel, Forall (fun n => 0 < n)%nat accepts -> (length msg <= sum_nat accepts)%nat ->
        (length msg + 1 <= fuel)%nat -> send fuel msg (map Accept accepts) = (Done (Ok (length msg)), msg))
  (* and under ANY send script it terminates; success implies complete, failure is CommError and
     what reached the kernel is a prefix of the message *)
  /\ (forall msg script fuel, (length msg + 1 <= fuel)%nat ->
        exists r w, send fuel msg script = (Done r, w) /\ is_prefix w msg
                    /\ (forall n, r = Ok n -> n = length msg /\ w = msg)
                    /\ (forall e, r = Err e -> e = CommError)).

Theorem C12_holds : C12_full.
Proof.
  split; [|split; [|split]].
  - intros f cs tl fuel Hwf. exact (receive_any_segmentation f Hwf cs tl fuel).
  - intros f cs q rest tl fuel Hwf. exact (receive_peer_stops f Hwf cs q rest tl fuel).
  - exact send_all.
  - exact send_total.
Qed.
Print Assumptions C12_holds.

(* non-vacuity: a 26-byte frame (2-byte body) delivered as 1 + 2 + 23 bytes, and cut after 3 bytes *)
Definition ex_frame : bytes := [111; 0; 2; 0] ++ zeros 20 ++ [7; 9].
Example C12_nonvacuous :
  well_formed_frame ex_frame
  /\ receive 27 (map Chunk [[111]; [0; 2]; skipn 3 ex_frame]) RaiseTimeout = Done (Ok ex_frame)
  /\ receive 27 (map Chunk [[111]; [0; 2]] ++ [Closed]) RaiseTimeout = Done (Err CommError).
Proof. unfold well_formed_frame. vm_compute. repeat split; lia. Qed.
