(* Model/LogixParse.v — SHARED request-parsing model of LogixDriver (imported by C01, C02, C03):
     pycomm3/util.py         : strip_array, get_array_index
     pycomm3/logix_driver.py : LogixDriver._parse_tag_request, .get_tag_info / ._get_tag_info (+ _recurse_attrs),
                               ._parse_requested_tags
   over a tag database = what `driver._tags` holds after the upload, as far as parsing and request
   building look at it.  Definitions only (no proofs): lemmas live in Proofs/LogixParseP.v.
   Text = list Z (code points), ASCII semantics for isdigit / int() (Base/PyStr.v); literals come
   from Gen/LogixParseGen.v (regenerated from the AST of the modelled functions, fail-closed).

   Exceptions are data.  `_parse_tag_request` has the shape
       try: ... except RequestError: raise
                except Exception as err: raise RequestError("Failed to parse tag request", tag) from err
   and `_get_tag_info`
       try: ... except KeyError as err: raise RequestError(f"Tag doesn't exist - {err.args[0]}")
                except Exception as err: raise RequestError(f"failed to get tag data for: {base}, {attrs}") from err
   so every failure leaves as a RequestError; [perr] records WHICH wrapper produced it, the class of
   the inner exception (`__cause__`) and the text pieces the message is made of.  `_parse_requested_tags`
   catches RequestError only — which is everything `_parse_tag_request` can raise — and records
   `str(err)` as the request's error. *)
From PV Require Import Base.Bytes Base.Proto Base.Res Base.PyStr Gen.LogixParseGen.
Open Scope Z_scope.

(* ------------------------------------------------------------------ the tag database
   One [taginfo] = one tag dict of `_tags` or one member dict of a data type's `internal_tags`:
     tag_type                 -> ti_struct   (true = "struct", false = "atomic")
     data_type_name           -> ti_name     (atomic: also `data_type`, e.g. "DINT"; struct: data_type["name"])
     instance_id              -> ti_inst     (top-level tags; members have none)
     dimensions[:dim]         -> ti_dims     (top-level tags; members: [array] when `array` is non-zero, else [])
     bit (BOOL members)       -> ti_bit
     DataTypes[..].size / data_type["template"]["structure_size"]   -> ti_size   (what _tag_return_size reads)
     data_type["template"]["structure_handle"]                      -> ti_handle (structs; 0 otherwise)
     data_type["string"]      -> ti_string   (LEN/DATA structures: capacity)
     data_type["internal_tags"] (insertion order)                   -> ti_members (structs; [] for atomic) *)
Inductive taginfo :=
  TagInfo (is_struct : bool) (name : text) (inst : option Z) (dims : list Z) (bit : option Z)
          (size : Z) (handle : Z) (str : option Z) (members : list (text * taginfo)).

Definition ti_struct (t : taginfo) : bool := let 'TagInfo s _ _ _ _ _ _ _ _ := t in s.
Definition ti_name (t : taginfo) : text := let 'TagInfo _ n _ _ _ _ _ _ _ := t in n.
Definition ti_inst (t : taginfo) : option Z := let 'TagInfo _ _ i _ _ _ _ _ _ := t in i.
Definition ti_dims (t : taginfo) : list Z := let 'TagInfo _ _ _ d _ _ _ _ _ := t in d.
Definition ti_bit (t : taginfo) : option Z := let 'TagInfo _ _ _ _ b _ _ _ _ := t in b.
Definition ti_size (t : taginfo) : Z := let 'TagInfo _ _ _ _ _ z _ _ _ := t in z.
Definition ti_handle (t : taginfo) : Z := let 'TagInfo _ _ _ _ _ _ h _ _ := t in h.
Definition ti_string (t : taginfo) : option Z := let 'TagInfo _ _ _ _ _ _ _ s _ := t in s.
Definition ti_members (t : taginfo) : list (text * taginfo) := let 'TagInfo _ _ _ _ _ _ _ _ m := t in m.

Definition tagdb := list (text * taginfo).       (* `self._tags`: name -> tag, case-sensitive keys *)

(* dict lookup (keys are compared exactly: Python str equality) *)
Fixpoint lookup (k : text) (d : list (text * taginfo)) : option taginfo :=
  match d with
  | [] => None
  | (k', v) :: r => if text_eqb k' k then Some v else lookup k r
  end.

(* `tag_info["data_type"] == "DWORD"`: data_type is the type-name string of an atomic tag, a dict for a struct *)
Definition is_dword_dt (t : taginfo) : bool := negb (ti_struct t) && text_eqb (ti_name t) s_DWORD.
(* `tag_info["data_type_name"] == "DWORD"` (read / encode_value look at the NAME) *)
Definition is_dword_name (t : taginfo) : bool := text_eqb (ti_name t) s_DWORD.

(* ------------------------------------------------------------------ int(str)
   On ASCII text: surrounding whitespace (9-13, 32), optional sign, digits with single underscores
   between digits; more than sys.int_max_str_digits = 4300 digits -> ValueError.  (Same definition
   as Model/Path.v py_int_full; repeated here so that the shared parser depends on Base only.) *)
Definition int_max_str_digits : Z := 4300.
Definition is_ws (c : Z) : bool := ((9 <=? c) && (c <=? 13)) || (c =? 32).
Fixpoint lstrip (s : text) : text :=
  match s with
  | c :: r => if is_ws c then lstrip r else s
  | [] => []
  end.
Definition strip (s : text) : text := rev (lstrip (rev (lstrip s))).
Fixpoint digits_us (s : text) (acc : Z) (prev_digit : bool) : option Z :=
  match s with
  | [] => if prev_digit then Some acc else None
  | c :: r => if is_ascii_digit c then digits_us r (acc * 10 + (c - 48)) true
              else if (c =? 95) && prev_digit then digits_us r acc false
              else None
  end.
Definition int_unsigned (r : text) : option Z :=
  if Z.of_nat (length (filter is_ascii_digit r)) <=? int_max_str_digits then digits_us r 0 false else None.
Definition int_of_text (s : text) : res Z :=
  let bad := Err (Foreign ValueError) in
  match strip s with
  | [] => bad
  | c :: r =>
      if c =? 45 then match int_unsigned r with Some z => Ok (- z) | None => bad end
      else if c =? 43 then match int_unsigned r with Some z => Ok z | None => bad end
      else match int_unsigned (c :: r) with Some z => Ok z | None => bad end
  end.

(* ------------------------------------------------------------------ util.strip_array / get_array_index *)
(* if "[" in tag: return tag[: tag.find("[")] *)
Definition strip_array (tag : text) : text :=
  match find [c_lbrack] tag with
  | Some k => firstn k tag
  | None => tag
  end.

(* if tag.endswith("]") and "[" in tag: tag, _tmp = tag.rsplit("[", maxsplit=1); idx = int(_tmp[:-1])
   else idx = None                                  (int() may raise ValueError: "a[x]", "a[1,2]", "a[]") *)
Definition get_array_index (tag : text) : res (text * option Z) :=
  if ends_with [c_rbrack] tag && contains_chr c_lbrack tag then
    match rsplit1_aux c_lbrack tag with
    | Some (h, t) => let* idx := int_of_text (removelast t) in Ok (h, Some idx)
    | None => Ok (tag, None)                         (* not reached: "[" is in tag *)
    end
  else Ok (tag, None).

(* ------------------------------------------------------------------ _get_tag_info *)
Inductive gti :=
  | GFound (t : taginfo)
  | GNone                       (* _recurse_attrs returns None: an intermediate member that is not in `data` *)
  | GKeyError (k : text)        (* self._tags[...] / data[curr_tag] on the last attribute *)
  | GOther (e : pyexn).         (* anything else, e.g. "DINT"["internal_tags"] -> TypeError *)

(* data[curr_tag]["data_type"]["internal_tags"]: the data type of an atomic tag/member is a str *)
Definition internal_tags (t : taginfo) : res (list (text * taginfo)) :=
  if ti_struct t then Ok (ti_members t) else Err (Foreign TypeError).

Fixpoint recurse_attrs (attrs : list text) (data : list (text * taginfo)) : gti :=
  match attrs with
  | [] => GOther ValueError                          (* `cur, *remain = attrs` on []: not reached *)
  | cur :: remain =>
      let curr_tag := strip_array cur in
      match remain with
      | [] => match lookup curr_tag data with Some t => GFound t | None => GKeyError curr_tag end
      | _ :: _ =>
          match lookup curr_tag data with
          | Some t => match internal_tags t with
                      | Ok d => recurse_attrs remain d
                      | Err _ => GOther TypeError
                      end
          | None => GNone
          end
      end
  end.

Definition get_tag_info_raw (db : tagdb) (base : text) (attrs : list text) : gti :=
  match lookup (strip_array base) db with
  | None => GKeyError (strip_array base)
  | Some t =>
      match attrs with
      | [] => GFound t
      | _ :: _ => match internal_tags t with
                  | Ok d => recurse_attrs attrs d
                  | Err _ => GOther TypeError
                  end
      end
  end.

(* ------------------------------------------------------------------ requests and parse errors *)
(* a request object handed to read()/write(): a str, or something else (int, None, bytes, tuple ...):
   `tag.endswith("}")` then raises [k] (AttributeError for objects without the method, TypeError for bytes) *)
Inductive request := ReqText (s : text) | ReqOther (k : pyexn).

Inductive perr :=
  | PE_NoTag (key : text)                         (* RequestError(f"Tag doesn't exist - {key}")            [KeyError]  *)
  | PE_TagData (inner : pyexn)                    (* RequestError(f"failed to get tag data for: ...") from inner          *)
  | PE_Parse (inner : pyexn) (tag : request).     (* RequestError("Failed to parse tag request", tag) from inner;
                                                     [tag] = the local variable `tag` at the moment of the failure *)

(* str(err) as recorded in parsed["error"]: exact for PE_NoTag, the fixed PREFIX of the message
   otherwise ("failed to get tag data for: " is followed by `{base}, {attrs}`;
   "('Failed to parse tag request', " by repr(tag) and ")") *)
Definition perr_text (e : perr) : text :=
  match e with
  | PE_NoTag k => err_no_tag ++ k
  | PE_TagData _ => err_tag_data
  | PE_Parse _ _ => 40 :: 39 :: err_parse ++ [39; 44; 32]
  end.
Definition perr_text_exact (e : perr) : bool := match e with PE_NoTag _ => true | _ => false end.
(* the class of `err.__cause__` / the exception the wrapper caught *)
Definition perr_inner (e : perr) : pyexn :=
  match e with PE_NoTag _ => KeyError | PE_TagData k => k | PE_Parse k _ => k end.

Inductive rw := RwRead | RwWrite.

Record parsed := mkParsed {
  user_tag : text;              (* tag name from the user, without the element request *)
  plc_tag : text;               (* the name of the tag in the PLC the request will be using *)
  bit : option Z;
  elements : Z;
  tag_info : taginfo;
  bool_elements : option Z
}.

(* ------------------------------------------------------------------ _parse_tag_request *)
Definition pfail {A : Type} (k : pyexn) (t : text) : A + perr := inr (PE_Parse k (ReqText t)).

Definition parse_tag_request_ex (db : tagdb) (mode : rw) (s : text) : parsed + perr :=
  (* if tag.endswith("}") and "{" in tag: tag, _tmp = tag.split("{"); elements = int(_tmp[:-1]) *)
  let step1 : (text * Z * bool) + perr :=
    if ends_with [c_rbrace] s && contains_chr c_lbrace s then
      match split_chr c_lbrace s with
      | [t; tmp] => match int_of_text (removelast tmp) with
                    | Ok n => inl (t, n, false)
                    | Err _ => pfail ValueError t                 (* `tag` is already the head *)
                    end
      | _ => pfail ValueError s                                  (* too many values to unpack *)
      end
    else inl (s, 1, true) in
  match step1 with
  | inr e => inr e
  | inl (tag, elems, implicit_element) =>
      let request_tag := tag in
      (* base, *attrs = tag.split(".") *)
      match split_chr c_dot tag with
      | [] => pfail ValueError tag                                (* not reached: split yields >= 1 field *)
      | base0 :: attrs0 =>
          (* if base.startswith("Program:"): base = f"{base}.{attrs.pop(0)}" *)
          let step2 : (text * list text) + perr :=
            if starts_with s_Program base0 then
              match attrs0 with
              | [] => pfail IndexError tag                        (* pop from empty list *)
              | a :: r => inl (base0 ++ c_dot :: a, r)
              end
            else inl (base0, attrs0) in
          match step2 with
          | inr e => inr e
          | inl (base, attrs1) =>
              (* if len(attrs) and attrs[-1].isdigit(): bit = int(attrs.pop(-1)); tag = base | base.attrs *)
              let step3 : (option Z * list text * text) + perr :=
                match rev attrs1 with
                | last :: init_rev =>
                    if isdigit last then
                      match int_of_text last with
                      | Ok b =>
                          let attrs := rev init_rev in
                          inl (Some b, attrs,
                               match attrs with [] => base | _ :: _ => base ++ c_dot :: join [c_dot] attrs end)
                      | Err _ => pfail ValueError tag             (* more than 4300 digits *)
                      end
                    else inl (None, attrs1, tag)
                | [] => inl (None, attrs1, tag)
                end in
              match step3 with
              | inr e => inr e
              | inl (bit0, attrs, tag3) =>
                  match get_tag_info_raw db base attrs with
                  | GKeyError k => inr (PE_NoTag k)
                  | GOther k => inr (PE_TagData k)
                  | GNone => pfail TypeError tag3                 (* None["data_type"] *)
                  | GFound ti =>
                      if is_dword_dt ti then
                        match get_array_index tag3 with
                        | Err _ => pfail ValueError tag3
                        | Ok (tag_, idx) =>
                            let tag4 := match idx with
                                        | Some i => match mode with
                                                    | RwRead => tag_ ++ s_idx0
                                                    | RwWrite => tag_ ++ c_lbrack :: py_str_int (i / dword_bits) ++ [c_rbrack]
                                                    end
                                        | None => tag3
                                        end in
                            let bool_elems := if implicit_element || (elems =? 1) then None else Some elems in
                            let total_size := (match idx with Some i => i | None => 0 end) + elems in   (* (bit or 0) + elements *)
                            let elems' := total_size / dword_bits + (if total_size mod dword_bits =? 0 then 0 else 1) in
                            inl (mkParsed request_tag tag4 idx elems' ti bool_elems)
                        end
                      else inl (mkParsed request_tag tag3 bit0 elems ti None)
                  end
              end
          end
      end
  end.

(* what the rest of the driver sees: a dict, or RequestError *)
Definition parse_tag_request (db : tagdb) (mode : rw) (s : text) : res parsed :=
  match parse_tag_request_ex db mode s with
  | inl p => Ok p
  | inr _ => Err RequestError
  end.

(* any request object *)
Definition parse_request_obj (db : tagdb) (mode : rw) (r : request) : parsed + perr :=
  match r with
  | ReqText s => parse_tag_request_ex db mode s
  | ReqOther k => inr (PE_Parse k r)
  end.

(* ------------------------------------------------------------------ _parse_requested_tags
   requests[i] = {"request_id": i, "request_tag": tag, **parsed}  or  {..., "error": str(err)}:
   ids by position, failed requests kept in place *)
Record preq := mkPreq {
  q_id : Z;
  q_request : request;
  q_parsed : parsed + perr
}.
Definition q_error (q : preq) : option text :=
  match q_parsed q with inl _ => None | inr e => Some (perr_text e) end.
Definition q_ok (q : preq) : bool := match q_parsed q with inl _ => true | inr _ => false end.

Fixpoint parse_requested_from (db : tagdb) (mode : rw) (i : Z) (reqs : list request) : list preq :=
  match reqs with
  | [] => []
  | r :: rest => mkPreq i r (parse_request_obj db mode r) :: parse_requested_from db mode (i + 1) rest
  end.
Definition parse_requested_tags (db : tagdb) (mode : rw) (reqs : list request) : list preq :=
  parse_requested_from db mode 0 reqs.

(* get_tag_info(tag_name): the public variant (no bit handling) *)
Definition get_tag_info (db : tagdb) (tag_name : text) : res (option taginfo) :=
  match split_chr c_dot tag_name with
  | [] => Err (Foreign ValueError)
  | base0 :: attrs0 =>
      let go base attrs :=
        match get_tag_info_raw db base attrs with
        | GFound t => Ok (Some t)
        | GNone => Ok None
        | GKeyError _ => Err RequestError
        | GOther _ => Err RequestError
        end in
      if starts_with s_Program base0 then
        match attrs0 with
        | [] => Err (Foreign IndexError)
        | a :: r => go (base0 ++ c_dot :: a) r
        end
      else go base0 attrs0
  end.
