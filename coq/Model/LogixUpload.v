(* Model/LogixUpload.v — the tag-list / data-type upload of LogixDriver (pycomm3/logix_driver.py),
   function by function, as functions from the replies of the peer to the uploaded dictionaries:

     get_tag_list, _get_tag_list, _get_instance_attribute_list_service (the pager: continues from
     last instance + 1 while the status is 6), _parse_instance_attribute_list, _isolate_user_tags
     (the string predicates), _create_tag (symbol-type bit fields, product of the dimensions),
     _get_structure_makeup + _parse_structure_makeup_attributes, _read_template (fragmented template
     read by byte offset, count = (object_definition_size * 4 - 21) - offset), _parse_template_data,
     _parse_template_data_member_info, _get_data_type (+ its caches), the string detection
     (LEN/DATA -> FixedSizeString(structure_size - 4, capacity_ = DATA length)), tags_json.

   The peer is a parameter: [call : S -> ureq -> S * option urep] answers one message-router
   request (service, request path without its word count, request data) with what the driver's
   response object exposes (validity of the response object, general status, data = raw[50:]).
   Instantiated with the reference target's handler in Proofs/Upload*.v and with a script of the
   reply frames the real driver received in Extract/ExC05.v.

   Loops whose termination depends on the peer (the pager, the template-fragment loop, the
   recursion of _get_data_type through member types) take FUEL and end in [OutOfFuel].
   Every Python failure on these paths is re-raised as ResponseError by the enclosing
   try/except of the driver: [Failed ResponseError].

   Not modelled: logging; info['modules'] (bookkeeping of module names: no effect on any other
   output, cannot raise); the write-only caches "tag_name:id" and "handle:id"; bytes.decode of
   non-ASCII template names (errors="replace": outside the model, names are ASCII).
   Constants from coq/Gen (Consts, Status.external_access, Tables.tbl_DataTypes / tbl_Services /
   tbl_ClassCode, Types.type_codes).  Definitions only. *)
From Coq Require Import String.
From PV Require Import Base.Bytes Base.Proto Base.PyStr Base.Res.
From PV Require Gen.Consts Gen.Status Gen.Tables Gen.Types Model.EnumMapDefs Model.EnumMap.
Open Scope Z_scope.

Definition T (s : string) : text := zs_of_string s.

(* ================================================================ outcomes *)
Inductive outcome (A : Type) :=
  | Done (a : A)
  | Failed (e : exn)
  | OutOfFuel.
Arguments Done {A} a.
Arguments Failed {A} e.
Arguments OutOfFuel {A}.

Definition of_res {A} (r : res A) : outcome A :=
  match r with Ok a => Done a | Err _ => Failed ResponseError end.

(* ================================================================ Python dicts (insertion ordered) *)
Fixpoint dict_get {K V} (eqb : K -> K -> bool) (d : list (K * V)) (k : K) : option V :=
  match d with
  | [] => None
  | (k', v) :: r => if eqb k' k then Some v else dict_get eqb r k
  end.
(* d[k] = v : an existing key keeps its position *)
Fixpoint dict_set {K V} (eqb : K -> K -> bool) (d : list (K * V)) (k : K) (v : V) : list (K * V) :=
  match d with
  | [] => [(k, v)]
  | (k', v') :: r => if eqb k' k then (k', v) :: r else (k', v') :: dict_set eqb r k v
  end.
Definition otext_eqb (a b : option text) : bool :=
  match a, b with
  | None, None => true
  | Some x, Some y => text_eqb x y
  | _, _ => false
  end.
(* set.add *)
Definition set_add (s : list text) (x : text) : list text :=
  if existsb (text_eqb x) s then s else s ++ [x].

(* ================================================================ the lookup tables *)
Definition key_text (k : option EnumMapDefs.key) : option text :=
  match k with Some (EnumMapDefs.KStr s) => Some s | _ => None end.
Definition key_obj (k : option EnumMapDefs.key) : option text :=
  match k with Some (EnumMapDefs.KObj s) => Some s | _ => None end.
Definition key_byte (k : option EnumMapDefs.key) : Z :=
  match k with Some (EnumMapDefs.KBytes [b]) => b | _ => -1 end.

(* DataTypes.get(code) : the (upper-case) name of an elementary type, or None *)
Definition datatypes_get_code (code : Z) : option text :=
  key_text (EnumMap.get Types.type_codes Tables.tbl_DataTypes (EnumMapDefs.KInt code) None).
(* DataTypes.get(name) : the type class (identified by its class name), or None *)
Definition datatypes_get_name (name : option text) : option text :=
  match name with
  | Some n => key_obj (EnumMap.get Types.type_codes Tables.tbl_DataTypes (EnumMapDefs.KStr n) None)
  | None => None
  end.
(* DataTypes.get_type(code) = cls.get(cls.get(code)) *)
Definition datatypes_get_type (code : Z) : option text := datatypes_get_name (datatypes_get_code code).

Definition BOOL_CODE : Z :=
  match EnumMap.code_of Types.type_codes (T "BOOL") with Some c => c | None => -1 end.

Definition SVC_GET_INSTANCE_ATTRIBUTE_LIST : Z :=
  key_byte (EnumMap.getitem Types.type_codes Tables.tbl_Services (EnumMapDefs.KStr (T "get_instance_attribute_list"))).
Definition SVC_GET_ATTRIBUTE_LIST : Z :=
  key_byte (EnumMap.getitem Types.type_codes Tables.tbl_Services (EnumMapDefs.KStr (T "get_attribute_list"))).
Definition SVC_READ_TAG : Z :=
  key_byte (EnumMap.getitem Types.type_codes Tables.tbl_Services (EnumMapDefs.KStr (T "read_tag"))).
Definition CLASS_SYMBOL_OBJECT : Z :=
  key_byte (EnumMap.getitem Types.type_codes Tables.tbl_ClassCode (EnumMapDefs.KStr (T "symbol_object"))).
Definition CLASS_TEMPLATE_OBJECT : Z :=
  key_byte (EnumMap.getitem Types.type_codes Tables.tbl_ClassCode (EnumMapDefs.KStr (T "template_object"))).

(* EXTERNAL_ACCESS.get(access, "Unknown") *)
Fixpoint ilookup (d : list (Z * list Z)) (k : Z) : option (list Z) :=
  match d with
  | [] => None
  | (k', v) :: r => if k' =? k then Some v else ilookup r k
  end.
Definition external_access_name (access : option Z) : text :=
  match access with
  | Some a => match ilookup Status.external_access a with Some s => s | None => T "Unknown" end
  | None => T "Unknown"
  end.

(* ================================================================ requests and replies *)
Record ureq := mkReq { q_service : Z; q_path : bytes; q_data : bytes }.
(* what the response object of the driver exposes: bool(response) as computed by its class
   (packets/ethernetip.py, Model/Reply.v), service_status, data = raw[50:] *)
(* [p_error_raises]: evaluating response.error raises (generic_message always evaluates it; for an
   invalid response it reads the extended-status size, which a frame cut right after the status
   byte does not have: packets/util.get_extended_status, Model/Reply.error) *)
Record urep := mkRep { p_valid : bool; p_status : Z; p_data : bytes; p_error_raises : bool }.

(* <int type>.encode(v): DataError outside the range *)
Definition enc_u (w : nat) (v : Z) : res bytes :=
  if in_urange w v then Ok (le_enc w v) else Err DataError.
Definition enc_s (w : nat) (v : Z) : res bytes :=
  if in_srange w v then Ok (le_enc w (of_signed w v)) else Err DataError.

(* LogicalSegment._encode(segment, padded=True) for an int value; [ltype] = the logical-type bits *)
Definition LT_CLASS : Z := 0.
Definition LT_INSTANCE : Z := 4.
Definition logical_segment_int (ltype : Z) (v : Z) : res bytes :=
  if v <=? 255 then let* b := enc_u 1 v in Ok ((32 + ltype + 0) :: b)
  else if v <=? 65535 then let* b := enc_u 2 v in Ok ((32 + ltype + 1) :: 0 :: b)
  else if v <=? 4294967295 then let* b := enc_u 4 v in Ok ((32 + ltype + 2) :: 0 :: b)
  else Err DataError.
(* a one-byte bytes value (a ClassCode member) *)
Definition logical_segment_byte (ltype : Z) (b : Z) : bytes := [32 + ltype + 0; b].

(* DataSegment._encode for a str: ANSI extended symbol *)
Definition data_segment_str (s : text) : res bytes :=
  let n := Z.of_nat (length s) in
  let* l := enc_u 1 n in
  Ok (145 :: l ++ s ++ (if Z.odd n then [0] else [])).

(* PADDED_EPATH.encode(segments, length=True): the word count must fit a USINT; the path bytes
   WITHOUT that count are what the message router sees as the request path *)
Definition epath_with_length (p : bytes) : res bytes :=
  let* _ := enc_u 1 (Z.of_nat (length p) / 2) in Ok p.

Definition txt_Program_ : text := T "Program:".
Definition txt_Routine_ : text := T "Routine:".
Definition txt_Task_ : text := T "Task:".

(* the `program` variable after `if not program.startswith("Program:"): program = f"Program:{program}"` *)
Definition program_path_name (program : text) : text :=
  if starts_with txt_Program_ program then program else txt_Program_ ++ program.

(* attribute ids requested for every symbol; attribute 10 only from MIN_VER_EXTERNAL_ACCESS on *)
Definition symbol_attributes (with_access : bool) : list Z :=
  [1; 2; 3; 5; 6; 8] ++ (if with_access then [10] else []).

Definition symbols_request (with_access : bool) (program : option text) (last_instance : Z) : res ureq :=
  let* scope := match program with
                | Some p => if match p with [] => true | _ => false end then Ok []   (* `if program:` *)
                            else data_segment_str (program_path_name p)
                | None => Ok []
                end in
  let* inst := logical_segment_int LT_INSTANCE last_instance in
  let* path := epath_with_length (scope ++ logical_segment_byte LT_CLASS CLASS_SYMBOL_OBJECT ++ inst) in
  let attrs := symbol_attributes with_access in
  let* n := enc_u 2 (Z.of_nat (length attrs)) in
  Ok (mkReq SVC_GET_INSTANCE_ATTRIBUTE_LIST path (n ++ flat_map (le_enc 2) attrs)).

(* generic_message(service, class_code=template_object, instance=id, request_data) -> request_path *)
Definition template_request (service : Z) (tid : Z) (data : bytes) : res ureq :=
  let* inst := logical_segment_int LT_INSTANCE tid in
  let* path := epath_with_length (logical_segment_byte LT_CLASS CLASS_TEMPLATE_OBJECT ++ inst) in
  Ok (mkReq service path data).

(* the request of one iteration of _read_template: DINT offset, UINT (defsize * 4 - 21) - offset *)
Definition template_read_request (tid defsize offset : Z) : res ureq :=
  let* o := enc_s 4 offset in
  let* c := enc_u 2 ((defsize * 4 - 21) - offset) in
  template_request SVC_READ_TAG tid (o ++ c).

(* attributes 4 5 2 1, preceded by their number *)
Definition template_attrs_data : bytes := [4; 0; 4; 0; 5; 0; 2; 0; 1; 0].

(* ================================================================ BytesIO readers *)
(* <unsigned int type>.decode(stream): nothing left = BufferEmptyError, fewer bytes than the
   size = struct.error -> DataError *)
Definition rd_u (w : nat) (s : bytes) : res (Z * bytes) :=
  match s with
  | [] => Err BufferEmpty
  | _ => if Nat.ltb (length s) w then Err DataError else Ok (le_dec (firstn w s), skipn w s)
  end.
(* STRING.decode(stream): UINT length, then THAT MANY BYTES OR FEWER (stream.read), iso-8859-1 *)
Definition rd_string (s : bytes) : res (text * bytes) :=
  let* (n, s1) := rd_u 2 s in
  if n =? 0 then Ok ([], s1)
  else match s1 with
       | [] => Err BufferEmpty
       | _ => Ok (firstn (Z.to_nat n) s1, skipn (Z.to_nat n) s1)
       end.

(* ================================================================ _parse_instance_attribute_list *)
Record raw_tag := mkRaw {
  rt_inst : Z; rt_name : text; rt_stype : Z; rt_addr : Z; rt_oaddr : Z; rt_swc : Z;
  rt_access : text;            (* EXTERNAL_ACCESS.get(access, "Unknown") *)
  rt_dims : list Z             (* [dim1, dim2, dim3] *)
}.

Definition parse_entry (with_access : bool) (s : bytes) : res (raw_tag * bytes) :=
  let* (inst, s) := rd_u 4 s in
  let* (name, s) := rd_string s in
  let* (stype, s) := rd_u 2 s in
  let* (addr, s) := rd_u 4 s in
  let* (oaddr, s) := rd_u 4 s in
  let* (swc, s) := rd_u 4 s in
  let* (d1, s) := rd_u 4 s in
  let* (d2, s) := rd_u 4 s in
  let* (d3, s) := rd_u 4 s in
  let* (acc, s) := (if with_access then let* (a, s') := rd_u 1 s in Ok (Some a, s') else Ok (None, s)) in
  Ok (mkRaw inst name stype addr oaddr swc (external_access_name acc) [d1; d2; d3], s).

(* `while stream.tell() < tags_returned_length:` — every entry consumes at least one byte, so
   [length data] iterations always suffice (Proofs/UploadParse.v: parse_entries_fuel); the O branch
   is unreachable from [parse_instance_attribute_list] *)
Fixpoint parse_entries (fuel : nat) (with_access : bool) (s : bytes) : res (list raw_tag) :=
  match s with
  | [] => Ok []
  | _ =>
      match fuel with
      | O => Err ResponseError
      | S f =>
          let* (t, s') := parse_entry with_access s in
          let* ts := parse_entries f with_access s' in
          Ok (t :: ts)
      end
  end.

Definition last_instance_of (ts : list raw_tag) : Z := last (map rt_inst ts) 0.

(* -> the tags of this page and the instance to continue from (-1 = done) *)
Definition parse_instance_attribute_list (with_access : bool) (status : Z) (data : bytes)
  : res (list raw_tag * Z) :=
  match parse_entries (length data) with_access data with
  | Err _ => Err ResponseError
  | Ok ts =>
      Ok (ts, if status =? Consts.SUCCESS then -1
              else if status =? Consts.INSUFFICIENT_PACKETS then last_instance_of ts + 1
              else -1)
  end.

(* ================================================================ type classes and definitions *)
(* a type class (identified structurally): what read/write will use to decode and encode *)
Inductive tclass :=
  | TcNone                                                   (* None *)
  | TcAtom (name : text)                                     (* an elementary type, by class name *)
  | TcArray (len : Z) (elt : tclass)                         (* Array(length_, element_type_) *)
  | TcString (size : Z) (capacity : Z)                       (* FixedSizeString(size_, capacity_=...) *)
  | TcStruct (size : Z) (members : list (text * tclass * Z)) (* StructTag: (instance name, class, offset) *)
             (bits : list (text * (Z * Z))) (private : list text).

Record tmpl_attrs := mkTA { ta_defsize : Z; ta_size : Z; ta_count : Z; ta_handle : Z }.

Inductive dtype_ (D : Type) :=
  | DNone                      (* None: an elementary code DataTypes does not know *)
  | DName (n : text)           (* an elementary type name *)
  | DDef (d : D).              (* a structure definition (the dict itself) *)
Arguments DNone {D}. Arguments DName {D} n. Arguments DDef {D} d.

(* one entry of data_type["internal_tags"], keys in insertion order:
   offset, tag_type, data_type, data_type_name, bit | array, type_class *)
Record member_ (D : Type) := mkMem {
  mm_offset : Z; mm_struct : bool; mm_dtype : dtype_ D; mm_dtname : option text;
  mm_bit : option Z; mm_array : option Z; mm_tclass : tclass
}.
Arguments mkMem {D}. Arguments mm_offset {D}. Arguments mm_struct {D}. Arguments mm_dtype {D}.
Arguments mm_dtname {D}. Arguments mm_bit {D}. Arguments mm_array {D}. Arguments mm_tclass {D}.

(* a data type dict: name, internal_tags, attributes, template, [string], [_struct_members], type_class *)
Inductive datatype :=
  MkDT (name : option text) (internal : list (text * member_ datatype)) (attributes : list text)
       (template : tmpl_attrs) (str : option Z)
       (struct_members : option (list (text * tclass * Z) * list (text * (Z * Z))))
       (tc : tclass).
Definition member := member_ datatype.
Definition dtype := dtype_ datatype.

Definition dt_name (d : datatype) := let '(MkDT n _ _ _ _ _ _) := d in n.
Definition dt_internal (d : datatype) := let '(MkDT _ i _ _ _ _ _) := d in i.
Definition dt_attributes (d : datatype) := let '(MkDT _ _ a _ _ _ _) := d in a.
Definition dt_template (d : datatype) := let '(MkDT _ _ _ t _ _ _) := d in t.
Definition dt_string (d : datatype) := let '(MkDT _ _ _ _ s _ _) := d in s.
Definition dt_struct_members (d : datatype) := let '(MkDT _ _ _ _ _ m _) := d in m.
Definition dt_tclass (d : datatype) := let '(MkDT _ _ _ _ _ _ c) := d in c.

(* one uploaded tag, keys in insertion order: tag_name, dim, alias, instance_id, symbol_address,
   symbol_object_address, software_control, external_access, dimensions, then
     struct: template_instance_id, data_type, data_type_name, tag_type, type_class
     atomic: data_type, data_type_name, type_class, [bit_position], tag_type *)
Record mtag := mkMTag {
  tg_name : text; tg_dim : Z; tg_alias : bool; tg_inst : Z; tg_addr : Z; tg_oaddr : Z; tg_swc : Z;
  tg_access : text; tg_dims : list Z;
  tg_struct : bool; tg_tid : option Z; tg_dtype : dtype; tg_dtname : option text;
  tg_bitpos : option Z; tg_tclass : tclass
}.

(* the driver state the upload touches *)
Record ustate := mkU {
  u_programs : list (text * (Z * list text));     (* info["programs"]: name -> instance_id, routines *)
  u_tasks : list (text * Z);                      (* info["tasks"]: name -> instance_id *)
  u_structs : list (Z * tmpl_attrs);              (* _cache["id:struct"] *)
  u_udts : list (Z * datatype);                   (* _cache["id:udt"] *)
  u_data_types : list (option text * datatype)    (* self._data_types *)
}.
Definition set_programs (x : list (text * (Z * list text))) (u : ustate) :=
  mkU x (u_tasks u) (u_structs u) (u_udts u) (u_data_types u).
Definition set_tasks (x : list (text * Z)) (u : ustate) :=
  mkU (u_programs u) x (u_structs u) (u_udts u) (u_data_types u).
Definition set_structs (x : list (Z * tmpl_attrs)) (u : ustate) :=
  mkU (u_programs u) (u_tasks u) x (u_udts u) (u_data_types u).
Definition set_udts (x : list (Z * datatype)) (u : ustate) :=
  mkU (u_programs u) (u_tasks u) (u_structs u) x (u_data_types u).
Definition set_data_types (x : list (option text * datatype)) (u : ustate) :=
  mkU (u_programs u) (u_tasks u) (u_structs u) (u_udts u) x.
(* a fresh driver: no info yet, empty _data_types *)
Definition init_ustate : ustate := mkU [] [] [] [] [].

(* ================================================================ _isolate_user_tags: the predicates *)
Inductive iso_class :=
  | IsoProgram (n : text)      (* "Program:<n>" : recorded in info["programs"] *)
  | IsoRoutine (n : text)
  | IsoTask (n : text)
  | IsoSkip                    (* Map: / Cxn: / other names with ":" / "__" names / system bit 12 *)
  | IsoKeep.                   (* a user tag (module I/O tags included) *)

Definition io_like (name : text) : bool :=
  contains_str (T ":I") name || contains_str (T ":O") name
  || contains_str (T ":C") name || contains_str (T ":S") name.

Definition SYSTEM_BIT : Z := 4096.           (* 0b0001_0000_0000_0000 *)

Definition classify (name : text) (stype : Z) : iso_class :=
  if starts_with txt_Program_ name then IsoProgram (replace_str txt_Program_ [] name)
  else if starts_with txt_Routine_ name then IsoRoutine (replace_str txt_Routine_ [] name)
  else if starts_with txt_Task_ name then IsoTask (replace_str txt_Task_ [] name)
  else if contains_str (T "Map:") name || contains_str (T "Cxn:") name then IsoSkip
  else if (negb (io_like name) && contains_chr 58 name) || starts_with (T "__") name then IsoSkip
  else if negb (Z.land stype SYSTEM_BIT =? 0) then IsoSkip
  else IsoKeep.

(* ================================================================ _create_tag: the bit fields *)
Definition sym_dim (stype : Z) : Z := Z.shiftr (Z.land stype 24576) 13.       (* bits 13, 14 *)
Definition sym_is_struct (stype : Z) : bool := negb (Z.land stype 32768 =? 0).  (* bit 15 *)
Definition sym_template_id (stype : Z) : Z := Z.land stype 4095.
Definition sym_atomic_code (stype : Z) : Z := Z.land stype 255.
Definition sym_bit_position (stype : Z) : Z := Z.shiftr (Z.land stype 1792) 8.  (* bits 8-10 *)
Definition sym_alias (swc : Z) : bool := Z.land swc Consts.BASE_TAG_BIT =? 0.
(* reduce(operator.mul, dimensions[:dim], 1) *)
Definition total_elements (dim : Z) (dims : list Z) : Z :=
  fold_left Z.mul (firstn (Z.to_nat dim) dims) 1.

(* ================================================================ template attributes *)
(* StructTemplateAttributes.decode + _parse_structure_makeup_attributes: 30 bytes are needed;
   the attribute numbers and per-attribute status words are not looked at *)
Definition parse_structure_makeup (data : bytes) : res tmpl_attrs :=
  if Nat.ltb (length data) 30 then Err ResponseError
  else Ok (mkTA (le_dec (slice 6 10 data)) (le_dec (slice 14 18 data))
                (le_dec (slice 22 24 data)) (le_dec (slice 28 30 data))).

(* ================================================================ template definitions *)
(* bytes.split(b"\x00") *)
Definition split_nul (bs : bytes) : list bytes := split_chr 0 bs.
Definition before_semi (n : text) : text :=
  match split_chr 59 n with h :: _ => h | [] => [] end.         (* name.split(";", maxsplit=1)[0] *)

(* the loop over the NUL-separated names: the first name with ";" (while no template name is
   known) names the template, every other one is a member name *)
Fixpoint names_loop (names : list text) (tname : option text) (acc_rev : list text)
  : option text * list text :=
  match names with
  | [] => (tname, rev acc_rev)
  | n :: r =>
      match tname with
      | None => if contains_chr 59 n then names_loop r (Some (before_semi n)) acc_rev
                else names_loop r None (n :: acc_rev)
      | Some _ => names_loop r tname (n :: acc_rev)
      end
  end.

Definition predefined (stype : Z) : bool :=
  let t := Z.land stype 4095 in (t <? 256) || (3839 <? t).

Definition template_and_member_names (data : bytes) (info_len : nat) (stype : Z) : option text * list text :=
  let '(tn, ms) := names_loop (split_nul (skipn info_len data)) None [] in
  let '(tn, ms) :=
    if predefined stype && match tn with None => true | Some _ => false end
    then match ms with
         | m :: r => (Some m, r)                      (* member_names.pop(0) *)
         | [] => (tn, ms)                             (* unreachable: split yields >= 1 name *)
         end
    else (tn, ms) in
  ((match tn with
    | Some n => if text_eqb n (T "ASCIISTRING82") then Some (T "STRING") else tn
    | None => None
    end), ms).

(* state of the member loop *)
Record mloop := mkML {
  ml_internal : list (text * member); ml_attributes : list text;
  ml_struct_members : list (text * tclass * Z); ml_bit_members : list (text * (Z * Z));
  ml_private : list text; ml_unk : Z
}.
Definition ml_init : mloop := mkML [] [] [] [] [] 0.

Definition private_member (predef : bool) (m : text) : bool :=
  starts_with (T "ZZZZZZZZZZ") m || starts_with (T "__") m
  || (predef && (text_eqb m (T "CTL") || text_eqb m (T "Control"))).

Definition member_step (predef : bool) (st : mloop) (nm : text) (info : member) : mloop :=
  let '(nm, unk) :=
    match nm with
    | [] => (T "__unknown" ++ py_str_int (ml_unk st), ml_unk st + 1)
    | _ => (nm, ml_unk st)
    end in
  let priv := private_member predef nm in
  let is_bit := match mm_dtname info, mm_bit info with
                | Some n, Some _ => text_eqb n (T "BOOL")
                | _, _ => false
                end in
  mkML (dict_set text_eqb (ml_internal st) nm info)
       (if priv then ml_attributes st else ml_attributes st ++ [nm])
       (if is_bit then ml_struct_members st else ml_struct_members st ++ [(nm, mm_tclass info, mm_offset info)])
       (if is_bit then dict_set text_eqb (ml_bit_members st) nm
                                (mm_offset info, match mm_bit info with Some b => b | None => 0 end)
        else ml_bit_members st)
       (if priv then set_add (ml_private st) nm else ml_private st)
       unk.

(* for member, info in zip(member_names, member_data) *)
Fixpoint member_loop (predef : bool) (st : mloop) (names : list text) (infos : list member) : mloop :=
  match names, infos with
  | n :: ns, i :: is_ => member_loop predef (member_step predef st n i) ns is_
  | _, _ => st
  end.

(* the string test: attributes == ["LEN", "DATA"], DATA is a SINT array *)
Definition string_length (st : mloop) : option Z :=
  match ml_attributes st with
  | [a; b] =>
      if text_eqb a (T "LEN") && text_eqb b (T "DATA") then
        match dict_get text_eqb (ml_internal st) (T "DATA") with
        | Some d =>
            match mm_dtname d, mm_array d with
            | Some n, Some arr => if text_eqb n (T "SINT") && negb (arr =? 0) then Some arr else None
            | _, _ => None
            end
        | None => None
        end
      else None
  | _ => None
  end.

Definition build_datatype (tname : option text) (template : tmpl_attrs) (st : mloop) : datatype :=
  match string_length st with
  | Some cap =>
      MkDT tname (ml_internal st) (ml_attributes st) template (Some cap) None
           (TcString (ta_size template - 4) cap)
  | None =>
      MkDT tname (ml_internal st) (ml_attributes st) template None
           (Some (ml_struct_members st, ml_bit_members st))
           (TcStruct (ta_size template) (ml_struct_members st) (ml_bit_members st) (ml_private st))
  end.

(* chunks of TEMPLATE_MEMBER_INFO_LEN bytes of data[:info_len] (the last ones short or empty when
   the data is shorter than member_count * 8) *)
Fixpoint info_chunks (n : nat) (data : bytes) : list bytes :=
  match n with
  | O => []
  | S n' => firstn 8 data :: info_chunks n' (skipn 8 data)
  end.

(* the three fields of a member record; anything shorter than 8 bytes fails in one of the decodes *)
Definition member_record (chunk : bytes) : res (Z * Z * Z) :=
  if Nat.ltb (length chunk) 8 then Err ResponseError
  else Ok (le_dec (slice 0 2 chunk), le_dec (slice 2 4 chunk), le_dec (slice 4 8 chunk)).

(* get_tag_list(program): None = controller scope only, "*" = every scope, else one program *)
Inductive scope_arg := ArgNone | ArgStar | ArgProgram (p : text).
Record uresult := mkResult { res_tags : list mtag; res_state : ustate }.

(* ================================================================ the calls *)
Section Upload.
  Variable St : Type.
  Variable call : St -> ureq -> St * option urep.
  Variable rev_major : Z.                       (* self.revision_major *)

  Definition with_access : bool := Consts.MIN_VER_EXTERNAL_ACCESS <=? rev_major.

  (* ---------------------------------------------------------------- the pager *)
  (* while last_instance != -1: request from last_instance, parse, continue from instance + 1 *)
  Fixpoint get_instance_attribute_list (fuel : nat) (s : St) (program : option text) (last_instance : Z)
           (tag_list : list raw_tag) : St * outcome (list raw_tag) :=
    if last_instance =? -1 then (s, Done tag_list) else
    match fuel with
    | O => (s, OutOfFuel)
    | S f =>
        match symbols_request with_access program last_instance with
        | Err _ => (s, Failed ResponseError)
        | Ok rq =>
            let '(s', rp) := call s rq in
            match rp with
            | None => (s', Failed ResponseError)
            | Some r =>
                if negb (p_valid r) then (s', Failed ResponseError) else
                match parse_instance_attribute_list with_access (p_status r) (p_data r) with
                | Err _ => (s', Failed ResponseError)
                | Ok (ts, next) => get_instance_attribute_list f s' program next (tag_list ++ ts)
                end
            end
        end
    end.

  (* ---------------------------------------------------------------- templates *)
  (* _get_structure_makeup *)
  Definition get_structure_makeup (u : ustate) (s : St) (tid : Z) : St * ustate * outcome tmpl_attrs :=
    match dict_get Z.eqb (u_structs u) tid with
    | Some a => (s, u, Done a)
    | None =>
        match template_request SVC_GET_ATTRIBUTE_LIST tid template_attrs_data with
        | Err _ => (s, u, Failed ResponseError)
        | Ok rq =>
            let '(s', rp) := call s rq in
            match rp with
            | None => (s', u, Failed ResponseError)
            | Some r =>
                if p_error_raises r || negb (p_valid r) then (s', u, Failed ResponseError) else
                match parse_structure_makeup (p_data r) with
                | Err _ => (s', u, Failed ResponseError)
                | Ok a => (s', set_structs (dict_set Z.eqb (u_structs u) tid a) u, Done a)
                end
            end
        end
    end.

  (* _read_template: read from byte [offset], asking for (defsize * 4 - 21) - offset bytes, until
     the status is SUCCESS *)
  Fixpoint read_template (fuel : nat) (s : St) (tid defsize : Z) (offset : Z) (template_raw : bytes)
    : St * outcome bytes :=
    match fuel with
    | O => (s, OutOfFuel)
    | S f =>
        match template_read_request tid defsize offset with
        | Err _ => (s, Failed ResponseError)
        | Ok rq =>
            let '(s', rp) := call s rq in
            match rp with
            | None => (s', Failed ResponseError)
            | Some r =>
                if p_error_raises r then (s', Failed ResponseError)
                else if negb ((p_status r =? Consts.SUCCESS) || (p_status r =? Consts.INSUFFICIENT_PACKETS))
                then (s', Failed ResponseError)
                else
                  let raw := template_raw ++ p_data r in
                  if p_status r =? Consts.SUCCESS then (s', Done raw)
                  else read_template f s' tid defsize (offset + Z.of_nat (length (p_data r))) raw
            end
        end
    end.

  (* _parse_template_data_member_info, with the recursive _get_data_type as a parameter *)
  Definition parse_member_info
             (gdt : ustate -> St -> Z -> Z -> St * ustate * outcome datatype)
             (u : ustate) (s : St) (chunk : bytes) : St * ustate * outcome member :=
    match member_record chunk with
    | Err _ => (s, u, Failed ResponseError)
    | Ok (type_info, typ, offset) =>
        let instance_id := Z.land typ 4095 in
        (* (data_type, type_class) when the member is elementary: DataTypes.get(typ) / get_type(typ),
           else (bit 15 clear) get_type(typ & 0xFFF) and its str() *)
        let atomic : option (text * option text) :=
          match datatypes_get_code typ with
          | Some n => Some (n, datatypes_get_name (Some n))
          | None =>
              if Z.land typ 32768 =? 0 then
                match datatypes_get_type instance_id with
                | Some c => Some (c, Some c)
                | None => None
                end
              else None
          end in
        let finish (s : St) (u : ustate) (is_struct : bool) (dt : dtype) (dtname : option text) (tc : tclass)
            : St * ustate * outcome member :=
          let is_bool := match dt with DName n => text_eqb n (T "BOOL") | _ => false end in
          (s, u, Done (mkMem offset is_struct dt dtname
                             (if is_bool then Some type_info else None)
                             (if is_bool then None else Some type_info)
                             (if is_bool then tc
                              else if type_info =? 0 then tc else TcArray type_info tc))) in
        match atomic with
        | Some (n, c) =>
            finish s u false (DName n) (Some n) (match c with Some c => TcAtom c | None => TcNone end)
        | None =>
            let '(s', u', r) := gdt u s instance_id typ in
            match r with
            | Done d => finish s' u' true (DDef d) (dt_name d) (dt_tclass d)
            | Failed e => (s', u', Failed e)
            | OutOfFuel => (s', u', OutOfFuel)
            end
        end
    end.

  (* member_data = [self._parse_template_data_member_info(chunk) for chunk in chunks] *)
  Fixpoint parse_member_infos
           (gdt : ustate -> St -> Z -> Z -> St * ustate * outcome datatype)
           (u : ustate) (s : St) (chunks : list bytes) : St * ustate * outcome (list member) :=
    match chunks with
    | [] => (s, u, Done [])
    | c :: r =>
        let '(s1, u1, o) := parse_member_info gdt u s c in
        match o with
        | Done m =>
            let '(s2, u2, o2) := parse_member_infos gdt u1 s1 r in
            match o2 with
            | Done ms => (s2, u2, Done (m :: ms))
            | Failed e => (s2, u2, Failed e)
            | OutOfFuel => (s2, u2, OutOfFuel)
            end
        | Failed e => (s1, u1, Failed e)
        | OutOfFuel => (s1, u1, OutOfFuel)
        end
    end.

  (* _parse_template_data *)
  Definition parse_template_data
             (gdt : ustate -> St -> Z -> Z -> St * ustate * outcome datatype)
             (u : ustate) (s : St) (data : bytes) (template : tmpl_attrs) (stype : Z)
    : St * ustate * outcome datatype :=
    let count := Z.to_nat (ta_count template) in
    let info_len := (count * 8)%nat in
    let '(s1, u1, o) := parse_member_infos gdt u s (info_chunks count (firstn info_len data)) in
    match o with
    | Done infos =>
        let '(tname, mnames) := template_and_member_names data info_len stype in
        let st := member_loop (predefined stype) ml_init mnames infos in
        (s1, u1, Done (build_datatype tname template st))
    | Failed e => (s1, u1, Failed e)
    | OutOfFuel => (s1, u1, OutOfFuel)
    end.

  (* _get_data_type: the recursion through member types is bounded by [fuel]; the same number
     bounds the fragment loop of each template read *)
  Fixpoint get_data_type (fuel : nat) (u : ustate) (s : St) (instance_id : Z) (stype : Z) {struct fuel}
    : St * ustate * outcome datatype :=
    match dict_get Z.eqb (u_udts u) instance_id with
    | Some d => (s, u, Done d)
    | None =>
        match fuel with
        | O => (s, u, OutOfFuel)
        | S f =>
            let '(s1, u1, o1) := get_structure_makeup u s instance_id in
            match o1 with
            | Done template =>
                let '(s2, o2) := read_template (S f) s1 instance_id (ta_defsize template) 0 [] in
                match o2 with
                | Done data =>
                    let '(s3, u3, o3) := parse_template_data (get_data_type f) u1 s2 data template stype in
                    match o3 with
                    | Done d =>
                        (s3, set_data_types (dict_set otext_eqb (u_data_types u3) (dt_name d) d)
                               (set_udts (dict_set Z.eqb (u_udts u3) instance_id d) u3), Done d)
                    | Failed e => (s3, u3, Failed e)
                    | OutOfFuel => (s3, u3, OutOfFuel)
                    end
                | Failed e => (s2, u1, Failed e)
                | OutOfFuel => (s2, u1, OutOfFuel)
                end
            | Failed e => (s1, u1, Failed e)
            | OutOfFuel => (s1, u1, OutOfFuel)
            end
        end
    end.

  (* ---------------------------------------------------------------- _create_tag *)
  Definition create_tag (fuel : nat) (u : ustate) (s : St) (name : text) (raw : raw_tag)
    : St * ustate * outcome mtag :=
    let stype := rt_stype raw in
    let dim := sym_dim stype in
    let wrap (tc : tclass) : tclass :=
      if dim =? 0 then tc else TcArray (total_elements dim (rt_dims raw)) tc in
    let mk (is_struct : bool) (tid : option Z) (dt : dtype) (dtname : option text) (bp : option Z) (tc : tclass) :=
      mkMTag name dim (sym_alias (rt_swc raw)) (rt_inst raw) (rt_addr raw) (rt_oaddr raw) (rt_swc raw)
             (rt_access raw) (rt_dims raw) is_struct tid dt dtname bp (wrap tc) in
    if sym_is_struct stype then
      let tid := sym_template_id stype in
      let '(s', u', o) := get_data_type fuel u s tid stype in
      match o with
      | Done d => (s', u', Done (mk true (Some tid) (DDef d) (dt_name d) None (dt_tclass d)))
      | Failed e => (s', u', Failed e)
      | OutOfFuel => (s', u', OutOfFuel)
      end
    else
      let code := sym_atomic_code stype in
      let n := datatypes_get_code code in
      let tc := match datatypes_get_name n with Some c => TcAtom c | None => TcNone end in
      (s, u, Done (mk false None (match n with Some x => DName x | None => DNone end) n
                      (if code =? BOOL_CODE then Some (sym_bit_position stype) else None) tc)).

  (* ---------------------------------------------------------------- _isolate_user_tags *)
  Fixpoint isolate_user_tags (fuel : nat) (u : ustate) (s : St) (program : option text)
           (all_tags : list raw_tag) (user_tags : list mtag) : St * ustate * outcome (list mtag) :=
    match all_tags with
    | [] => (s, u, Done user_tags)
    | tag :: rest =>
        match classify (rt_name tag) (rt_stype tag) with
        | IsoProgram n =>
            isolate_user_tags fuel (set_programs (dict_set text_eqb (u_programs u) n (rt_inst tag, [])) u)
                              s program rest user_tags
        | IsoRoutine n =>
            let u' := match program with
                      | Some p =>
                          match dict_get text_eqb (u_programs u) p with
                          | Some (i, rs) => set_programs (dict_set text_eqb (u_programs u) p (i, rs ++ [n])) u
                          | None => u
                          end
                      | None => u
                      end in
            isolate_user_tags fuel u' s program rest user_tags
        | IsoTask n =>
            isolate_user_tags fuel (set_tasks (dict_set text_eqb (u_tasks u) n (rt_inst tag)) u)
                              s program rest user_tags
        | IsoSkip => isolate_user_tags fuel u s program rest user_tags
        | IsoKeep =>
            let name := match program with
                        | Some p => txt_Program_ ++ p ++ [46] ++ rt_name tag
                        | None => rt_name tag
                        end in
            let '(s', u', o) := create_tag fuel u s name tag in
            match o with
            | Done t => isolate_user_tags fuel u' s' program rest (user_tags ++ [t])
            | Failed e => (s', u', Failed e)
            | OutOfFuel => (s', u', OutOfFuel)
            end
        end
    end.

  (* _get_tag_list *)
  Definition get_tag_list_scope (fuel : nat) (u : ustate) (s : St) (program : option text)
    : St * ustate * outcome (list mtag) :=
    let '(s1, o) := get_instance_attribute_list fuel s program 0 [] in
    match o with
    | Done all_tags => isolate_user_tags fuel u s1 program all_tags []
    | Failed e => (s1, u, Failed e)
    | OutOfFuel => (s1, u, OutOfFuel)
    end.

  (* for prog in self._info["programs"]: tags += self._get_tag_list(prog) — the dict is not
     changed while it is iterated (program scopes hold no "Program:" symbols in a controller; a
     peer that lists one makes Python raise "dictionary changed size during iteration":
     [Failed]) *)
  Fixpoint program_tag_lists (fuel : nat) (u : ustate) (s : St) (progs : list text) (tags : list mtag)
    : St * ustate * outcome (list mtag) :=
    match progs with
    | [] => (s, u, Done tags)
    | p :: r =>
        let '(s1, u1, o) := get_tag_list_scope fuel u s (Some p) in
        match o with
        | Done ts =>
            if negb (Nat.eqb (length (u_programs u1)) (length (u_programs u))) then (s1, u1, Failed ResponseError)
            else program_tag_lists fuel u1 s1 r (tags ++ ts)
        | Failed e => (s1, u1, Failed e)
        | OutOfFuel => (s1, u1, OutOfFuel)
        end
    end.

  Definition get_tag_list (fuel : nat) (u : ustate) (s : St) (program : scope_arg)
    : St * outcome uresult :=
    (* self._cache = {...}: the caches start empty on every call *)
    let u := set_udts [] (set_structs [] u) in
    (* scopes None and "*": info['programs'|'tasks'] and self._data_types start empty too *)
    let u := match program with
             | ArgProgram _ => u
             | _ => set_data_types [] (set_tasks [] (set_programs [] u))
             end in
    let '(s', u', o) :=
      match program with
      | ArgNone => get_tag_list_scope fuel u s None
      | ArgProgram p => get_tag_list_scope fuel u s (Some p)
      | ArgStar =>
          let '(s1, u1, o1) := get_tag_list_scope fuel u s None in
          match o1 with
          | Done ts => program_tag_lists fuel u1 s1 (map fst (u_programs u1)) ts
          | _ => (s1, u1, o1)
          end
      end in
    match o with
    | Done ts => (s', Done (mkResult ts u'))
    | Failed e => (s', Failed e)
    | OutOfFuel => (s', OutOfFuel)
    end.
End Upload.

(* self._tags = {tag["tag_name"]: tag for tag in tags} *)
Definition tags_dict (tags : list mtag) : list (text * mtag) :=
  fold_left (fun d t => dict_set text_eqb d (tg_name t) t) tags [].

(* ================================================================ the Python values *)
(* a Python value as far as the uploaded dictionaries go.  [PObj] = an object json cannot
   serialise (a type class, an instance of one, a tuple holding them), described by a value *)
Inductive pyval :=
  | PNone
  | PBool (b : bool)
  | PInt (z : Z)
  | PStr (s : text)
  | PList (l : list pyval)
  | PDict (kvs : list (pyval * pyval))
  | PObj (desc : pyval).

Definition K (s : string) : pyval := PStr (T s).
Definition ostr (o : option text) : pyval := match o with Some s => PStr s | None => PNone end.
Definition oint (o : option Z) : pyval := match o with Some z => PInt z | None => PNone end.

(* a type class described by value (the harness renders the real classes the same way) *)
Fixpoint tclass_desc (tc : tclass) : pyval :=
  match tc with
  | TcNone => PNone
  | TcAtom n => PStr n
  | TcArray len e => PList [K "array"; PInt len; tclass_desc e]
  | TcString size cap => PList [K "fstr"; PInt size; PInt cap]
  | TcStruct size ms bits priv =>
      PList [K "struct"; PInt size;
             PList (map (fun '(n, c, off) => PList [PStr n; tclass_desc c; PInt off]) ms);
             PDict (map (fun '(n, (off, bit)) => (PStr n, PList [PInt off; PInt bit])) bits);
             PList (K "set" :: map PStr priv)]
  end.
Definition tclass_py (tc : tclass) : pyval :=
  match tc with TcNone => PNone | _ => PObj (tclass_desc tc) end.

Definition template_py (a : tmpl_attrs) : pyval :=
  PDict [(K "object_definition_size", PInt (ta_defsize a)); (K "structure_size", PInt (ta_size a));
         (K "member_count", PInt (ta_count a)); (K "structure_handle", PInt (ta_handle a))].

Definition struct_members_py (sm : list (text * tclass * Z) * list (text * (Z * Z))) : pyval :=
  PObj (PList [PList (map (fun '(n, c, off) => PList [PStr n; tclass_desc c; PInt off]) (fst sm));
               PDict (map (fun '(n, (off, bit)) => (PStr n, PList [PInt off; PInt bit])) (snd sm))]).

Fixpoint datatype_py (d : datatype) : pyval :=
  match d with
  | MkDT name internal attributes template str sm tc =>
      PDict ([(K "name", ostr name);
              (K "internal_tags",
               PDict (map (fun '(n, m) =>
                             (PStr n,
                              PDict ([(K "offset", PInt (mm_offset m));
                                      (K "tag_type", if mm_struct m then K "struct" else K "atomic");
                                      (K "data_type", match mm_dtype m with
                                                      | DNone => PNone
                                                      | DName x => PStr x
                                                      | DDef d' => datatype_py d'
                                                      end);
                                      (K "data_type_name", ostr (mm_dtname m))]
                                     ++ (match mm_bit m with Some b => [(K "bit", PInt b)] | None => [] end)
                                     ++ (match mm_array m with Some a => [(K "array", PInt a)] | None => [] end)
                                     ++ [(K "type_class", tclass_py (mm_tclass m))]))) internal));
              (K "attributes", PList (map PStr attributes));
              (K "template", template_py template)]
             ++ (match str with Some c => [(K "string", PInt c)] | None => [] end)
             ++ (match sm with Some x => [(K "_struct_members", struct_members_py x)] | None => [] end)
             ++ [(K "type_class", tclass_py tc)])
  end.

Definition dtype_py (t : dtype) : pyval :=
  match t with DNone => PNone | DName x => PStr x | DDef d => datatype_py d end.

Definition tag_py (t : mtag) : pyval :=
  PDict ([(K "tag_name", PStr (tg_name t)); (K "dim", PInt (tg_dim t)); (K "alias", PBool (tg_alias t));
          (K "instance_id", PInt (tg_inst t)); (K "symbol_address", PInt (tg_addr t));
          (K "symbol_object_address", PInt (tg_oaddr t)); (K "software_control", PInt (tg_swc t));
          (K "external_access", PStr (tg_access t)); (K "dimensions", PList (map PInt (tg_dims t)))]
         ++ (if tg_struct t
             then [(K "template_instance_id", oint (tg_tid t)); (K "data_type", dtype_py (tg_dtype t));
                   (K "data_type_name", ostr (tg_dtname t)); (K "tag_type", K "struct");
                   (K "type_class", tclass_py (tg_tclass t))]
             else [(K "data_type", dtype_py (tg_dtype t)); (K "data_type_name", ostr (tg_dtname t));
                   (K "type_class", tclass_py (tg_tclass t))]
                  ++ (match tg_bitpos t with Some b => [(K "bit_position", PInt b)] | None => [] end)
                  ++ [(K "tag_type", K "atomic")])).

(* drv.tags *)
Definition tags_py (tags : list mtag) : pyval :=
  PDict (map (fun '(n, t) => (PStr n, tag_py t)) (tags_dict tags)).
(* drv.data_types *)
Definition data_types_py (u : ustate) : pyval :=
  PDict (map (fun '(n, d) => (ostr n, datatype_py d)) (u_data_types u)).
Definition programs_py (u : ustate) : pyval :=
  PDict (map (fun '(n, (i, rs)) => (PStr n, PDict [(K "instance_id", PInt i); (K "routines", PList (map PStr rs))]))
             (u_programs u)).
Definition tasks_py (u : ustate) : pyval :=
  PDict (map (fun '(n, i) => (PStr n, PDict [(K "instance_id", PInt i)])) (u_tasks u)).

(* ================================================================ tags_json *)
Definition is_key (s : string) (k : pyval) : bool :=
  match k with PStr x => text_eqb x (T s) | _ => false end.

(* _copy_datatype(src): drop the keys type_class and _struct_members; copy a dict-valued
   data_type the same way; copy every value of internal_tags the same way.  One pass over the
   items does the same as the three statements of the Python because the keys of a dict are
   distinct and an assignment to an existing key keeps its position.
   A non-dict [src], or an internal_tags value that is not a dict, makes the Python raise
   (AttributeError on .items()): rendered as an unserialisable marker, never as a value. *)
Definition py_raises : pyval := PObj (K "AttributeError").

Fixpoint copy_datatype (src : pyval) : pyval :=
  match src with
  | PDict kvs =>
      PDict (flat_map (fun kv =>
                         let '(k, v) := kv in
                         if is_key "type_class" k || is_key "_struct_members" k then []
                         else if is_key "data_type" k then
                           [(k, match v with PDict _ => copy_datatype v | _ => v end)]
                         else if is_key "internal_tags" k then
                           [(k, match v with
                                | PDict its => PDict (map (fun kv2 => let '(k2, v2) := kv2 in (k2, copy_datatype v2)) its)
                                | _ => py_raises
                                end)]
                         else [(k, v)]) kvs)
  | _ => py_raises
  end.

Definition tags_json (tags : list mtag) : pyval :=
  PDict (map (fun '(n, t) => (PStr n, copy_datatype (tag_py t))) (tags_dict tags)).

(* json.dumps accepts the value *)
Definition json_key (k : pyval) : bool :=
  match k with PNone | PBool _ | PInt _ | PStr _ => true | _ => false end.
Fixpoint serialisable (v : pyval) : bool :=
  match v with
  | PNone | PBool _ | PInt _ | PStr _ => true
  | PList l => forallb serialisable l
  | PDict kvs => forallb (fun kv => json_key (fst kv) && serialisable (snd kv)) kvs
  | PObj _ => false
  end.
