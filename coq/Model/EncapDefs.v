(* Model/EncapDefs.v — data shapes of the regenerated facts of the encapsulation layer
   (Gen/EncapGen.v, written by harness/gen_encap.py).  Definitions only. *)
From PV Require Import Base.Bytes Base.Res.
Open Scope Z_scope.

(* the five parameters of RequestPacket._build_header(command, length, session_id, context, option),
   by position *)
Inductive harg := ACommand | ALength | ASession | AContext | AOption.

(* one element of the list joined by _build_header *)
Inductive hfield :=
  | HLit (b : bytes)                 (* a bytes literal *)
  | HRaw (a : harg)                  (* the parameter itself *)
  | HEnc (size : nat) (a : harg).    (* <unsigned little-endian integer type of that size>.encode(parameter) *)

(* class attributes read by RequestPacket._build_common_packet_format *)
Inductive cattr := ATimeout | AAddrType | AMsgType.

(* one element of the list joined by _build_common_packet_format *)
Inductive cfield :=
  | CLit (b : bytes)
  | CAttr (a : cattr)                (* self._timeout / self._address_type / self._message_type *)
  | CAddrData                        (* the local addr_data *)
  | CMsgLen (size : nat)             (* <unsigned type>.encode(len(message)) *)
  | CMsg.                            (* message *)

(* shape of a request class's _build_common_packet_format *)
Inductive cpf_kind :=
  | CpfBase                          (* inherited from RequestPacket *)
  | CpfSuperNoAddr                   (* return super()._build_common_packet_format(message, addr_data=None) *)
  | CpfMessage                       (* return message *)
  | CpfEmpty.                        (* return b"" *)

(* shape of a request class's _setup_message *)
Inductive setup_kind :=
  | SetupBase                        (* inherited: self._msg_setup = True *)
  | SetupSuperSeq (size : nat)       (* super()._setup_message(); self._msg.append(<unsigned type>.encode(self._sequence)) *)
  | SetupRegister.                   (* self._msg += [self.protocol_version, self.option_flags]   — no super() call *)

Record pclass := {
  pc_name : list Z;
  pc_command : option bytes;         (* _encap_command *)
  pc_message_type : option bytes;    (* _message_type (None in RequestPacket) *)
  pc_address_type : option bytes;    (* _address_type *)
  pc_timeout : option bytes;         (* _timeout *)
  pc_cpf : cpf_kind;
  pc_setup : setup_kind;
  pc_no_response : bool
}.

(* where a keyword argument of CIPDriver.send's request_kwargs comes from *)
Inductive src := SelfTargetCid | SelfSession | SelfSequence | CfgContext | CfgOption | CfgProtocolVersion.
