(* Model/Lifecycle.v — executable model of the connection lifecycle of pycomm3 (property C10),
   composed with the reference target [Spec/TargetCore.tstep] through a model of the (fake) socket.

   Mirrors, function by function (names: Python name, or [drv_]<name> where Spec/TargetCore.v already
   uses the Python name):
     cip_driver.py    with_forward_open (75-102), _abandon_transport (603-618), CIPDriver.__enter__/__exit__ (143-157), open (297-319),
                      _register_session (321-339), _forward_open (341-403), close (405-432),
                      _un_register_session (434-441), _forward_close (443-482), generic_message (484-562:
                      the connected / unconnected choice with data_type None), send (564-582),
                      _send / _receive (584-598), _list_identity (262-265)
     logix_driver.py  LogixDriver.open (162-166), _initialize_driver (168-194, init_tags = False),
                      get_plc_info (311-336), get_plc_name (285-309)
     packets/base.py, packets/ethernetip.py, packets/cip.py, packets/util.py
                      the request builders (header, common packet format, Unconnected Send wrapper) and
                      what the response classes decide: is_valid, session, value, and whether the
                      `error` property raises (get_extended_status on a short buffer)
     harness/props/c10.py LifecycleSocket (= harness/target.py FakeSocket + peer-vanish + refusal of
                      I/O on a socket that is not connected): [sock_connect], [sock_send], [sock_recv], [sock_close]
   Declarative facts (constants, message templates, offsets) come from Gen/LifecycleGen.v, Gen/Consts.v,
   Gen/SeqGen.v, Gen/ReplyTables.v.  Identity decoding (Micro800 detection, get_plc_info) is
   Model/Identity.v.  Exceptions are data; `try/except Exception` = [wrap_all] at the same place.
   The peer is the SAME definition that runs as the live target: [tstep] / [tclosed], any handler.
   Definitions only. *)
From PV Require Import Base.Bytes Base.Res.
From PV Require Import Gen.Consts Gen.LifecycleGen Gen.SeqGen Gen.ReplyTables.
From PV Require Import Spec.EncapParser Spec.MRParser Spec.TargetIface Spec.TargetCore.
From PV Require Model.Identity Spec.IdentitySpec.
Open Scope Z_scope.

(* ================================================================ fault schedules *)
(* what the socket layer raises: an OS-level error (socket_.Socket turns socket.error into CommError
   itself) or any other exception *)
Inductive fkind := FkOs | FkOther.
Definition exn_of (k : fkind) : exn := match k with FkOs => CommError | FkOther => Foreign ValueError end.

(* indices count calls of that kind over the lifetime of the driver object, from 0 *)
Record faults := mkFaults {
  f_connect : list (nat * fkind);       (* the k-th connect() raises *)
  f_send : list (nat * fkind);          (* the k-th send() raises BEFORE the frame reaches the target *)
  f_send_after : list (nat * fkind);    (* the k-th send() raises AFTER the target processed the frame: its reply stays queued *)
  f_recv : list (nat * fkind);          (* the k-th receive() raises: a queued reply stays queued (it arrives late) *)
  f_drop : list nat;                    (* the reply to the k-th send() is lost *)
  f_close : list (nat * fkind);         (* the k-th close() raises (the target still sees the TCP close) *)
  f_vanish : list nat }.                (* at the k-th send() the peer vanishes: the TCP connection is gone *)

Definition no_faults : faults := mkFaults [] [] [] [] [] [] [].

Fixpoint flookup (k : nat) (l : list (nat * fkind)) : option fkind :=
  match l with
  | [] => None
  | (k', v) :: r => if Nat.eqb k k' then Some v else flookup k r
  end.
Definition fmem (k : nat) (l : list nat) : bool := existsb (Nat.eqb k) l.

(* ================================================================ driver state *)
Record dstate := mkD {
  d_sock : bool;               (* self._sock is not None *)
  d_session : Z;               (* self._session *)
  d_opened : bool;             (* self._connection_opened  (= the `connected` property) *)
  d_tconn : bool;              (* self._target_is_connected *)
  d_cid : option bytes;        (* self._target_cid *)
  d_ext : bool;                (* self._cfg["extended forward open"] *)
  d_size : Z;                  (* self._cfg["connection_size"] *)
  d_seq : Z;                   (* the counter variable of self._sequence *)
  d_ocid : bytes;              (* self._cfg["cid"] *)
  d_vsn : bytes;               (* self._cfg["vsn"] *)
  d_route : list bytes;        (* self._cfg["cip_path"]: the encoded port segments *)
  d_micro : bool }.            (* LogixDriver._micro800 *)

Definition init_dstate (route : list bytes) : dstate :=
  {| d_sock := false; d_session := 0; d_opened := false; d_tconn := false; d_cid := None;
     d_ext := CFG_EXTENDED_FO; d_size := CFG_CONNECTION_SIZE; d_seq := cycle_init SEQ_STOP SEQ_START;
     d_ocid := CFG_CID; d_vsn := CFG_VSN; d_route := route; d_micro := false |}.

Definition set_sock (v : bool) (d : dstate) := mkD v (d_session d) (d_opened d) (d_tconn d) (d_cid d) (d_ext d) (d_size d) (d_seq d) (d_ocid d) (d_vsn d) (d_route d) (d_micro d).
Definition set_session (v : Z) (d : dstate) := mkD (d_sock d) v (d_opened d) (d_tconn d) (d_cid d) (d_ext d) (d_size d) (d_seq d) (d_ocid d) (d_vsn d) (d_route d) (d_micro d).
Definition set_opened (v : bool) (d : dstate) := mkD (d_sock d) (d_session d) v (d_tconn d) (d_cid d) (d_ext d) (d_size d) (d_seq d) (d_ocid d) (d_vsn d) (d_route d) (d_micro d).
Definition set_tconn (v : bool) (d : dstate) := mkD (d_sock d) (d_session d) (d_opened d) v (d_cid d) (d_ext d) (d_size d) (d_seq d) (d_ocid d) (d_vsn d) (d_route d) (d_micro d).
Definition set_cid (v : option bytes) (d : dstate) := mkD (d_sock d) (d_session d) (d_opened d) (d_tconn d) v (d_ext d) (d_size d) (d_seq d) (d_ocid d) (d_vsn d) (d_route d) (d_micro d).
Definition set_fo_cfg (e : bool) (sz : Z) (d : dstate) := mkD (d_sock d) (d_session d) (d_opened d) (d_tconn d) (d_cid d) e sz (d_seq d) (d_ocid d) (d_vsn d) (d_route d) (d_micro d).
Definition set_seq (v : Z) (d : dstate) := mkD (d_sock d) (d_session d) (d_opened d) (d_tconn d) (d_cid d) (d_ext d) (d_size d) v (d_ocid d) (d_vsn d) (d_route d) (d_micro d).
Definition set_ids (c v : bytes) (d : dstate) := mkD (d_sock d) (d_session d) (d_opened d) (d_tconn d) (d_cid d) (d_ext d) (d_size d) (d_seq d) c v (d_route d) (d_micro d).
Definition set_route (r : list bytes) (d : dstate) := mkD (d_sock d) (d_session d) (d_opened d) (d_tconn d) (d_cid d) (d_ext d) (d_size d) (d_seq d) (d_ocid d) (d_vsn d) r (d_micro d).
Definition set_micro (v : bool) (d : dstate) := mkD (d_sock d) (d_session d) (d_opened d) (d_tconn d) (d_cid d) (d_ext d) (d_size d) (d_seq d) (d_ocid d) (d_vsn d) (d_route d) v.

(* next(self._sequence) *)
Definition draw (d : dstate) : Z * dstate :=
  let (y, v) := cycle_step SEQ_STOP SEQ_START (d_seq d) in (y, set_seq v d).

(* ================================================================ request builders *)
(* RequestPacket._build_header: every failure is CommError *)
Definition build_header (cmd : bytes) (len session : Z) : res bytes :=
  if in_urange 2 len && in_urange 4 session && in_urange 4 CFG_OPTION
  then Ok (cmd ++ le_enc 2 len ++ le_enc 4 session ++ HEADER_STATUS ++ CFG_CONTEXT ++ le_enc 4 CFG_OPTION)
  else Err CommError.

(* RequestPacket._build_common_packet_format (UINT.encode of a length >= 65536 is a DataError) *)
Definition cpf (addr_type : bytes) (addr_data : option bytes) (msg_type msg : bytes) : res bytes :=
  let* ad := match addr_data with
             | None => Ok CPF_NO_ADDR_DATA
             | Some a => if in_urange 2 (blen a) then Ok (le_enc 2 (blen a) ++ a) else Err DataError
             end in
  if in_urange 2 (blen msg)
  then Ok (CPF_INTERFACE_HANDLE ++ CPF_TIMEOUT ++ CPF_ITEM_COUNT ++ addr_type ++ ad
           ++ msg_type ++ le_enc 2 (blen msg) ++ msg)
  else Err DataError.

(* RequestPacket.build_request *)
Definition build_request (cmd : bytes) (common : res bytes) (session : Z) : res bytes :=
  let* c := common in
  let* hd := build_header cmd (blen c) session in
  Ok (hd ++ c).

Definition register_frame (session : Z) : res bytes :=
  build_request CMD_REGISTER_SESSION (Ok (CFG_PROTOCOL_VERSION ++ REGISTER_OPTION_FLAGS)) session.
Definition unregister_frame (session : Z) : res bytes := build_request CMD_UNREGISTER_SESSION (Ok []) session.
Definition list_identity_frame (session : Z) : res bytes := build_request CMD_LIST_IDENTITY_B (Ok []) session.
(* SendRRData: the address item is always the null item *)
Definition rr_frame (session : Z) (msg : bytes) : res bytes :=
  build_request CMD_SEND_RR_DATA (cpf ADDR_ITEM_UCMM None DATA_ITEM_UNCONNECTED msg) session.
(* SendUnitData: connected address item = target_cid, data = sequence count + message *)
Definition ud_frame (session : Z) (cid : option bytes) (seq : Z) (msg : bytes) : res bytes :=
  if in_urange 2 seq
  then build_request CMD_SEND_UNIT_DATA (cpf ADDR_ITEM_CONNECTION cid DATA_ITEM_CONNECTED (le_enc 2 seq ++ msg)) session
  else Err DataError.

(* PADDED_EPATH.encode(segments, length=True, pad_length=pad) on already encoded segments *)
Definition epath_len (p : bytes) (pad : bool) : res bytes :=
  if blen p / 2 <? 256 then Ok ([blen p / 2] ++ (if pad then [0] else []) ++ p) else Err DataError.

(* packets.util.wrap_unconnected_send(message, route_path) *)
Definition wrap_unconnected_send (message route_path : bytes) : res bytes :=
  if in_urange 2 (blen message)
  then Ok (SVC_UNCONNECTED_SEND ++ CM_REQUEST_PATH ++ PRIORITY ++ TIMEOUT_TICKS ++ le_enc 2 (blen message)
           ++ message ++ (if Z.odd (blen message) then [0] else [])
           ++ match route_path with [] => [0; 0] | _ => route_path end)        (* `route_path or b"\x00\x00"` *)
  else Err DataError.

(* ================================================================ what the response classes decide *)
Definition nthz (n : nat) (bs : bytes) : Z := nth n bs 0.

(* ResponsePacket._parse_reply: DINT.decode(raw[8:12]) fails unless the slice has 4 bytes *)
Definition base_error (raw : bytes) : bool := (length raw <? OFF_STATUS_HI)%nat.
Definition command_status (raw : bytes) : Z := to_signed 4 (le_dec (slice OFF_STATUS_LO OFF_STATUS_HI raw)).

(* SendRRData / SendUnitData _parse_reply with the class's offsets: _error is set when the base
   failed, when raw[o_svc] is missing or < 0x80 (USINT.encode(code - 128)), or raw[o_st] is missing *)
Definition cip_error (o_svc o_st : nat) (raw : bytes) : bool :=
  base_error raw || (length raw <=? o_svc)%nat || (nthz o_svc raw <? 128) || (length raw <=? o_st)%nat.

Definition in_multi (v : Z) : bool :=
  existsb (fun p => match snd p with [c] => c =? v | _ => false end) multi_packet_services.

Inductive rkind := KRR | KUnit.
Definition off_svc (k : rkind) := match k with KRR => RR_OFF_SERVICE | KUnit => UD_OFF_SERVICE end.
Definition off_st (k : rkind) := match k with KRR => RR_OFF_STATUS | KUnit => UD_OFF_STATUS end.
Definition off_data (k : rkind) := match k with KRR => RR_OFF_DATA | KUnit => UD_OFF_DATA end.
Definition off_ext (k : rkind) := match k with KRR => RR_OFF_EXT | KUnit => UD_OFF_EXT end.

Definition parse_error (k : rkind) (raw : bytes) : bool := cip_error (off_svc k) (off_st k) raw.
(* is_valid() *)
Definition valid (k : rkind) (raw : bytes) : bool :=
  negb (parse_error k raw) && (command_status raw =? SUCCESS)
  && let st := nthz (off_st k) raw in
     match k with
     | KRR => st =? SUCCESS
     | KUnit => (st =? SUCCESS) || ((st =? INSUFFICIENT_PACKETS) && in_multi (nthz (off_svc k) raw - 128))
     end.
(* .data / .value (data_type None) once the parse completed *)
Definition data_of (k : rkind) (raw : bytes) : bytes := skipn (off_data k) raw.

(* packets.util.get_extended_status(msg, start) on s = msg[start:]: the exception it raises, if any *)
Definition ext_status_raises (s : bytes) : option exn :=
  match s with
  | [] => Some BufferEmpty
  | [_] => Some BufferEmpty
  | _ :: n :: rest =>
      if 2 * n =? 2 then
        match rest with [] => Some BufferEmpty | [_] => Some DataError | _ => None end
      else if 2 * n =? 4 then
        match rest with
        | [] => Some BufferEmpty
        | [_] | [_; _] | [_; _; _] => Some DataError
        | _ => None
        end
      else None
  end.
(* the `error` property: valid -> None; _error set -> that text; else command_/service_extended_status() *)
Definition error_raises (k : rkind) (raw : bytes) : option exn :=
  if valid k raw || parse_error k raw then None else ext_status_raises (skipn (off_ext k) raw).

(* RegisterSessionResponsePacket: is_valid and .session *)
Definition register_valid (raw : bytes) : bool := negb (base_error raw) && (command_status raw =? SUCCESS).
Definition register_session_of (raw : bytes) : Z := le_dec (slice OFF_SESSION_LO OFF_SESSION_HI raw).

(* STRING.decode(data) succeeds: UINT length (2 bytes), then "" if 0 else a non-empty read *)
Definition string_decodes (data : bytes) : bool :=
  match data with
  | a :: b :: rest => (u16 a b =? 0) || negb (match rest with [] => true | _ => false end)
  | _ => false
  end.

(* ================================================================ the world: socket + target *)
Section Run.
Context {S : Type} (h : handler S).

Inductive tev :=
  | TConnect (ok : bool)
  | TDeliver (before : tstate S) (frame : bytes) (reply : option bytes)   (* the frame reached the target *)
  | TSockClose (notified : bool)
  | TVanish.

Record world := mkW {
  w_t : tstate S;              (* the reference target *)
  w_queue : list bytes;        (* replies the socket holds for the next receive() *)
  w_open : bool;               (* the socket is connected *)
  w_dead : bool;               (* the peer vanished (until the next connect) *)
  w_nconnect : nat; w_nsend : nat; w_nrecv : nat; w_nclose : nat;
  w_rands : list bytes;        (* os.urandom(4) draws still to come *)
  w_trace : list tev }.        (* NEWEST FIRST *)

Definition init_world (t : tstate S) (rands : list bytes) : world :=
  {| w_t := t; w_queue := []; w_open := false; w_dead := false;
     w_nconnect := 0; w_nsend := 0; w_nrecv := 0; w_nclose := 0; w_rands := rands; w_trace := [] |}.

Definition urandom (w : world) : bytes * world :=
  match w_rands w with
  | [] => ([0; 0; 0; 0], w)
  | r :: rest => (r, mkW (w_t w) (w_queue w) (w_open w) (w_dead w) (w_nconnect w) (w_nsend w) (w_nrecv w) (w_nclose w) rest (w_trace w))
  end.

Definition sock_connect (flt : faults) (w : world) : world * res unit :=
  let k := w_nconnect w in
  match flookup k (f_connect flt) with
  | Some fk => (mkW (w_t w) (w_queue w) (w_open w) (w_dead w) (Datatypes.S k) (w_nsend w) (w_nrecv w) (w_nclose w) (w_rands w)
                    (TConnect false :: w_trace w), Err (exn_of fk))
  | None => (mkW (w_t w) [] true false (Datatypes.S k) (w_nsend w) (w_nrecv w) (w_nclose w) (w_rands w)
                 (TConnect true :: w_trace w), Ok tt)
  end.

Definition sock_send (flt : faults) (w : world) (frame : bytes) : world * res unit :=
  let k := w_nsend w in
  let bump t q dead tr := mkW t q (w_open w) dead (w_nconnect w) (Datatypes.S k) (w_nrecv w) (w_nclose w) (w_rands w) tr in
  if negb (w_open w) || w_dead w then (bump (w_t w) (w_queue w) (w_dead w) (w_trace w), Err CommError)
  else if fmem k (f_vanish flt) then (bump (tclosed (w_t w)) [] true (TVanish :: w_trace w), Err CommError)
  else match flookup k (f_send flt) with
       | Some fk => (bump (w_t w) (w_queue w) (w_dead w) (w_trace w), Err (exn_of fk))
       | None =>
           let (t', rep) := tstep h (w_t w) frame in
           let q := match rep with
                    | Some r => if fmem k (f_drop flt) then w_queue w else w_queue w ++ [r]
                    | None => w_queue w
                    end in
           let w' := bump t' q (w_dead w) (TDeliver (w_t w) frame rep :: w_trace w) in
           match flookup k (f_send_after flt) with
           | Some fk => (w', Err (exn_of fk))
           | None => (w', Ok tt)
           end
       end.

Definition sock_recv (flt : faults) (w : world) : world * res bytes :=
  let k := w_nrecv w in
  let bump q := mkW (w_t w) q (w_open w) (w_dead w) (w_nconnect w) (w_nsend w) (Datatypes.S k) (w_nclose w) (w_rands w) (w_trace w) in
  if negb (w_open w) || w_dead w then (bump (w_queue w), Err CommError)
  else match flookup k (f_recv flt) with
       | Some fk => (bump (w_queue w), Err (exn_of fk))
       | None => match w_queue w with
                 | [] => (bump [], Err CommError)                  (* nothing arrives: socket.timeout *)
                 | r :: q => (bump q, Ok r)
                 end
       end.

Definition sock_close (flt : faults) (w : world) : world * res unit :=
  let k := w_nclose w in
  let t' := if w_open w then tclosed (w_t w) else w_t w in
  let w' := mkW t' [] false (w_dead w) (w_nconnect w) (w_nsend w) (w_nrecv w) (Datatypes.S k) (w_rands w)
                (TSockClose (w_open w) :: w_trace w) in
  match flookup k (f_close flt) with
  | Some fk => (w', Err (exn_of fk))
  | None => (w', Ok tt)
  end.

(* ================================================================ the driver *)
Definition st := (world * dstate)%type.

Definition reset_driver (d : dstate) : dstate :=
  set_opened false (set_session 0 (set_tconn false (set_sock false d))).

(* CIPDriver._abandon_transport: the socket is closed (its own failure is only logged) and never used
   again; _sock = None, _target_is_connected = False, _session = 0, _connection_opened = False *)
Definition abandon_transport (flt : faults) (s : st) : st :=
  let (w, d) := s in
  ((if d_sock d then fst (sock_close flt w) else w), reset_driver d).

(* CIPDriver._send: `self._sock.send(message)` under `except Exception` (None has no .send):
   _abandon_transport(), then CommError *)
Definition tx (flt : faults) (s : st) (frame : bytes) : st * res unit :=
  let (w, d) := s in
  if d_sock d then
    let (w', r) := sock_send flt w frame in
    match r with
    | Ok _ => ((w', d), Ok tt)
    | Err _ => (abandon_transport flt (w', d), Err CommError)
    end
  else (abandon_transport flt s, Err CommError).

(* CIPDriver._receive *)
Definition rx (flt : faults) (s : st) : st * res bytes :=
  let (w, d) := s in
  if d_sock d then
    let (w', r) := sock_recv flt w in
    match r with
    | Ok raw => ((w', d), Ok raw)
    | Err _ => (abandon_transport flt (w', d), Err CommError)
    end
  else (abandon_transport flt s, Err CommError).

(* CIPDriver.send: build_request (its errors escape as they are), _send, _receive unless no_response.
   [None] = no reply expected. *)
Definition drv_send (flt : faults) (s : st) (frame : res bytes) (no_response : bool) : st * res (option bytes) :=
  match frame with
  | Err e => (s, Err e)
  | Ok f =>
      let (s1, r) := tx flt s f in
      match r with
      | Err e => (s1, Err e)
      | Ok _ =>
          if no_response then (s1, Ok None)
          else let (s2, r2) := rx flt s1 in
               match r2 with
               | Err e => (s2, Err e)
               | Ok raw => (s2, Ok (Some raw))
               end
      end
  end.

(* one request/reply exchange classified by response class [k]: Tag truthiness (= is_valid, data_type
   None) and the value; the `error` property is evaluated (it can raise) *)
Definition classify (k : rkind) (raw : bytes) : res (bool * bytes) :=
  match error_raises k raw with
  | Some e => Err e
  | None => Ok (valid k raw, data_of k raw)
  end.

(* CIPDriver.generic_message(connected=False, unconnected_send=False): [msg] = service + request path
   + request data (+ a route path given as bytes; the connection's own route is not appended) *)
Definition generic_unconnected (flt : faults) (s : st) (msg : bytes) : st * res (bool * bytes) :=
  let (s1, r) := drv_send flt s (rr_frame (d_session (snd s)) msg) false in
  match r with
  | Err e => (s1, Err e)
  | Ok (Some raw) => (s1, classify KRR raw)
  | Ok None => (s1, Ok (false, []))
  end.

(* ---------------------------------------------------------------- Forward Open *)
Definition net_params (ext : bool) (size : Z) : res bytes :=
  if ext then
    let v := Z.lor (Z.land size LARGE_MASK) (Z.shiftl INIT_NET_PARAMS LARGE_SHIFT) in
    if in_urange 4 v then Ok (le_enc 4 v) else Err DataError
  else
    let v := Z.lor (Z.land size STD_MASK) INIT_NET_PARAMS in
    if in_urange 2 v then Ok (le_enc 2 v) else Err DataError.

Definition field_bytes (d : dstate) (np : bytes) (f : fo_field) : bytes :=
  match f with
  | FPriority => PRIORITY | FTimeoutTicks => TIMEOUT_TICKS | FTimeoutMultiplier => TIMEOUT_MULTIPLIER
  | FTransportClass => TRANSPORT_CLASS | FNetParams => np
  | FCid => d_ocid d | FCsn => CFG_CSN | FVid => CFG_VID | FVsn => d_vsn d
  end.
Definition render_msg (tmpl : list (bytes + fo_field)) (d : dstate) (np : bytes) : bytes :=
  flat_map (fun x => match x with inl b => b | inr f => field_bytes d np f end) tmpl.

Definition route_bytes (d : dstate) : bytes := concat (d_route d).

Definition fo_message (d : dstate) : res bytes :=
  let* np := net_params (d_ext d) (d_size d) in
  let* rp := epath_len (route_bytes d ++ MSG_ROUTER_PATH_BYTES) FO_ROUTE_PAD_LENGTH in
  Ok ((if d_ext d then SVC_LARGE_FORWARD_OPEN else SVC_FORWARD_OPEN) ++ CM_REQUEST_PATH
      ++ render_msg forward_open_msg d np ++ rp).

Definition fc_message (d : dstate) : res bytes :=
  let* rp := epath_len (route_bytes d ++ MSG_ROUTER_PATH_BYTES) FC_ROUTE_PAD_LENGTH in
  Ok (SVC_FORWARD_CLOSE ++ CM_REQUEST_PATH ++ render_msg forward_close_msg d [] ++ rp).

(* CIPDriver._forward_open *)
Definition drv_forward_open (flt : faults) (s : st) : st * res bool :=
  let (w, d) := s in
  if d_tconn d then (s, Ok true)
  else if d_session d =? 0 then (s, Err CommError)
  else match fo_message d with
       | Err e => (s, Err e)
       | Ok msg =>
           let (s1, r) := generic_unconnected flt s msg in
           match r with
           | Err e => (s1, Err e)
           | Ok (truthy, value) =>
               if truthy
               then ((fst s1, set_tconn true (set_cid (Some (firstn 4 value)) (snd s1))), Ok true)
               else (s1, Ok false)
           end
       end.

(* cip_driver.with_forward_open, up to the call of the wrapped function *)
Definition with_forward_open (flt : faults) (s : st) : st * res unit :=
  if d_tconn (snd s) then (s, Ok tt)
  else
    let (s1, r1) := drv_forward_open flt s in
    match r1 with
    | Err e => (s1, Err e)
    | Ok true => (s1, Ok tt)
    | Ok false =>
        if d_ext (snd s1) then
          let s2 := (fst s1, set_fo_cfg FALLBACK_EXTENDED_FO FALLBACK_CONNECTION_SIZE (snd s1)) in
          let (s3, r2) := drv_forward_open flt s2 in
          match r2 with
          | Err e => (s3, Err e)
          | Ok true => (s3, Ok tt)
          | Ok false => (s3, Err ResponseError)
          end
        else (s1, Err ResponseError)
    end.

(* one connected request on an open connection: the packet constructor draws the sequence count *)
Definition connected_request (flt : faults) (s : st) (msg : bytes) : st * res (bool * bytes) :=
  let (w, d) := s in
  let (sq, d1) := draw d in
  let (s1, r) := drv_send flt (w, d1) (ud_frame (d_session d1) (d_cid d1) sq msg) false in
  match r with
  | Err e => (s1, Err e)
  | Ok (Some raw) => (s1, classify KUnit raw)
  | Ok None => (s1, Ok (false, []))
  end.

(* CIPDriver.generic_message(connected=True): Tag truthiness *)
Definition generic_connected (flt : faults) (s : st) (msg : bytes) : st * res (bool * bytes) :=
  let (s1, r) := with_forward_open flt s in
  match r with
  | Err e => (s1, Err e)
  | Ok _ => connected_request flt s1 msg
  end.

(* one connected request whose packet was constructed earlier with sequence count [sq] *)
Definition connected_request_seq (flt : faults) (s : st) (sq : Z) (msg : bytes) : st * res (bool * bytes) :=
  let (s1, r) := drv_send flt s (ud_frame (d_session (snd s)) (d_cid (snd s)) sq msg) false in
  match r with
  | Err e => (s1, Err e)
  | Ok (Some raw) => (s1, classify KUnit raw)
  | Ok None => (s1, Ok (false, []))
  end.

(* a @with_forward_open method (read / write / get_tag_list ...) that builds its request packets
   first (each constructor draws a sequence count; not every packet built is sent: C17) and then
   sends these connected requests one after the other: the truthiness of each response; the first
   exception ends the call.  [items] = (sequence count, message) of the requests sent,
   [seq_after] = the generator's counter once the packets are built. *)
Fixpoint connected_requests (flt : faults) (s : st) (items : list (Z * bytes)) : st * res (list bool) :=
  match items with
  | [] => (s, Ok [])
  | (sq, m) :: rest =>
      let (s1, r) := connected_request_seq flt s sq m in
      match r with
      | Err e => (s1, Err e)
      | Ok (b, _) =>
          let (s2, r2) := connected_requests flt s1 rest in
          match r2 with
          | Err e => (s2, Err e)
          | Ok l => (s2, Ok (b :: l))
          end
      end
  end.
Definition connected_call (flt : faults) (s : st) (items : list (Z * bytes)) (seq_after : Z) : st * res (list bool) :=
  let (s1, r) := with_forward_open flt s in
  match r with
  | Err e => (s1, Err e)
  | Ok _ => connected_requests flt (fst s1, set_seq seq_after (snd s1)) items
  end.

(* ---------------------------------------------------------------- open *)
(* CIPDriver._register_session: Some session / None *)
Definition drv_register_session (flt : faults) (s : st) : st * res (option Z) :=
  let (w, d) := s in
  if negb (d_session d =? 0) then (s, Ok (Some (d_session d)))
  else
    let (s1, r) := drv_send flt s (register_frame (d_session d)) false in
    match r with
    | Err e => (s1, Err e)
    | Ok (Some raw) =>
        if register_valid raw
        then ((fst s1, set_session (register_session_of raw) (snd s1)), Ok (Some (register_session_of raw)))
        else (s1, Ok None)
    | Ok None => (s1, Ok None)
    end.

(* CIPDriver.open *)
Definition cip_open (flt : faults) (s : st) : st * res bool :=
  let (w, d) := s in
  if d_opened d then (s, Ok true)
  else
    let d0 := set_sock true d in                         (* if self._sock is None: self._sock = Socket(...) *)
    let (w1, rc) := sock_connect flt w in
    match rc with
    | Err _ => ((w1, d0), Err CommError)                 (* except Exception -> CommError *)
    | Ok _ =>
        let (c, w2) := urandom w1 in
        let (v, w3) := urandom w2 in
        let d1 := set_ids c v (set_opened true d0) in
        let (s2, r) := drv_register_session flt (w3, d1) in
        match r with
        | Err _ => (s2, Err CommError)
        | Ok None => (s2, Ok false)
        | Ok (Some _) => (s2, Ok true)
        end
    end.

(* LogixDriver.get_plc_info: every failure is ResponseError *)
Definition plc_info_message (d : dstate) (micro : bool) : res bytes :=
  if micro then Ok PLC_INFO_MSG                           (* direct UCMM: service + request path, nothing else *)
  else let* rp := epath_len (route_bytes d) true in      (* the route is used inside the Unconnected Send *)
       wrap_unconnected_send PLC_INFO_MSG rp.
Definition get_plc_info (flt : faults) (s : st) : st * res unit :=
  match plc_info_message (snd s) (d_micro (snd s)) with
  | Err _ => (s, Err ResponseError)
  | Ok msg =>
      let (s1, r) := drv_send flt s (rr_frame (d_session (snd s)) msg) false in
      match r with
      | Ok (Some raw) => (s1, match Identity.get_plc_info raw with Ok _ => Ok tt | Err _ => Err ResponseError end)
      | _ => (s1, Err ResponseError)
      end
  end.

(* LogixDriver.get_plc_name: the decorator's Forward Open is outside the try; then every failure is ResponseError *)
Definition get_plc_name (flt : faults) (s : st) : st * res unit :=
  let (s1, r) := with_forward_open flt s in
  match r with
  | Err e => (s1, Err e)
  | Ok _ =>
      let (s2, r2) := connected_request flt s1 PLC_NAME_MSG in
      match r2 with
      | Ok (true, data) => (s2, if string_decodes data then Ok tt else Err ResponseError)
      | _ => (s2, Err ResponseError)
      end
  end.

Definition product_name_of (raw : bytes) : list Z :=
  match Identity.list_identity raw with
  | Some d => IdentitySpec.d_product_name (IdentitySpec.l_id d)
  | None => []
  end.
Fixpoint starts_with (p s : list Z) : bool :=
  match p, s with
  | [], _ => true
  | a :: p', b :: s' => (a =? b) && starts_with p' s'
  | _, _ => false
  end.

(* LogixDriver._initialize_driver(init_tags=False, init_program_tags=False) *)
Definition initialize_driver (flt : faults) (s : st) : st * res unit :=
  let (s1, r) := drv_send flt s (list_identity_frame (d_session (snd s))) false in      (* _list_identity *)
  match r with
  | Err e => (s1, Err e)
  | Ok reply =>
      let micro := match reply with Some raw => starts_with MICRO800_PREFIX (product_name_of raw) | None => false end in
      let s2 := (fst s1, set_micro micro (snd s1)) in
      let (s3, r3) := get_plc_info flt s2 in
      match r3 with
      | Err e => (s3, Err e)
      | Ok _ =>
          let (s4, r4) := if micro then (s3, Ok tt) else get_plc_name flt s3 in
          match r4 with
          | Err e => (s4, Err e)
          | Ok _ =>
              (* Micro800: strip the last segment of the path *)
              let d4 := snd s4 in
              ((fst s4, if micro then set_route (removelast (d_route d4)) d4 else d4), Ok tt)
          end
      end
  end.

(* LogixDriver.open *)
Definition logix_open (flt : faults) (s : st) : st * res bool :=
  let (s1, r) := cip_open flt s in
  match r with
  | Err e => (s1, Err e)
  | Ok false => (s1, Ok false)
  | Ok true =>
      let (s2, r2) := initialize_driver flt s1 in
      match r2 with
      | Err e => (s2, Err e)
      | Ok _ => (s2, Ok true)
      end
  end.

Definition drv_open (logix : bool) (flt : faults) (s : st) : st * res bool :=
  if logix then logix_open flt s else cip_open flt s.

(* ---------------------------------------------------------------- close *)
(* CIPDriver._forward_close *)
Definition drv_forward_close (flt : faults) (s : st) : st * res bool :=
  let (w, d) := s in
  if d_session d =? 0 then (s, Err CommError)
  else match fc_message d with
       | Err e => (s, Err e)
       | Ok msg =>
           let (s1, r) := generic_unconnected flt s msg in
           match r with
           | Err e => (s1, Err e)
           | Ok (truthy, _) => if truthy then ((fst s1, set_tconn false (snd s1)), Ok true) else (s1, Ok false)
           end
       end.

(* CIPDriver._un_register_session: no reply is read; self._session = None is overwritten by close() *)
Definition drv_un_register_session (flt : faults) (s : st) : st * res unit :=
  let (s1, r) := drv_send flt s (unregister_frame (d_session (snd s))) true in
  match r with
  | Err e => (s1, Err e)
  | Ok _ => (s1, Ok tt)
  end.

(* CIPDriver.close *)
Definition drv_close (flt : faults) (s : st) : st * res unit :=
  (* first try block *)
  let (s1, r1) := if d_tconn (snd s) then
                    let (sa, ra) := drv_forward_close flt s in
                    (sa, match ra with Err e => Err e | Ok _ => Ok tt end)
                  else (s, Ok tt) in
  let (s2, r2) := match r1 with
                  | Err e => (s1, Err e)
                  | Ok _ => if negb (d_session (snd s1) =? 0) then drv_un_register_session flt s1 else (s1, Ok tt)
                  end in
  (* second try block *)
  let (s3, r3) := if d_sock (snd s2)
                  then let (w', rc) := sock_close flt (fst s2) in ((w', snd s2), rc)
                  else (s2, Ok tt) in
  let s4 := (fst s3, reset_driver (snd s3)) in
  match r2, r3 with
  | Ok _, Ok _ => (s4, Ok tt)
  | _, _ => (s4, Err CommError)
  end.

(* ================================================================ call histories *)
Inductive sop :=
  | Open                                  (* self.open() of the driver class of this run *)
  | Close
  | GenericConnected (msg : bytes)        (* generic_message(...): msg = service + request path + data *)
  | GenericUnconnected (msg : bytes)      (* generic_message(..., connected=False): msg = service + path + data (+ route) *)
  | ConnectedCall (items : list (Z * bytes)) (seq_after : Z).   (* a read / write like call: @with_forward_open, then these connected requests *)

Inductive op :=
  | Simple (o : sop)
  | WithBlock (body : list sop) (raises : bool).   (* with drv: <body>; raise if [raises] *)

Inductive outcome :=
  | OBool (b : bool)                      (* open() *)
  | ONone                                 (* close(), a with statement that completed *)
  | OTag (truthy : bool)
  | OTags (l : list bool)
  | OErr (e : exn)
  | OUser.                                (* the exception raised by the body of the with statement propagated *)

Definition is_err (o : outcome) : bool := match o with OErr _ | OUser => true | _ => false end.

Definition exec_sop (logix : bool) (flt : faults) (s : st) (o : sop) : st * outcome :=
  match o with
  | Open => let (s1, r) := drv_open logix flt s in (s1, match r with Ok b => OBool b | Err e => OErr e end)
  | Close => let (s1, r) := drv_close flt s in (s1, match r with Ok _ => ONone | Err e => OErr e end)
  | GenericConnected m =>
      let (s1, r) := generic_connected flt s m in (s1, match r with Ok (b, _) => OTag b | Err e => OErr e end)
  | GenericUnconnected m =>
      let (s1, r) := generic_unconnected flt s m in (s1, match r with Ok (b, _) => OTag b | Err e => OErr e end)
  | ConnectedCall items sa =>
      let (s1, r) := connected_call flt s items sa in (s1, match r with Ok l => OTags l | Err e => OErr e end)
  end.

(* what is observed after each call: its outcome and the state it leaves *)
Record obs := mkObs { o_out : outcome; o_state : st }.

(* the body of a with statement: statements run until one raises *)
Fixpoint exec_body (logix : bool) (flt : faults) (s : st) (body : list sop) : st * list obs * option exn :=
  match body with
  | [] => (s, [], None)
  | o :: rest =>
      let (s1, out) := exec_sop logix flt s o in
      match out with
      | OErr e => (s1, [mkObs out s1], Some e)
      | _ => let '(s2, l, e) := exec_body logix flt s1 rest in (s2, mkObs out s1 :: l, e)
      end
  end.

Definition exec_op (logix : bool) (flt : faults) (s : st) (o : op) : st * list obs :=
  match o with
  | Simple so => let (s1, out) := exec_sop logix flt s so in (s1, [mkObs out s1])
  | WithBlock body raises =>
      (* __enter__: self.open(); its exceptions propagate, __exit__ is not called *)
      let (s1, r) := drv_open logix flt s in
      match r with
      | Err e => (s1, [mkObs (OErr e) s1])
      | Ok _ =>
          let '(s2, l, e) := exec_body logix flt s1 body in
          (* __exit__: close(); CommError -> return False; else True when no exception is in flight.
             An exception of the body propagates in both cases; a CommError of close() never does. *)
          let (s3, _) := drv_close flt s2 in
          let final := match e with
                       | Some ex => OErr ex
                       | None => if raises then OUser else ONone
                       end in
          (s3, l ++ [mkObs final s3])
      end
  end.

Fixpoint run_ops (logix : bool) (flt : faults) (s : st) (ops : list op) : st * list obs :=
  match ops with
  | [] => (s, [])
  | o :: rest =>
      let (s1, l1) := exec_op logix flt s o in
      let (s2, l2) := run_ops logix flt s1 rest in
      (s2, l1 ++ l2)
  end.

End Run.

(* ================================================================ policies and the whole run *)
(* the target a run starts from: a configuration (Forward Open / session policies, identity, ...) and
   error injections on top of the initial state of the application handler *)
Definition start_target {S} (cfg : tcfg) (inj : list injection) (app : S) : tstate S :=
  set_inject inj (set_cfg cfg (init_tstate app)).

Definition run {S} (h : handler S) (app : S) (cfg : tcfg) (inj : list injection) (flt : faults)
  (logix : bool) (route : list bytes) (rands : list bytes) (ops : list op) : st (S := S) * list (obs (S := S)) :=
  run_ops h logix flt (init_world (start_target cfg inj app) rands, init_dstate route) ops.
