(* Model/ConnPath.v — executable model of pycomm3/cip_driver.py : parse_connection_path,
   parse_cip_route, and of the places that turn the parsed route into bytes
   (CIPDriver.__init__ -> _cfg["cip_path"]; _forward_open / _forward_close / generic_message /
   get_module_info -> PADDED_EPATH.encode).  Definitions only. *)
From Coq Require Import String.
From PV Require Import Base.Bytes Base.Proto Base.Res Base.PyStr Gen.PathTables Gen.Consts Model.Path.
Open Scope Z_scope.

(* except RequestError: raise / except Exception: raise RequestError *)
Definition wrap_request {A} (r : res A) : res A := wrap_all RequestError r.

(* int(port) on ASCII text: blanks (TAB LF VT FF CR SPACE) around, an optional sign, digits with
   single underscores between digits, at most sys.get_int_max_str_digits() = 4300 digits
   (CPython 3.12 default; the limit counts digit characters, leading zeros included).
   Kept here (not shared with Model/Path.v) so that this vertical's proofs rest on one definition. *)
Definition INT_MAX_STR_DIGITS : Z := 4300.
Definition int_ws (c : Z) : bool := ((9 <=? c) && (c <=? 13)) || (c =? 32).
Fixpoint int_lstrip (s : text) : text :=
  match s with
  | c :: r => if int_ws c then int_lstrip r else s
  | [] => []
  end.
Definition int_strip (s : text) : text := rev (int_lstrip (rev (int_lstrip s))).
Fixpoint int_digits (s : text) (acc : Z) (prev_digit : bool) : option Z :=
  match s with
  | [] => if prev_digit then Some acc else None
  | c :: r => if is_ascii_digit c then int_digits r (acc * 10 + (c - 48)) true
              else if (c =? 95) && prev_digit then int_digits r acc false
              else None
  end.
Definition int_unsigned (r : text) (neg : bool) : res Z :=
  if Z.of_nat (List.length (filter is_ascii_digit r)) <=? INT_MAX_STR_DIGITS
  then match int_digits r 0 false with
       | Some z => Ok (if neg then - z else z)
       | None => Err (Foreign ValueError)
       end
  else Err (Foreign ValueError).
Definition int_of_text (s : text) : res Z :=
  match int_strip s with
  | [] => Err (Foreign ValueError)
  | c :: r => if c =? 45 then int_unsigned r true
              else if c =? 43 then int_unsigned r false
              else int_unsigned (c :: r) false
  end.

(* PortSegment(int(port) if port.isdigit() else port, link) for port, link in pairs
   (int() of more than 4300 digits raises ValueError: the whole parse fails) *)
Definition port_of_text (p : text) : res (Z + list Z) :=
  if isdigit p then let* n := int_of_text p in Ok (inl n) else Ok (inr p).
Fixpoint pair_up (l : list text) : res (list seg) :=
  match l with
  | p :: k :: r =>
      let* pt := port_of_text p in
      let* rest := pair_up r in
      Ok (Port pt (LinkStr k) :: rest)
  | _ => Ok []
  end.

(* parse_cip_route(path : List[str], auto_slot) *)
Definition parse_cip_route_list (segments : list text) (auto_slot : bool) : res (list seg) :=
  wrap_request
    (match segments with
     | [] => Ok (if auto_slot then [Port (inr (txt "bp")) (LinkInt 0)] else [])
     | [s] => if auto_slot then Ok [Port (inr (txt "bp")) (LinkStr s)]
              else Err RequestError                         (* 1 % 2 *)
     | _ => if Nat.odd (List.length segments) then Err RequestError
            else pair_up segments
     end).

(* parse_cip_route(path : str, auto_slot): only the backslash is normalised here *)
Definition parse_cip_route (path : text) (auto_slot : bool) : res (list seg) :=
  parse_cip_route_list (split_chr 47 (replace_chr 92 47 path)) auto_slot.

Definition normalise (path : text) : text := replace_chr 44 47 (replace_chr 92 47 path).

Definition parse_host (ip : text) : res (text * option Z) :=
  if contains_chr 58 ip then
    match split_chr 58 ip with
    | [a; b] =>                                             (* ip, port = ip.split(':') *)
        match int_of_text b with
        | Ok p => if (p <=? 0) || (65535 <=? p) then Err RequestError else Ok (a, Some p)
        | Err _ => Err RequestError                         (* 'Invalid port' *)
        end
    | _ => Err (Foreign ValueError)                         (* too many values to unpack *)
    end
  else Ok (ip, None).

Definition parse_connection_path (path : list Z) (auto_slot : bool)
  : res (list Z * option Z * list seg) :=
  wrap_request
    (match split_chr 47 (normalise path) with
     | [] => Err (Foreign ValueError)
     | ip :: route =>
         let* (host, port) := parse_host ip in
         let* segs := parse_cip_route_list route auto_slot in
         Ok (host, port, segs)
     end).

(* the bytes a route becomes: PADDED_EPATH.encode(route, length=True, pad_length=...) *)
Definition encode_route (segs : list seg) (pad_length : bool) : res (list Z) :=
  epath_encode padded_PADDED_EPATH segs true pad_length.

Definition route_bytes (path : list Z) (auto_slot pad_length : bool) : res (list Z) :=
  let* (_, segs) := parse_connection_path path auto_slot in
  encode_route segs pad_length.

(* what a caller observes from a path string: the exception, or host, TCP port and route bytes *)
Definition outcome (path : list Z) (auto_slot pad_length : bool) : exn + (list Z * option Z * list Z) :=
  match parse_connection_path path auto_slot with
  | Err e => inl e
  | Ok (h, t, segs) =>
      match encode_route segs pad_length with
      | Err e => inl e
      | Ok b => inr (h, t, b)
      end
  end.

(* CIPDriver.__init__ (and LogixDriver / SLCDriver through super().__init__): the class attribute
   _auto_slot_cip_path selects the shortcuts; _cfg["ip address"], _cfg["port"] = port or 44818,
   _cfg["cip_path"] *)
Inductive driver := CIPDriver | LogixDriver | SLCDriver.
Definition auto_slot_of (d : driver) : bool :=
  match d with
  | CIPDriver => auto_slot_CIPDriver
  | LogixDriver => auto_slot_LogixDriver
  | SLCDriver => auto_slot_SLCDriver
  end.
Record cfg := mkCfg { cfg_ip : list Z; cfg_port : Z; cfg_cip_path : list seg }.
Definition driver_init (d : driver) (path : list Z) : res cfg :=
  let* (hp, segs) := parse_connection_path path (auto_slot_of d) in
  let '(h, p) := hp in
  Ok (mkCfg h (match p with Some z => if z =? 0 then 44818 else z | None => 44818 end) segs).

(* generic_message(route_path=<str>) *)
Definition route_bytes_of_route_string (route : list Z) : res (list Z) :=
  let* segs := parse_cip_route route false in
  encode_route segs true.

(* _forward_open: PADDED_EPATH.encode(cip_path + MSG_ROUTER_PATH, length=True) *)
Definition msg_router_path : list seg :=        (* const.MSG_ROUTER_PATH, regenerated *)
  map (fun '(t, v) => Logical t (match v with inl z => LInt z | inr b => LBytes b end)) MSG_ROUTER_PATH.
Definition forward_open_path (segs : list seg) (pad_length : bool) : res (list Z) :=
  epath_encode padded_PADDED_EPATH (segs ++ msg_router_path) true pad_length.

(* get_module_info(slot): the route without its last segment, then PortSegment("bp", slot) *)
Definition module_info_path (segs : list seg) (slot : Z) : res (list Z) :=
  epath_encode padded_PADDED_EPATH (removelast segs ++ [Port (inr (txt "bp")) (LinkInt slot)]) true true.
