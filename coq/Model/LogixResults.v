(* Model/LogixResults.v — result assembly of LogixDriver.read / LogixDriver.write (C03):
     logix_driver.py : read, write, _read_build_* / _write_build_* as far as they record an error for a
                       request whose packet cannot be built (the grouping itself is Model/LogixPlan.v),
                       _send_requests (1345-1380), encode_value (the BOOL-array alignment rule)
     packets/logix.py: ReadModifyWriteRequestPacket.__init__ / set_bit (what they reject)
     tag.py          : Tag, Tag.__bool__
   composed with Model/LogixParse.v (requests -> parsed, ids by position), Model/LogixPlan.v (parsed ->
   packets) and Model/Path.v (tag_request_path: what building a request's message can raise).

   What is abstract, and why:
   * the PEER: what `self.send(request)` returns, already parsed into (valid?, value, type, error) by
     the response classes (Model/Reply.v, property C13).  [peer] is keyed by REQUEST ID: [p_one i] is the
     response to the packet of request i sent on its own (Read/Write Tag, fragmented transfer — the
     reassembled response — or the read-modify-write with request id i < 0), [p_multi ids] the service
     replies of one multi-service packet, in order, of ANY length (zip() pairs them with the requests;
     the requests beyond the last service reply are failed with [p_multi_error ids] = the packet's error).
     Shape, names, no-exception theorems hold for every peer; isolation is stated for peers whose
     reply to a service depends on that service request only (Proofs/ResultsP.v).
     `_send_requests` catches RequestError/ResponseError from `send`; CIPDriver.send raises neither
     (only CommError, which is outside C03), so that branch is not modelled.
   * the type-directed encoder of a written value ([enc_body]: `_type.encode(...)` and the element-count
     checks of encode_value): Some (length of the encoding) or None (it raises; encode_value turns
     that into RequestError).  Property C02 owns it.  The BOOL-array alignment rule IS modelled.
   * a user value is an opaque handle plus the three observations this code makes of it.
   Definitions only. *)
From Coq Require Import String.
From PV Require Import Base.Bytes Base.Proto Base.Res Base.PyStr Gen.LogixParseGen Gen.Consts.
From PV Require Import Model.LogixParse Model.LogixPlan Model.Path.
Open Scope Z_scope.

(* ------------------------------------------------------------------ values and Tags *)
Record uval := mkUval {
  uv_id : Z;                   (* identity of the Python object the caller passed *)
  uv_none : bool;              (* `value is None` *)
  uv_truthy : bool;            (* `if value:` (set_bit) *)
  uv_bytes : option Z          (* isinstance(value, bytes): its length *)
}.

Inductive val :=
  | VNone
  | VInt (z : Z)
  | VBool (b : bool)
  | VList (l : list val)
  | VOther (k : Z)             (* float / str / dict / bytes: `&` and subscripting with an int raise TypeError
                                  (str subscripting does not; a DWORD tag never decodes to a str) *)
  | VUser (u : uval).          (* the value handed to write(), returned as is *)

Record tag := mkTag { t_tag : request; t_value : val; t_type : option text; t_error : option text }.

Definition val_is_none (v : val) : bool :=
  match v with VNone => true | VUser u => uv_none u | _ => false end.
(* Tag.__bool__: self.value is not None and self.error is None *)
Definition truthy (t : tag) : bool :=
  negb (val_is_none (t_value t)) && match t_error t with None => true | Some _ => false end.

Inductive result := ROne (t : tag) | RList (l : list tag).
(* `if len(tags) == 1: return results[0] else: return results` *)
Definition shape (l : list tag) : result :=
  match l with [t] => ROne t | _ => RList l end.

Definition pyexn_name (k : pyexn) : text :=
  zs_of_string (match k with
                | TypeError => "TypeError" | ValueError => "ValueError" | KeyError => "KeyError"
                | IndexError => "IndexError" | StructError => "error" | OverflowError => "OverflowError"
                | AttributeError => "AttributeError" | StopIteration => "StopIteration"
                | UnicodeError => "UnicodeEncodeError" | ZeroDivisionError => "ZeroDivisionError"
                | NotImplementedError => "NotImplementedError" end)%string.

(* `except Exception as err: results.append(Tag(tag, None, None, f"Invalid tag request - {err!r}"))`
   (the text is the prefix up to the class name of err) *)
Definition exc_tag (r : request) (k : pyexn) : tag :=
  mkTag r VNone None (Some (err_invalid_request ++ pyexn_name k)).

Definition exn_name (e : exn) : text :=
  match e with
  | DataError => zs_of_string "DataError" | BufferEmpty => zs_of_string "BufferEmptyError"
  | CommError => zs_of_string "CommError" | RequestError => zs_of_string "RequestError"
  | ResponseError => zs_of_string "ResponseError" | Foreign k => pyexn_name k
  end.
(* tag_data["error"] = f"Failed to build request - {err!r}" (the prefix up to the class name), reported by
   read()/write() as Tag(tag, None, None, error) *)
Definition build_err_tag (r : request) (prefix : text) (e : exn) : tag :=
  mkTag r VNone None (Some (prefix ++ exn_name e)).

(* ------------------------------------------------------------------ configuration and peer *)
Record cfg := mkCfg { c_conn : Z; c_micro800 : bool; c_use_inst : bool }.

Record reply := mkReply {
  rp_ok : bool;                (* bool(response) = is_valid() *)
  rp_value : val;              (* response.value   (reads) *)
  rp_type : option text;       (* response.data_type (reads) *)
  rp_error : text              (* response.error when not valid (never None then) *)
}.
Record peer := mkPeer {
  p_one : Z -> reply;                       (* the response to the packet of request i sent on its own *)
  p_multi : list Z -> list reply;           (* response.responses of a multi-service packet: ANY number *)
  p_multi_error : list Z -> option text     (* response.error of that multi-service packet *)
}.

(* results of _send_requests: a dict request id -> Tag; newest binding first (dict assignment overwrites) *)
Definition results := list (Z * tag).
Fixpoint rlookup (i : Z) (rs : results) : option tag :=
  match rs with
  | [] => None
  | (k, t) :: r => if k =? i then Some t else rlookup i r
  end.
Definition rremove (i : Z) (rs : results) : results := filter (fun kv => negb (fst kv =? i)) rs.

Fixpoint find_q (qs : list preq) (i : Z) : option preq :=
  match qs with
  | [] => None
  | q :: r => if q_id q =? i then Some q else find_q r i
  end.

(* ------------------------------------------------------------------ what building a request can raise *)
(* request.build_message() -> _setup_message: tag_request_path(tag, tag_info, use_instance_ids)
   [int(idx) of every index text -> ValueError; segment encoding -> DataError], then tag_only_message() *)
Definition tag_path (c : cfg) (plc : text) (ti : taginfo) : res bytes :=
  let* o := tag_request_path plc (ti_inst ti) (c_use_inst c) in
  match o with
  | Some b => Ok b
  | None => Err (Foreign TypeError)               (* b"".join((service, None, ...)): not reached *)
  end.

(* len(request.message) of a ReadTagRequestPacket: sequence 2 + service 1 + path + UINT.encode(elements) 2 *)
Definition read_msg_len (c : cfg) (p : parsed) : res Z :=
  let* pb := tag_path c (plc_tag p) (tag_info p) in
  let* _ := UINT_encode (elements p) in
  Ok (5 + len pb).

(* _tag_return_size: DataTypes[data_type].size / template structure_size, times elements *)
Definition tag_return_size (p : parsed) : Z := ti_size (tag_info p) * elements p.

(* a request whose packet cannot be built (ReadTagRequestPacket(...) / build_message() raise: an index that
   is not a number or not a UDINT, an element count that is not a UINT) gets
   tag_data["error"] = "Failed to build request - ..." and is skipped like a request that failed to parse *)
Definition mk_rreq (c : cfg) (q : preq) : rreq :=
  match q_parsed q with
  | inr _ => {| r_id := q_id q; r_err := true; r_data := 0; r_msg := 0 |}
  | inl p => match read_msg_len c p with
             | Ok m => {| r_id := q_id q; r_err := false; r_data := tag_return_size p; r_msg := m |}
             | Err _ => {| r_id := q_id q; r_err := true; r_data := 0; r_msg := 0 |}
             end
  end.

(* _read_build_requests *)
Definition read_build (c : cfg) (qs : list preq) : list packet :=
  read_build_requests (c_conn c) (c_micro800 c) (map (mk_rreq c) qs).

(* ------------------------------------------------------------------ _send_requests (reads) *)
(* non-multi: Tag(request.tag, response.value, response.data_type, response.error) if response
              else Tag(request.tag, None, None, response.error)
   multi:     Tag(resp.tag, resp.value, resp.data_type, None) if resp
              else Tag(req.tag, None, None, req.error or resp.error)            (request.tag = plc_tag) *)
Definition tag_of_reply (name : text) (r : reply) : tag :=
  if rp_ok r then mkTag (ReqText name) (rp_value r) (rp_type r) None
  else mkTag (ReqText name) VNone None (Some (rp_error r)).

Definition plc_of (qs : list preq) (i : Z) : option text :=
  match find_q qs i with
  | Some q => match q_parsed q with inl p => Some (plc_tag p) | inr _ => None end
  | None => None
  end.

Definition set_one (name : option text) (i : Z) (r : reply) (rs : results) : results :=
  match name with Some n => (i, tag_of_reply n r) :: rs | None => rs end.

(* for resp in response.responses (= zip(reply_data, request.requests)): ...
   for req in request.requests[len(response.responses):]:
       results[req.request_id] = Tag(req.tag, None, None, req.error or response.error or "No reply received for request") *)
Definition missing_reply (err : option text) : reply :=
  mkReply false VNone None (match err with Some (c :: r) => c :: r | _ => err_no_reply end).
Fixpoint pad_replies (ids : list Z) (reps : list reply) (m : reply) : list reply :=
  match ids, reps with
  | _ :: ids', r :: reps' => r :: pad_replies ids' reps' m
  | _ :: ids', [] => m :: pad_replies ids' [] m
  | [], _ => []
  end.
Fixpoint set_multi (names : Z -> option text) (ids : list Z) (reps : list reply) (rs : results) : results :=
  match ids, reps with
  | i :: ids', r :: reps' => set_multi names ids' reps' (set_one (names i) i r rs)
  | _, _ => rs
  end.

(* the tag carried by a read-modify-write request = the plc tag of the request that created it (the
   name never reaches the caller: write() only reads the error of this result) *)
Definition rmw_tag (names : Z -> option text) (ids : list Z) : text :=
  match ids with
  | i :: _ => match names i with Some n => n | None => [] end
  | [] => []
  end.

Definition send_packet (names : Z -> option text) (P : peer) (rs : results) (pk : packet) : results :=
  match pk with
  | PSingle i => set_one (names i) i (p_one P i) rs
  | PFrag i => set_one (names i) i (p_one P i) rs
  | PMulti ids => set_multi names ids (pad_replies ids (p_multi P ids) (missing_reply (p_multi_error P ids))) rs
  | PRmw rid ids => (rid, tag_of_reply (rmw_tag names ids) (p_one P rid)) :: rs
  end.

Definition send_requests (names : Z -> option text) (P : peer) (ps : list packet) : results :=
  fold_left (send_packet names P) ps [].

(* ------------------------------------------------------------------ read: assembling the results *)
(* bool(result.value & 1 << bit) *)
Definition value_bit (v : val) (b : Z) : res bool :=
  if b <? 0 then Err (Foreign ValueError)          (* negative shift count *)
  else match v with
       | VInt z => Ok (Z.testbit z b)
       | VBool x => Ok (x && (b =? 0))
       | _ => Err (Foreign TypeError)
       end.

(* Python list slicing l[a:b] (step 1) and indexing l[i] *)
Definition clamp_index (n i : Z) : Z :=
  if i <? 0 then Z.max (n + i) 0 else Z.min i n.
Definition py_slice (v : val) (a b : Z) : res (list val) :=
  match v with
  | VList l =>
      let n := Z.of_nat (length l) in
      let s := clamp_index n a in
      let e := clamp_index n b in
      Ok (firstn (Z.to_nat (e - s)) (skipn (Z.to_nat s) l))
  | _ => Err (Foreign TypeError)
  end.
Definition py_index (v : val) (i : Z) : res val :=
  match v with
  | VList l =>
      let n := Z.of_nat (length l) in
      let j := if i <? 0 then n + i else i in
      if (0 <=? j) && (j <? n) then
        match nth_error l (Z.to_nat j) with Some x => Ok x | None => Err (Foreign IndexError) end
      else Err (Foreign IndexError)
  | _ => Err (Foreign TypeError)
  end.

Definition bool_array_type (n : Z) : text := s_BOOL ++ c_lbrack :: py_str_int n ++ [c_rbrack].   (* f"BOOL[{n}]" *)

Definition assemble_read_ok (req : request) (p : parsed) (r : tag) : tag :=
  if truthy r then
    if negb (is_dword_name (tag_info p)) then
      match bit p with
      | Some b => match value_bit (t_value r) b with
                  | Ok x => mkTag (ReqText (user_tag p)) (VBool x) (Some s_BOOL) (t_error r)
                  | Err (Foreign k) => exc_tag req k
                  | Err _ => exc_tag req TypeError
                  end
      | None => r
      end
    else
      let b := match bit p with Some b => b | None => 0 end in          (* bit = bit or 0 *)
      match bool_elements p with
      | Some n => match py_slice (t_value r) b (b + n) with
                  | Ok l => mkTag (ReqText (user_tag p)) (VList l) (Some (bool_array_type n)) (t_error r)
                  | Err (Foreign k) => exc_tag req k
                  | Err _ => exc_tag req TypeError
                  end
      | None => match py_index (t_value r) b with
                | Ok x => mkTag (ReqText (user_tag p)) x (Some s_BOOL) (t_error r)
                | Err (Foreign k) => exc_tag req k
                | Err _ => exc_tag req TypeError
                end
      end
  else mkTag (ReqText (user_tag p)) VNone None (t_error r).

(* one iteration of `for i, tag in enumerate(tags)` of read() *)
Definition assemble_read (c : cfg) (rs : results) (q : preq) : tag :=
  match q_parsed q with
  | inr e => mkTag (q_request q) VNone None (Some (perr_text e))
  | inl p =>
      match read_msg_len c p with
      | Err e => build_err_tag (q_request q) err_build e            (* request_data.get("error") set while building *)
      | Ok _ => match rlookup (q_id q) rs with
                | None => exc_tag (q_request q) KeyError            (* read_results[i] *)
                | Some r => assemble_read_ok (q_request q) p r
                end
      end
  end.

Definition run_read (c : cfg) (db : tagdb) (P : peer) (reqs : list request) : res result :=
  let qs := parse_requested_tags db RwRead reqs in
  let plan := read_build c qs in
  let rs := send_requests (plc_of qs) P plan in
  Ok (shape (map (assemble_read c rs) qs)).

(* ------------------------------------------------------------------ write: building *)
Definition or0 (o : option Z) : Z := match o with Some z => z | None => 0 end.

Definition set_elements (p : parsed) (n : Z) : parsed :=
  mkParsed (user_tag p) (plc_tag p) (bit p) n (tag_info p) (bool_elements p).

(* a bit write: `bit is not None and tag_data["bool_elements"] is None` *)
Definition is_bit_write (p : parsed) : bool :=
  match bit p, bool_elements p with Some _, None => true | _, _ => false end.

Section Write.
  (* the type-directed part of encode_value on (parsed with its final element count, user value) *)
  Variable enc_body : parsed -> uval -> option Z.

  (* encode_value: bytes pass through; BOOL arrays (data_type_name "DWORD") must start on a DWORD
     boundary and have `elements` reduced by bit // 32; -> (len(write_value), parsed as mutated) *)
  Definition encode_value (p : parsed) (v : uval) : option (Z * parsed) :=
    match uv_bytes v with
    | Some n => Some (n, p)
    | None =>
        if is_dword_name (tag_info p) then
          if negb (or0 (bit p) mod dword_bits =? 0) then None
          else let p' := set_elements p (elements p - or0 (bit p) / dword_bits) in
               match enc_body p' v with Some n => Some (n, p') | None => None end
        else match enc_body p v with Some n => Some (n, p) | None => None end
    end.

  (* len(request.message) of a WriteTagRequestPacket: 2 + 1 + path + type (struct: A0 02 + handle = 4,
     atomic: 2) + UINT(elements) 2 + value *)
  Definition write_msg_len (c : cfg) (p : parsed) (vlen : Z) : res Z :=
    let* pb := tag_path c (plc_tag p) (tag_info p) in
    let* _ := UINT_encode (elements p) in
    Ok (5 + len pb + (if ti_struct (tag_info p) then 4 else 2) + vlen).

  (* ReadModifyWriteRequestPacket(...) then set_bit(bit, value, id): the request path; the mask size
     getattr(DataTypes.get(data_type_name), "size", None) must be a non-zero size; the bit (mod 32 for
     BOOL arrays) must lie inside the mask — otherwise RequestError *)
  Definition rmw_mask_size (ti : taginfo) : option Z := assoc_text (lower (ti_name ti)) datatypes_sizes.
  Definition rmw_build (c : cfg) (p : parsed) : res unit :=
    let* _ := tag_path c (plc_tag p) (tag_info p) in
    match rmw_mask_size (tag_info p) with
    | None => Err RequestError
    | Some z =>
        if z =? 0 then Err RequestError
        else let b := if is_dword_name (tag_info p) then or0 (bit p) mod dword_bits else or0 (bit p) in
             if (0 <=? b) && (b <? z * 8) then Ok tt else Err RequestError
    end.

  (* the state of one request after _write_build_*  *)
  Inductive wstate :=
    | WParseErr                       (* parsing failed: skipped *)
    | WEncErr                         (* encode_value raised: tag_data["error"] set, skipped *)
    | WBuildErr (e : exn)             (* the packet could not be built: tag_data["error"] set, skipped *)
    | WBit                            (* merged into a read-modify-write *)
    | WVal (p' : parsed).             (* a Write Tag request; p' = parsed after encode_value *)

  (* In both planners a request that raises while its packet is built is recorded as failed and skipped:
       multi : try/except Exception around the RMW construction + set_bit, and around WriteTagRequestPacket(...) + build_message()
       single: one `except Exception` around everything (encode_value included) *)
  Definition mk_wreq (c : cfg) (qv : preq * uval) : wreq * wstate :=
    let (q, v) := qv in
    let skip st := ({| w_id := q_id q; w_err := true; w_bit := false; w_tag := []; w_enc_err := false; w_msg := 0; w_val := 0 |}, st) in
    match q_parsed q with
    | inr _ => skip WParseErr
    | inl p =>
        if is_bit_write p then
          match rmw_build c p with
          | Ok _ => ({| w_id := q_id q; w_err := false; w_bit := true; w_tag := plc_tag p; w_enc_err := false; w_msg := 0; w_val := 0 |}, WBit)
          | Err e => skip (WBuildErr e)
          end
        else
          match encode_value p v with
          | None => ({| w_id := q_id q; w_err := false; w_bit := false; w_tag := plc_tag p; w_enc_err := true; w_msg := 0; w_val := 0 |}, WEncErr)
          | Some (vlen, p') =>
              match write_msg_len c p' vlen with
              | Ok m => ({| w_id := q_id q; w_err := false; w_bit := false; w_tag := plc_tag p; w_enc_err := false; w_msg := m; w_val := vlen |}, WVal p')
              | Err e => skip (WBuildErr e)
              end
          end
    end.

  (* _write_build_requests *)
  Definition write_build (c : cfg) (qvs : list (preq * uval)) : list packet * list wstate :=
    let ws := map (mk_wreq c) qvs in
    (write_build_requests (c_conn c) (c_micro800 c) (map fst ws), map snd ws).

  (* write(): `for r in requests: if isinstance(r, ReadModifyWriteRequestPacket):
                 result = write_results.pop(r.request_id); for req_id in r._request_ids: write_results[req_id] = result` *)
  Definition fan_out_one (acc : res results) (pk : packet) : res results :=
    let* rs := acc in
    match pk with
    | PRmw rid ids =>
        match rlookup rid rs with
        | Some t => Ok (map (fun i => (i, t)) ids ++ rremove rid rs)
        | None => Err (Foreign KeyError)     (* pop() of an id that is not there: not reached, every RMW
                                                packet has its own negative request id *)
        end
    | _ => Ok rs
    end.
  Definition fan_out (ps : list packet) (rs : results) : res results := fold_left fan_out_one ps (Ok rs).

  (* the data type string of a write result *)
  Definition write_type (p : parsed) : text :=
    match bit p, bool_elements p with
    | Some _, None => s_BOOL
    | _, _ =>
        match bool_elements p with
        | Some n => if negb (n =? 0) then bool_array_type n                       (* elif bool_elements: *)
                    else if elements p >? 1 then ti_name (tag_info p) ++ c_lbrack :: py_str_int (elements p) ++ [c_rbrack]
                    else ti_name (tag_info p)
        | None => if elements p >? 1 then ti_name (tag_info p) ++ c_lbrack :: py_str_int (elements p) ++ [c_rbrack]
                  else ti_name (tag_info p)
        end
    end.

  (* "Error encoding value - RequestError('Unable to create a writable value')" (multi planner) /
     "Invalid Tag Request - RequestError('Unable to create a writable value')" (single planner): prefix *)
  Definition enc_err_text (multi : bool) : text := if multi then err_encoding_multi else err_encoding_single.
  Definition uses_multi (c : cfg) (n : nat) : bool := negb (n =? 1)%nat && negb (c_micro800 c).

  Definition assemble_write (multi : bool) (rs : results) (qvs : preq * uval * wstate) : tag :=
    let '(q, v, st) := qvs in
    match q_parsed q with
    | inr e => mkTag (q_request q) VNone None (Some (perr_text e))
    | inl p =>
        match st with
        | WParseErr => exc_tag (q_request q) KeyError                       (* not reached *)
        | WEncErr => mkTag (q_request q) VNone None (Some (enc_err_text multi))
        | WBuildErr e => build_err_tag (q_request q) (if multi then err_build else err_encoding_single) e
        | WBit => match rlookup (q_id q) rs with
                  | None => exc_tag (q_request q) KeyError
                  | Some r => mkTag (ReqText (user_tag p)) (VUser v) (Some (write_type p)) (t_error r)
                  end
        | WVal p' => match rlookup (q_id q) rs with
                     | None => exc_tag (q_request q) KeyError
                     | Some r => mkTag (ReqText (user_tag p')) (VUser v) (Some (write_type p')) (t_error r)
                     end
        end
    end.

  (* write(tags_values...).  (`write("tag", value)` is first rewritten to `write(("tag", value))`.) *)
  Definition run_write (c : cfg) (db : tagdb) (P : peer) (tvs : list (request * uval)) : res result :=
    let qs := parse_requested_tags db RwWrite (map fst tvs) in
    let qvs := combine qs (map snd tvs) in
    let (plan, sts) := write_build c qvs in
    let* rs := fan_out plan (send_requests (plc_of qs) P plan) in
    Ok (shape (map (assemble_write (uses_multi c (length tvs)) rs) (combine qvs sts))).
End Write.
