(* Model/CodecFloat.v — REAL / LREAL: Python floats are represented by their IEEE-754 binary64 bit
   pattern (a [Z] in [0, 2^64)).  Everything here is integer arithmetic on bit patterns, so the
   codec model stays executable and axiom-free; the agreement of [round32]/[widen32] with Flocq's
   [binary_normalize] is proved in Proofs/CodecWireFloat.v (C07) and restated for C06 in
   Proofs/CodecRTFloat.v (the only places where Flocq, hence the stdlib real-number axioms, is
   imported); [z_to_b64] (float(int)) is tied by the correspondence only.

   Modelled primitives:
     struct.pack("<f", x)   = double -> single, round to nearest even; a finite double that rounds
                              to an infinity raises OverflowError            ([round32])
     struct.unpack("<f", b) = single -> double, exact                        ([widen32])
     float(int)             = round to nearest even, OverflowError beyond the double range ([z_to_b64])
   NaNs: every NaN is identified with the canonical quiet NaN (DESIGN.md section 2.2); the harness
   canonicalises the implementation's NaNs the same way and only sends the canonical one. *)
From PV Require Import Base.Bytes.
Open Scope Z_scope.

Definition nan64 : Z := 0x7ff8000000000000.
Definition nan32 : Z := 0x7fc00000.
Definition inf64 : Z := 0x7ff0000000000000.
Definition inf32 : Z := 0x7f800000.

Definition b64_ok (b : Z) : bool := (0 <=? b) && (b <? 2 ^ 64).

Definition sign64 (b : Z) : Z := b / 2 ^ 63.
Definition exp64 (b : Z) : Z := (b / 2 ^ 52) mod 2 ^ 11.
Definition man64 (b : Z) : Z := b mod 2 ^ 52.
Definition is_nan64 (b : Z) : bool := (exp64 b =? 2047) && negb (man64 b =? 0).
Definition is_inf64 (b : Z) : bool := (exp64 b =? 2047) && (man64 b =? 0).
Definition is_zero64 (b : Z) : bool := (exp64 b =? 0) && (man64 b =? 0).

(* number of binary digits of a non-negative integer *)
Definition nbits (m : Z) : Z := if m <=? 0 then 0 else Z.log2 m + 1.

(* round-to-nearest-even of m / 2^sh for sh >= 0 *)
Definition rne_shift (m sh : Z) : Z :=
  if sh <=? 0 then m else
  let q := m / 2 ^ sh in
  let r := m mod 2 ^ sh in
  let h := 2 ^ (sh - 1) in
  if r <? h then q else if h <? r then q + 1 else if Z.even q then q else q + 1.

(* double -> single.  None = OverflowError ("float too large to pack with f format") *)
Definition round32 (b : Z) : option Z :=
  let s := sign64 b in
  if is_nan64 b then Some nan32
  else if is_inf64 b then Some (s * 2 ^ 31 + inf32)
  else
    let e := exp64 b in
    let M := if e =? 0 then man64 b else man64 b + 2 ^ 52 in     (* integer significand *)
    let E := (if e =? 0 then 1 else e) - 1075 in                  (* value = M * 2^E *)
    if M =? 0 then Some (s * 2 ^ 31)
    else
      let E' := Z.max (E + nbits M - 24) (-149) in               (* exponent of the single's last place *)
      let q := rne_shift M (E' - E) in
      (* q <= 2^24; renormalise when the rounding carried *)
      let '(q, E') := if q =? 2 ^ 24 then (2 ^ 23, E' + 1) else (q, E') in
      if q <? 2 ^ 23 then Some (s * 2 ^ 31 + q)                   (* subnormal single or zero *)
      else
        let be := E' + 150 in
        if 255 <=? be then None
        else Some (s * 2 ^ 31 + be * 2 ^ 23 + (q - 2 ^ 23)).

(* single -> double, exact *)
Definition widen32 (b : Z) : Z :=
  let s := b / 2 ^ 31 in
  let be := (b / 2 ^ 23) mod 2 ^ 8 in
  let f := b mod 2 ^ 23 in
  if be =? 255 then (if f =? 0 then s * 2 ^ 63 + inf64 else nan64)
  else if be =? 0 then
    (if f =? 0 then s * 2 ^ 63
     else let n := nbits f in                                      (* subnormal single: f * 2^-149 *)
          s * 2 ^ 63 + (n + 873) * 2 ^ 52 + (f * 2 ^ (53 - n) - 2 ^ 52))
  else s * 2 ^ 63 + (be + 896) * 2 ^ 52 + f * 2 ^ 29.

(* float(int).  None = OverflowError *)
Definition z_to_b64 (z : Z) : option Z :=
  let s := if z <? 0 then 1 else 0 in
  let a := Z.abs z in
  if a =? 0 then Some 0
  else
    let n := nbits a in
    let sh := Z.max (n - 53) 0 in
    let q := rne_shift a sh in
    let '(q, sh) := if q =? 2 ^ 53 then (2 ^ 52, sh + 1) else (q, sh) in
    (* a ~ q * 2^sh with q < 2^53; normalise q to 53 bits *)
    let nq := nbits q in
    let M := q * 2 ^ (53 - nq) in
    let E := sh - (53 - nq) in
    let e := E + 1075 in
    if 2047 <=? e then None
    else Some (s * 2 ^ 63 + e * 2 ^ 52 + (M - 2 ^ 52)).

(* canonical form used when values are compared: all NaNs identified *)
Definition canon64 (b : Z) : Z := if is_nan64 b then nan64 else b.

(* truthiness of a float: 0.0 and -0.0 are falsy *)
Definition float_truthy (b : Z) : bool := negb (is_zero64 b).
