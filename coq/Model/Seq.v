(* Model/Seq.v — the connected-message sequence counter (pycomm3.util.cycle as translated into
   Gen/SeqGen.v) and the allocation trace of counts: every packet constructor that takes the
   driver's generator draws one count; only some of the packets built are sent.
   Definitions only. *)
From PV Require Import Base.Bytes.
From PV Require Import Gen.SeqGen.
Open Scope Z_scope.

(* the generator object: its counter variable *)
Definition seq_init : Z := cycle_init SEQ_STOP SEQ_START.
Definition draw (v : Z) : Z * Z := cycle_step SEQ_STOP SEQ_START v.

(* what a history of API calls does with the generator, in program order *)
Inductive sev :=
  | Draw        (* a count is taken (packet constructed / SLC transaction id) but that count is not
                   the sequence count of a message sent now *)
  | DrawSend.   (* a count is taken and is the sequence count of the next connected message sent *)

(* sequence counts of the connected messages sent along a history, in order *)
Fixpoint sent_counts (h : list sev) (v : Z) : list Z :=
  match h with
  | [] => []
  | Draw :: r => sent_counts r (snd (draw v))
  | DrawSend :: r => fst (draw v) :: sent_counts r (snd (draw v))
  end.

(* some message repeats the count of the message sent immediately before it
   ([prev] = count of the last message sent so far, if any) *)
Fixpoint has_repeat_from (prev : option Z) (l : list Z) : bool :=
  match l with
  | [] => false
  | a :: r => (match prev with Some p => a =? p | None => false end) || has_repeat_from (Some a) r
  end.
Definition has_repeat (l : list Z) : bool := has_repeat_from None l.

(* gaps: number of plain Draws between consecutive DrawSends *)
Fixpoint gaps_aux (h : list sev) (started : bool) (cur : Z) : list Z :=
  match h with
  | [] => []
  | Draw :: r => gaps_aux r started (cur + 1)
  | DrawSend :: r => if started then cur :: gaps_aux r true 0 else gaps_aux r true 0
  end.
Definition gaps (h : list sev) : list Z := gaps_aux h false 0.

Definition PERIOD : Z := SEQ_STOP - SEQ_START + 1.
(* the guard: no two consecutive sends are separated by a multiple of PERIOD draws *)
Definition gap_ok (g : Z) : bool := negb ((g + 1) mod PERIOD =? 0).
Definition C17_guard (h : list sev) : bool := negb (forallb gap_ok (gaps h)).

(* the k-th value the generator yields, counting from 0 *)
Fixpoint nth_yield (k : nat) (v : Z) : Z :=
  match k with O => fst (draw v) | S k' => nth_yield k' (snd (draw v)) end.

(* General form, for packets that are sent in another order than they were constructed (a read
   plan constructs its fragmented packets before its multi-service packets and sends them after):
   a history is the list of DRAW INDICES (0 = first count ever drawn from the generator) of the
   messages sent, in sending order. *)
Definition counts_of (idx : list nat) : list Z := map (fun i => nth_yield i seq_init) idx.
Fixpoint idx_repeat_from (prev : option nat) (idx : list nat) : bool :=
  match idx with
  | [] => false
  | i :: r => (match prev with Some p => (Z.of_nat i - Z.of_nat p) mod PERIOD =? 0 | None => false end) || idx_repeat_from (Some i) r
  end.
Definition idx_guard (idx : list nat) : bool := idx_repeat_from None idx.
