(* Model/EnumMapDefs.v — data shapes for EnumMap tables (shared with the generated Gen/Tables.v). *)
From PV Require Import Base.Bytes.
Open Scope Z_scope.

(* Python dict keys / member values as they occur in pycomm3's EnumMap classes.
   [KObj id] is an object compared by identity (a class, a NamedTuple holding DataType instances). *)
Inductive key :=
  | KStr (s : list Z)
  | KBytes (b : list Z)
  | KInt (z : Z)
  | KObj (id : list Z).

Inductive vk_kind := VKDefault | VKTypeCode.

Record table := {
  t_members : list (list Z * key);   (* declared members, declaration order: (name, value) *)
  t_bidir : bool;                     (* _bidirectional_ (default True) *)
  t_caps : bool;                      (* _return_caps_only_ *)
  t_vk : vk_kind                      (* _value_key_: identity, or the type's CIP code *)
}.
