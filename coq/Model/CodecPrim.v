(* Model/CodecPrim.v — Python values and the Python primitives the codec classes use
   (len, iteration, indexing, slicing, truthiness, dict access, str.encode / bytes.decode for the
   four text codecs, BytesIO.read).  Definitions only.  Shared by Model/Codec.v and the C06/C07/C08
   proofs. *)
From PV Require Import Base.Bytes Base.Res Model.CodecFloat.
Open Scope Z_scope.

Definition text := list Z.
(* dict keys / member names: Python None or a str ("" = Some []) *)
Definition key := option text.

Inductive val :=
  | VNone
  | VBool (b : bool)
  | VInt (z : Z)
  | VFloat (bits : Z)            (* IEEE binary64 bit pattern; every NaN is [nan64] *)
  | VStr (s : text)
  | VBytes (b : bytes)
  | VList (l : list val)
  | VTuple (l : list val)
  | VDict (d : list (key * val)) (* insertion-ordered dict with None / str keys *)
  | VType (n : text).            (* an exported elementary type CLASS, by name (argument of STRINGI.encode) *)

(* ------------------------------------------------------------------ result of a decode *)
Inductive dres :=
  | DOk (v : val) (rest : bytes)
  | DErr (e : exn)               (* any exception but BufferEmptyError *)
  | DEmpty (rest : bytes)        (* BufferEmptyError, raised with the stream positioned at [rest] *)
  | DOutOfFuel.                  (* the `while True` loop of _decode_all did not finish within the fuel *)

Definition dbind (r : dres) (f : val -> bytes -> dres) : dres :=
  match r with DOk v rest => f v rest | DErr e => DErr e | DEmpty r => DEmpty r | DOutOfFuel => DOutOfFuel end.

(* DataType.decode: `except Exception as err: if BufferEmptyError: raise, else raise DataError` *)
Definition dwrap (r : dres) : dres :=
  match r with DErr _ => DErr DataError | x => x end.

Definition dres_of_res (r : res val) (rest : bytes) : dres :=
  match r with Ok v => DOk v rest | Err e => DErr e end.

(* DataType.encode: try: _encode(value) except Exception: raise DataError *)
Definition pub_encode (f : val -> res bytes) (v : val) : res bytes := wrap_all DataError (f v).

(* ------------------------------------------------------------------ lists with Z counts *)
Definition zlen {A} (l : list A) : Z := Z.of_nat (length l).
(* l[:n] / l[n:] for n >= 0 (clamped, so that no unary number larger than the list is ever built) *)
Definition ztake {A} (n : Z) (l : list A) : list A := firstn (Z.to_nat (Z.min n (zlen l))) l.
Definition zdrop {A} (n : Z) (l : list A) : list A := skipn (Z.to_nat (Z.min n (zlen l))) l.
(* data[:k] for any integer k (negative k counts from the end) *)
Definition slice_to {A} (k : Z) (l : list A) : list A :=
  if 0 <=? k then ztake k l else ztake (zlen l + k) l.

(* ------------------------------------------------------------------ Python primitives on values *)
(* bool(x) *)
Definition truthy (v : val) : bool :=
  match v with
  | VNone => false
  | VBool b => b
  | VInt z => negb (z =? 0)
  | VFloat b => float_truthy b
  | VStr s => match s with [] => false | _ => true end
  | VBytes b => match b with [] => false | _ => true end
  | VList l => match l with [] => false | _ => true end
  | VTuple l => match l with [] => false | _ => true end
  | VDict d => match d with [] => false | _ => true end
  | VType _ => true
  end.

Definition key_val (k : key) : val := match k with None => VNone | Some s => VStr s end.

(* len(x) : TypeError for objects without __len__ *)
Definition py_len (v : val) : res Z :=
  match v with
  | VStr s => Ok (zlen s)
  | VBytes b => Ok (zlen b)
  | VList l => Ok (zlen l)
  | VTuple l => Ok (zlen l)
  | VDict d => Ok (zlen d)
  | _ => Err (Foreign TypeError)
  end.

(* iter(x) : the items a `for`/`zip`/`enumerate`/unpacking sees.  (A type class is iterable through
   its metaclass __getitem__; that is outside the model: [VType] only occurs inside STRINGI tuples.) *)
Definition py_iter (v : val) : res (list val) :=
  match v with
  | VStr s => Ok (map (fun c => VStr [c]) s)
  | VBytes b => Ok (map VInt b)
  | VList l => Ok l
  | VTuple l => Ok l
  | VDict d => Ok (map (fun kv => key_val (fst kv)) d)
  | _ => Err (Foreign TypeError)
  end.

(* x[i] for 0 <= i (dict keys are None/str in this model: an int index is a KeyError) *)
Definition py_index (v : val) (i : nat) : res val :=
  match v with
  | VStr s => match nth_error s i with Some c => Ok (VStr [c]) | None => Err (Foreign IndexError) end
  | VBytes b => match nth_error b i with Some c => Ok (VInt c) | None => Err (Foreign IndexError) end
  | VList l => match nth_error l i with Some x => Ok x | None => Err (Foreign IndexError) end
  | VTuple l => match nth_error l i with Some x => Ok x | None => Err (Foreign IndexError) end
  | VDict _ => Err (Foreign KeyError)
  | _ => Err (Foreign TypeError)
  end.

(* x[a:b] for 0 <= a <= b on sequences *)
Definition py_slice (v : val) (a b : nat) : res val :=
  match v with
  | VStr s => Ok (VStr (slice a b s))
  | VBytes s => Ok (VBytes (slice a b s))
  | VList l => Ok (VList (firstn (b - a) (skipn a l)))
  | VTuple l => Ok (VTuple (firstn (b - a) (skipn a l)))
  | VDict _ => Err (Foreign KeyError)
  | _ => Err (Foreign TypeError)
  end.

Fixpoint text_eqb (x y : text) : bool :=
  match x, y with
  | [], [] => true
  | c :: x', d :: y' => (c =? d) && text_eqb x' y'
  | _, _ => false
  end.
Definition keyb (a b : key) : bool :=
  match a, b with
  | None, None => true
  | Some x, Some y => text_eqb x y
  | _, _ => false
  end.

(* d[k] : KeyError when absent *)
Fixpoint dict_get (d : list (key * val)) (k : key) : res val :=
  match d with
  | [] => Err (Foreign KeyError)
  | (k', v) :: r => if keyb k' k then Ok v else dict_get r k
  end.
(* d[k] = v : replaces in place, or appends (insertion order kept) *)
Fixpoint dict_set (d : list (key * val)) (k : key) (v : val) : list (key * val) :=
  match d with
  | [] => [(k, v)]
  | (k', v') :: r => if keyb k' k then (k', v) :: r else (k', v') :: dict_set r k v
  end.
(* d.pop(k, None) *)
Fixpoint dict_pop (d : list (key * val)) (k : key) : list (key * val) :=
  match d with
  | [] => []
  | (k', v') :: r => if keyb k' k then r else (k', v') :: dict_pop r k
  end.
Definition mem_text (s : text) (l : list text) : bool := existsb (text_eqb s) l.
Definition key_in (k : key) (l : list text) : bool :=
  match k with None => false | Some s => mem_text s l end.

Fixpoint zlookup {A} (t : list (Z * A)) (k : Z) : option A :=
  match t with [] => None | (k', a) :: r => if k' =? k then Some a else zlookup r k end.

Definition as_int (v : val) : Z := match v with VInt z => z | _ => 0 end.

(* ------------------------------------------------------------------ text codecs: str.encode / bytes.decode *)
Inductive tenc := Latin1 | Utf8 | Utf16 | Utf32.

Definition is_surrogate (c : Z) : bool := (0xD800 <=? c) && (c <=? 0xDFFF).
Definition scalar_ok (c : Z) : bool := (0 <=? c) && (c <=? 0x10FFFF) && negb (is_surrogate c).

Definition enc_char (e : tenc) (c : Z) : option bytes :=
  match e with
  | Latin1 => if (0 <=? c) && (c <? 256) then Some [c] else None
  | Utf8 =>
      if negb (scalar_ok c) then None
      else if c <? 0x80 then Some [c]
      else if c <? 0x800 then Some [0xC0 + c / 64; 0x80 + c mod 64]
      else if c <? 0x10000 then Some [0xE0 + c / 4096; 0x80 + (c / 64) mod 64; 0x80 + c mod 64]
      else Some [0xF0 + c / 262144; 0x80 + (c / 4096) mod 64; 0x80 + (c / 64) mod 64; 0x80 + c mod 64]
  | Utf16 =>
      if negb (scalar_ok c) then None
      else if c <? 0x10000 then Some (le_enc 2 c)
      else let c' := c - 0x10000 in Some (le_enc 2 (0xD800 + c' / 1024) ++ le_enc 2 (0xDC00 + c' mod 1024))
  | Utf32 => if scalar_ok c then Some (le_enc 4 c) else None
  end.

(* s.encode(enc): UnicodeEncodeError on an unencodable character *)
Fixpoint text_encode (e : tenc) (s : text) : res bytes :=
  match s with
  | [] => Ok []
  | c :: r => match enc_char e c with
              | None => Err (Foreign UnicodeError)
              | Some bs => match text_encode e r with Ok rs => Ok (bs ++ rs) | Err x => Err x end
              end
  end.

Definition is_cont (b : Z) : bool := (0x80 <=? b) && (b <=? 0xBF).

(* strict UTF-8 (no overlongs, no surrogates, <= U+10FFFF) *)
Fixpoint utf8_decode (fuel : nat) (bs : bytes) : option text :=
  match fuel with
  | O => match bs with [] => Some [] | _ => None end
  | S f =>
      match bs with
      | [] => Some []
      | b0 :: r0 =>
          if b0 <? 0x80 then option_map (cons b0) (utf8_decode f r0)
          else if (0xC2 <=? b0) && (b0 <=? 0xDF) then
            match r0 with
            | b1 :: r1 => if is_cont b1 then option_map (cons ((b0 - 0xC0) * 64 + (b1 - 0x80))) (utf8_decode f r1) else None
            | _ => None
            end
          else if (0xE0 <=? b0) && (b0 <=? 0xEF) then
            match r0 with
            | b1 :: b2 :: r2 =>
                let lo := if b0 =? 0xE0 then 0xA0 else 0x80 in
                let hi := if b0 =? 0xED then 0x9F else 0xBF in
                if (lo <=? b1) && (b1 <=? hi) && is_cont b2
                then option_map (cons ((b0 - 0xE0) * 4096 + (b1 - 0x80) * 64 + (b2 - 0x80))) (utf8_decode f r2)
                else None
            | _ => None
            end
          else if (0xF0 <=? b0) && (b0 <=? 0xF4) then
            match r0 with
            | b1 :: b2 :: b3 :: r3 =>
                let lo := if b0 =? 0xF0 then 0x90 else 0x80 in
                let hi := if b0 =? 0xF4 then 0x8F else 0xBF in
                if (lo <=? b1) && (b1 <=? hi) && is_cont b2 && is_cont b3
                then option_map (cons ((b0 - 0xF0) * 262144 + (b1 - 0x80) * 4096 + (b2 - 0x80) * 64 + (b3 - 0x80)))
                                (utf8_decode f r3)
                else None
            | _ => None
            end
          else None
      end
  end.

Fixpoint utf16_decode (fuel : nat) (bs : bytes) : option text :=
  match fuel with
  | O => match bs with [] => Some [] | _ => None end
  | S f =>
      match bs with
      | [] => Some []
      | l0 :: h0 :: r0 =>
          let u := l0 + 256 * h0 in
          if (0xD800 <=? u) && (u <=? 0xDBFF) then
            match r0 with
            | l1 :: h1 :: r1 =>
                let u2 := l1 + 256 * h1 in
                if (0xDC00 <=? u2) && (u2 <=? 0xDFFF)
                then option_map (cons (0x10000 + (u - 0xD800) * 1024 + (u2 - 0xDC00))) (utf16_decode f r1)
                else None
            | _ => None
            end
          else if (0xDC00 <=? u) && (u <=? 0xDFFF) then None
          else option_map (cons u) (utf16_decode f r0)
      | _ => None
      end
  end.

Fixpoint utf32_decode (fuel : nat) (bs : bytes) : option text :=
  match fuel with
  | O => match bs with [] => Some [] | _ => None end
  | S f =>
      match bs with
      | [] => Some []
      | b0 :: b1 :: b2 :: b3 :: r =>
          let c := le_dec [b0; b1; b2; b3] in
          if scalar_ok c then option_map (cons c) (utf32_decode f r) else None
      | _ => None
      end
  end.

(* b.decode(enc): UnicodeDecodeError on malformed data *)
Definition text_decode (e : tenc) (bs : bytes) : res text :=
  match e with
  | Latin1 => Ok bs
  | Utf8 => match utf8_decode (length bs) bs with Some s => Ok s | None => Err (Foreign UnicodeError) end
  | Utf16 => match utf16_decode (length bs) bs with Some s => Ok s | None => Err (Foreign UnicodeError) end
  | Utf32 => match utf32_decode (length bs) bs with Some s => Ok s | None => Err (Foreign UnicodeError) end
  end.

(* ------------------------------------------------------------------ the stream *)
(* stream.read(n): all remaining bytes when n < 0 *)
Definition stream_take (n : Z) (bs : bytes) : bytes * bytes :=
  if n <? 0 then (bs, []) else (ztake n bs, zdrop n bs).

(* DataType._stream_read: BufferEmptyError when a non-zero read returns no data, DataError when it
   returns less than requested (a negative size reads everything that is left) *)
Definition stream_read (n : Z) (bs : bytes) (k : bytes -> bytes -> dres) : dres :=
  let '(d, r) := stream_take n bs in
  match d with
  | [] => if n =? 0 then k [] r else DEmpty r
  | _ => if zlen d <? n then DErr DataError else k d r
  end.
