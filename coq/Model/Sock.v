(* Model/Sock.v — model of pycomm3/socket_.py: Socket.receive and Socket.send over a scripted
   transport.  The transport is an input: what each recv / send call of the kernel socket does.
   Loops whose termination is part of C12 take explicit fuel and return [OutOfFuel] when it runs
   out; the theorems state for which scripts that never happens. *)
From PV Require Import Base.Bytes Base.Res.
From PV Require Gen.Consts.
Open Scope Z_scope.

Inductive outcome (A : Type) := Done (a : A) | OutOfFuel.
Arguments Done {A} a.
Arguments OutOfFuel {A}.

(* ---- receive side: what successive sock.recv(n) calls see *)
Inductive ev :=
  | Chunk (bs : bytes)     (* bytes available now (a TCP segment / what the peer has sent so far) *)
  | Closed                 (* peer closed: recv returns b"" from now on *)
  | Raise.                 (* recv raises socket.error (reset, timeout, ...) *)
Inductive tail := ClosedForever | RaiseTimeout.   (* behaviour once the script is exhausted *)

(* one sock.recv(n) call: result and remaining script *)
Definition recv (n : nat) (script : list ev) (tl : tail) : res bytes * list ev :=
  match script with
  | [] => match tl with ClosedForever => (Ok [], []) | RaiseTimeout => (Err CommError, []) end
  | Chunk bs :: r =>
      if (length bs <=? n)%nat then (Ok bs, r) else (Ok (firstn n bs), Chunk (skipn n bs) :: r)
  | Closed :: r => (Ok [], Closed :: r)
  | Raise :: r => (Err CommError, r)       (* socket.error is wrapped into CommError by the except clause *)
  end.

Definition RECV_SIZE : nat := 256.
Definition header_size : Z := Gen.Consts.HEADER_SIZE.

(* Socket._recv: one read; an empty read means the peer closed -> CommError *)
Definition recv_nonempty (script : list ev) (tl : tail) : res bytes * list ev :=
  match recv RECV_SIZE script tl with
  | (Ok [], s) => (Err CommError, s)
  | r => r
  end.

(* first loop: read until the 2-byte length field at offset 2 is present *)
Fixpoint recv_header (fuel : nat) (data : bytes) (script : list ev) (tl : tail)
  : outcome (res (bytes * list ev)) :=
  if (4 <=? length data)%nat then Done (Ok (data, script)) else
  match fuel with
  | O => OutOfFuel
  | S f => match recv_nonempty script tl with
           | (Err e, _) => Done (Err e)
           | (Ok c, s) => recv_header f (data ++ c) s tl
           end
  end.

(* second loop: while len(data) - HEADER_SIZE < data_len: data += recv *)
Fixpoint recv_body (fuel : nat) (data : bytes) (data_len : Z) (script : list ev) (tl : tail)
  : outcome (res bytes) :=
  if Z.of_nat (length data) - header_size <? data_len then
    match fuel with
    | O => OutOfFuel
    | S f => match recv_nonempty script tl with
             | (Err e, _) => Done (Err e)
             | (Ok c, s) => recv_body f (data ++ c) data_len s tl
             end
    end
  else Done (Ok data).

Definition receive (fuel : nat) (script : list ev) (tl : tail) : outcome (res bytes) :=
  match recv_header fuel [] script tl with
  | OutOfFuel => OutOfFuel
  | Done (Err e) => Done (Err e)
  | Done (Ok (data, s)) =>
      let data_len := le_dec (slice 2 4 data) in      (* struct.unpack_from("<H", data, 2) *)
      recv_body fuel data data_len s tl
  end.

(* ---- send side: what successive sock.send(buf) calls do *)
Inductive sev :=
  | Accept (n : nat)       (* the kernel takes min(n, len(buf)) bytes; 0 = connection broken *)
  | SRaise.                (* send raises socket.error *)

(* returns the outcome and the bytes handed to the kernel, in order *)
Fixpoint send_loop (fuel : nat) (msg : bytes) (total : nat) (script : list sev) (wire : bytes)
  : outcome (res nat) * bytes :=
  if (total <? length msg)%nat then
    match fuel with
    | O => (OutOfFuel, wire)
    | S f =>
        match script with
        | [] => (Done (Err CommError), wire)                 (* nothing more is accepted: broken *)
        | SRaise :: _ => (Done (Err CommError), wire)
        | Accept n :: r =>
            let buf := skipn total msg in
            let k := Nat.min n (length buf) in
            if (k =? 0)%nat then (Done (Err CommError), wire)
            else send_loop f msg (total + k) r (wire ++ firstn k buf)
        end
    end
  else (Done (Ok total), wire).

Definition send (fuel : nat) (msg : bytes) (script : list sev) : outcome (res nat) * bytes :=
  send_loop fuel msg 0 script [].
