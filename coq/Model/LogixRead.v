(* Model/LogixRead.v — executable model of LogixDriver.read (property C01), function by function:

     logix_driver.py   _parse_tag_request (read mode), _get_tag_info, util.strip_array / get_array_index,
                       _tag_return_size, _read_build_requests (planner: Model/LogixPlan.v),
                       _send_requests, _send_read_fragmented, read (bit / BOOL-range extraction)
     packets/logix.py  ReadTagRequestPacket / ReadTagFragmentedRequestPacket.tag_only_message, from_request,
                       MultiServiceRequestPacket.build_message, ReadTagResponsePacket._parse_reply,
                       ReadTagFragmentedResponsePacket._parse_reply / parse_value,
                       MultiServiceResponsePacket._parse_reply (46-byte padding)
     packets/util.py   parse_read_reply; tag_request_path (Model/Path.v)
     custom_types.py   StructTag._decode, FixedSizeString._decode
     cip/data_types.py ElementaryDataType._decode, BOOL._decode, BitArrayType._decode, Array.decode
   The envelope of a reply (offsets 46 / 48 / 50, is_valid) is Model/Reply.v (property C13).

   The client's tag database ([tagdb]: what the upload of C05 leaves in LogixDriver._tags) is built
   from the project ADT by [client_tags]: type classes (StructTag with offsets, bit members,
   private members; FixedSizeString; Array), data-type names, sizes, instance ids.

   The model does what the code DOES.  Python exceptions that escape read() are [Raise e]; a loop
   whose termination depends on the peer takes fuel ([NoFuel]).  Error TEXTS are not modelled
   (property C13 does that): a Tag carries whether it has an error.  The sequence count (first two
   bytes of every connected message) is not part of the messages here; it is counted in
   len(request.message) where the planner reads it.

   The peer is a parameter ([peer]: one connected message in, the message-router reply out); the
   last section instantiates it with the reference target (Spec/TargetCore.dispatch over
   Spec/TargetLogix.logix_handler): [run_read].  Definitions only. *)
From Coq Require Import String.
From PV Require Import Base.Bytes Base.Res Base.Proto Base.PyStr.
From PV Require Import Gen.Consts Gen.Types.
From PV Require Import Model.Path Model.Reply Model.LogixPlan.
From PV Require Import Spec.Project Spec.Expect.
From PV Require Spec.EncapParser Spec.MRParser Spec.TargetIface Spec.TargetCore Spec.TargetLogix.
Open Scope Z_scope.

(* ================================================================ outcomes *)
Inductive out (A : Type) := Done (a : A) | Raise (e : exn) | NoFuel.
Arguments Done {A} a. Arguments Raise {A} e. Arguments NoFuel {A}.

Definition of_res {A} (r : res A) : out A := match r with Ok a => Done a | Err e => Raise e end.

(* ================================================================ dicts keyed by str *)
Fixpoint dget {A} (k : text) (d : list (text * A)) : option A :=
  match d with
  | [] => None
  | (k', v) :: r => if text_eqb k' k then Some v else dget k r
  end.
(* d[k] = v : replaces in place, else appends (insertion order) *)
Fixpoint dset {A} (k : text) (v : A) (d : list (text * A)) : list (text * A) :=
  match d with
  | [] => [(k, v)]
  | (k', v') :: r => if text_eqb k' k then (k', v) :: r else (k', v') :: dset k v r
  end.
Definition dict_of {A} (l : list (text * A)) : list (text * A) := fold_left (fun d kv => dset (fst kv) (snd kv) d) l [].
Fixpoint tmem (k : text) (l : list text) : bool :=
  match l with [] => false | x :: r => text_eqb x k || tmem k r end.

(* ================================================================ elementary type classes (Gen/Types.v rows) *)
Inductive akind := ABool | AInt (sg : bool) (w : Z) | AReal (dbl : bool) | ABits (w : Z).

Definition trow := (list Z * Z * Z * list Z * list Z * list Z * list Z)%type.
Definition tr_name (r : trow) : text := let '(n, _, _, _, _, _, _) := r in n.
Definition tr_code (r : trow) : Z := let '(_, c, _, _, _, _, _) := r in c.
Definition tr_size (r : trow) : Z := let '(_, _, s, _, _, _, _) := r in s.
Definition tr_fmt (r : trow) : list Z := let '(_, _, _, f, _, _, _) := r in f.
Definition tr_host (r : trow) : list Z := let '(_, _, _, _, _, _, h) := r in h.

Fixpoint row_by_code (rows : list trow) (c : Z) : option trow :=
  match rows with [] => None | r :: rs => if tr_code r =? c then Some r else row_by_code rs c end.
Fixpoint row_by_name (rows : list trow) (n : text) : option trow :=
  match rows with [] => None | r :: rs => if text_eqb (tr_name r) n then Some r else row_by_name rs n end.

(* struct formats: "<b" "<B" "<h" "<H" "<i" "<I" "<q" "<Q" "<f" "<d" *)
Definition fmt_kind (f : list Z) : option akind :=
  match f with
  | [60; 98] => Some (AInt true 1)   | [60; 66] => Some (AInt false 1)
  | [60; 104] => Some (AInt true 2)  | [60; 72] => Some (AInt false 2)
  | [60; 105] => Some (AInt true 4)  | [60; 73] => Some (AInt false 4)
  | [60; 113] => Some (AInt true 8)  | [60; 81] => Some (AInt false 8)
  | [60; 102] => Some (AReal false)  | [60; 100] => Some (AReal true)
  | _ => None
  end.
Definition kind_size (k : akind) : Z :=
  match k with ABool => 1 | AInt _ w => w | AReal d => if d then 8 else 4 | ABits w => w end.

Definition txt_BOOL : text := zs_of_string "BOOL".
Definition txt_DWORD : text := zs_of_string "DWORD".
Definition txt_SINT : text := zs_of_string "SINT".

(* DataTypes.get_type(code): how the class of that code decodes; None = no such elementary class /
   a class this model does not cover (strings, EPATH, DATE_AND_TIME) *)
Definition row_kind (r : trow) : option akind :=
  if text_eqb (tr_name r) txt_BOOL then Some ABool
  else match tr_fmt r with
       | _ :: _ => match fmt_kind (tr_fmt r) with
                   | Some k => if kind_size k =? tr_size r then Some k else None
                   | None => None
                   end
       | [] => match tr_host r with
               | _ :: _ => match row_by_name type_rows (tr_host r) with
                           | Some h => match fmt_kind (tr_fmt h) with
                                       | Some (AInt false w) => if w =? tr_size r then Some (ABits w) else None
                                       | _ => None
                                       end
                           | None => None
                           end
               | [] => None
               end
       end.
(* name (DataTypes.get(code)), size, decoding kind *)
Definition atom_class (c : Z) : option (text * Z * akind) :=
  match row_by_code type_rows c with
  | Some r => match row_kind r with Some k => Some (tr_name r, tr_size r, k) | None => None end
  | None => None
  end.

(* ================================================================ type classes and tag infos *)
Inductive tclass :=
  | KAtom (c : Z)                                   (* DataTypes.get_type(c) *)
  | KArr (n : Z) (e : tclass)                       (* Array(length_=n, element_type_=e) *)
  | KStr (size cap : Z)                             (* FixedSizeString(size, UDINT, capacity_=cap) *)
  | KStruct (ms : list (text * Z * tclass))         (* StructTag: (member(name), offset) ... *)
            (bits : list (text * Z * Z))            (* bit_members: name -> (offset, bit) *)
            (priv : list text) (size : Z).          (* private_members, struct_size *)

(* one tag_info dict (a tag of LogixDriver._tags, or a member info of data_type["internal_tags"]) *)
Inductive tinfo :=
  | TI (is_struct : bool)                           (* tag_type == "struct" *)
       (dtname : text)                              (* data_type_name (atomic: also data_type) *)
       (tc : tclass)                                (* type_class *)
       (esize : Z)                                  (* DataTypes[data_type].size / template["structure_size"] *)
       (inst : option Z)                            (* instance_id (tags only; member infos have none) *)
       (attrs : list text)                          (* data_type["attributes"] *)
       (members : list (text * tinfo)).             (* data_type["internal_tags"] *)

Definition ti_struct (i : tinfo) := let 'TI s _ _ _ _ _ _ := i in s.
Definition ti_dtname (i : tinfo) := let 'TI _ n _ _ _ _ _ := i in n.
Definition ti_class (i : tinfo) := let 'TI _ _ c _ _ _ _ := i in c.
Definition ti_esize (i : tinfo) := let 'TI _ _ _ e _ _ _ := i in e.
Definition ti_inst (i : tinfo) := let 'TI _ _ _ _ x _ _ := i in x.
Definition ti_attrs (i : tinfo) := let 'TI _ _ _ _ _ a _ := i in a.
Definition ti_members (i : tinfo) := let 'TI _ _ _ _ _ _ m := i in m.

Definition tagdb := list (text * tinfo).

(* ---------------------------------------------------------------- what the upload leaves (logix_driver.py
   _create_tag, _parse_template_data, _parse_template_data_member_info), read off the project ADT *)
Definition txt_ZZ10 : text := zs_of_string "ZZZZZZZZZZ".
Definition txt_UU2 : text := zs_of_string "__".
Definition txt_CTL_ : text := zs_of_string "CTL".
Definition txt_Control_ : text := zs_of_string "Control".
Definition txt_LEN_ : text := zs_of_string "LEN".
Definition txt_DATA_ : text := zs_of_string "DATA".
Definition txt_ASCIISTRING82 : text := zs_of_string "ASCIISTRING82".
Definition txt_STRING : text := zs_of_string "STRING".
Definition txt_Program_ : text := zs_of_string "Program:".

(* predefine = _type < 0x100 or _type > 0xEFF *)
Definition predefine (tid : Z) : bool := (tid <? 256) || (3839 <? tid).
Definition is_private (tid : Z) (n : text) : bool :=
  starts_with txt_ZZ10 n || starts_with txt_UU2 n
  || (predefine tid && (text_eqb n txt_CTL_ || text_eqb n txt_Control_)).
Definition client_type_name (n : text) : text := if text_eqb n txt_ASCIISTRING82 then txt_STRING else n.

Definition wrap_arr (arr : Z) (tc : tclass) : tclass := if arr =? 0 then tc else KArr arr tc.

(* a data_type dict: name, type_class, structure_size, attributes, internal_tags *)
Definition dtype := (text * tclass * Z * list text * list (text * tinfo))%type.

(* one member info dict (_parse_template_data_member_info); [sd] = _get_data_type of a nested template *)
Definition member_info (sd : Z -> option dtype) (m : member) : option tinfo :=
  match m_ty m with
  | BAtom c =>
      match atom_class c with
      | Some (n, sz, _) =>
          Some (TI false n (if text_eqb n txt_BOOL then KAtom c else wrap_arr (m_arr m) (KAtom c)) sz None [] [])
      | None => None
      end
  | BStruct tid' =>
      match sd tid' with
      | Some (n, tc, sz, attrs, mem) => Some (TI true n (wrap_arr (m_arr m) tc) sz None attrs mem)
      | None => None
      end
  | BOpaque _ => None
  end.

Fixpoint member_infos (sd : Z -> option dtype) (ms : list member) : option (list (member * tinfo)) :=
  match ms with
  | [] => Some []
  | m :: r => match member_info sd m, member_infos sd r with
              | Some i, Some l => Some ((m, i) :: l)
              | _, _ => None
              end
  end.

Definition is_bool_info (i : tinfo) : bool := negb (ti_struct i) && text_eqb (ti_dtname i) txt_BOOL.

(* the loop `for member, info in zip(member_names, member_data)` of _parse_template_data *)
Record scan_acc := mkScan {
  sc_itags : list (text * tinfo);            (* data_type["internal_tags"] *)
  sc_attrs : list text;                      (* data_type["attributes"] *)
  sc_smem : list (text * Z * tclass);        (* _struct_members *)
  sc_bits : list (text * (Z * Z));           (* _bit_members *)
  sc_priv : list text                        (* _private_members *)
}.
Definition scan_step (tid : Z) (a : scan_acc) (mi : member * tinfo) : scan_acc :=
  let '(m, info) := mi in
  let n := m_name m in
  let pr := is_private tid n in
  mkScan (dset n info (sc_itags a))
         (if pr then sc_attrs a else sc_attrs a ++ [n])
         (if is_bool_info info then sc_smem a else sc_smem a ++ [(n, m_off m, ti_class info)])
         (if is_bool_info info then dset n (m_off m, m_bit m) (sc_bits a) else sc_bits a)
         (if pr then (if tmem n (sc_priv a) then sc_priv a else sc_priv a ++ [n]) else sc_priv a).
Definition scan_members (tid : Z) (infos : list (member * tinfo)) : scan_acc :=
  fold_left (scan_step tid) infos (mkScan [] [] [] [] []).

Definition is_string_dtype (a : scan_acc) : bool :=
  match sc_attrs a with
  | [x; y] =>
      text_eqb x txt_LEN_ && text_eqb y txt_DATA_
      && match dget txt_DATA_ (sc_itags a) with
         | Some d => text_eqb (ti_dtname d) txt_SINT
                     && match ti_class d with KArr n _ => negb (n =? 0) | _ => false end
         | None => false
         end
  | _ => false
  end.
Definition string_cap (a : scan_acc) : Z :=
  match dget txt_DATA_ (sc_itags a) with
  | Some d => match ti_class d with KArr n _ => n | _ => 0 end
  | None => 0
  end.

(* the data_type dict _parse_template_data builds *)
Definition dtype_of (t : template) (infos : list (member * tinfo)) : dtype :=
  let a := scan_members (t_id t) infos in
  let bits3 := map (fun e => (fst e, fst (snd e), snd (snd e))) (sc_bits a) in
  let tc := if is_string_dtype a then KStr (t_size t - 4) (string_cap a)
            else KStruct (sc_smem a) bits3 (sc_priv a) (t_size t) in
  (client_type_name (t_name t), tc, t_size t, sc_attrs a, sc_itags a).

(* _get_data_type(template instance id): nested templates first, [fuel] bounds the nesting *)
Fixpoint struct_dtype (fuel : nat) (p : project) (tid : Z) {struct fuel} : option dtype :=
  match fuel with
  | O => None
  | S f =>
      match find_template (p_templates p) tid with
      | None => None
      | Some t =>
          match member_infos (struct_dtype f p) (t_members t) with
          | Some infos => Some (dtype_of t infos)
          | None => None
          end
      end
  end.

Definition client_fuel (p : project) : nat := S (S (length (p_templates p))).

(* _create_tag *)
Definition tag_info (p : project) (g : tagdef) : option tinfo :=
  let total := dims_count (g_dims g) in
  let arr (tc : tclass) := match g_dims g with [] => tc | _ => KArr total tc end in
  match g_ty g with
  | BAtom c =>
      match atom_class c with
      | Some (n, sz, _) => Some (TI false n (arr (KAtom c)) sz (Some (g_inst g)) [] [])
      | None => None
      end
  | BStruct tid =>
      match struct_dtype (client_fuel p) p tid with
      | Some (n, tc, sz, attrs, mem) => Some (TI true n (arr tc) sz (Some (g_inst g)) attrs mem)
      | None => None
      end
  | BOpaque _ => None
  end.

(* LogixDriver._tags after the upload: the user-visible tags, keyed by their full name *)
Definition client_tags (p : project) : tagdb :=
  fold_left (fun d g => match tag_info p g with Some i => dset (full_name g) i d | None => d end) (visible_tags p) [].

(* ================================================================ decoding (cip/data_types.py, custom_types.py) *)
(* DataType._stream_read: data = stream.read(size); nothing read although size != 0 -> BufferEmptyError;
   fewer bytes than asked for -> DataError (the buffer ends inside a value) *)
Definition stream_read (n : Z) (s : bytes) : res (bytes * bytes) :=
  let d := firstn (Z.to_nat n) s in
  match d with
  | [] => if n =? 0 then Ok ([], s) else Err BufferEmpty
  | _ => if len d <? n then Err DataError else Ok (d, skipn (Z.to_nat n) s)
  end.

Definition bits_value (w : Z) (v : Z) : rvalue :=
  RList (map (fun i => RBool (Z.testbit v (Z.of_nat i))) (seq 0 (Z.to_nat (8 * w)))).

(* ElementaryDataType._decode: unpack(format, _stream_read(size)); a short read is a struct.error *)
Definition decode_kind (k : akind) (s : bytes) : res (rvalue * bytes) :=
  let* (d, r) := stream_read (kind_size k) s in
  if negb (len d =? kind_size k) then Err DataError else
  match k with
  | ABool => Ok (RBool (negb (match d with [0] => true | _ => false end)), r)
  | AInt sg w => Ok (RInt (if sg then to_signed (Z.to_nat w) (le_dec d) else le_dec d), r)
  | AReal dbl => Ok ((if dbl then RLReal (le_dec d) else RReal (le_dec d)), r)
  | ABits w => Ok (bits_value w (le_dec d), r)
  end.

Definition is_bitarray (tc : tclass) : bool :=
  match tc with
  | KAtom c => match atom_class c with Some (_, _, ABits _) => true | _ => false end
  | _ => false
  end.

Definition flatten_lists (vs : list rvalue) : list rvalue :=
  flat_map (fun v => match v with RList l => l | x => [x] end) vs.

(* [k] x element_type.decode(stream) *)
Section DecMany.
  Variable dec : bytes -> res (rvalue * bytes).
  Fixpoint dec_many (k : nat) (s : bytes) : res (list rvalue * bytes) :=
    match k with
    | O => Ok ([], s)
    | S k' => let* (v, s1) := dec s in
              let* (vs, s2) := dec_many k' s1 in Ok (v :: vs, s2)
    end.
End DecMany.

(* StructTag._decode, first loop: stream.seek(cls._offsets[member]); member.decode(stream) on the
   sub-stream [raw] (seek past the end is allowed, the member then finds an empty buffer; a negative
   offset is a ValueError) *)
Section DecMembers.
  Variable dec : tclass -> bytes -> res (rvalue * bytes).
  Fixpoint dec_members (ms : list (text * Z * tclass)) (raw : bytes) (vals : list (text * rvalue))
    : res (list (text * rvalue)) :=
    match ms with
    | [] => Ok vals
    | (n, off, mtc) :: r =>
        if off <? 0 then Err (Foreign ValueError) else
        let* (v, _) := dec mtc (skipn (Z.to_nat off) raw) in
        dec_members r raw (dset n v vals)
    end.
End DecMembers.

(* StructTag._decode, second loop: bool(raw[offset] & (1 << bit)) *)
Fixpoint dec_bits (raw : bytes) (bs : list (text * Z * Z)) (vals : list (text * rvalue)) : res (list (text * rvalue)) :=
  match bs with
  | [] => Ok vals
  | (n, off, bit) :: r =>
      if off <? 0 then Err DataError else
      match nth_error raw (Z.to_nat off) with
      | Some b => dec_bits raw r (dset n (RBool (Z.testbit b bit)) vals)
      | None => Err DataError                      (* IndexError *)
      end
  end.

(* the value of [type_class.decode(stream)] and the unread rest of the stream.
   [wrap_decode]: DataType.decode / Array.decode re-raise BufferEmptyError, anything else is DataError *)
Fixpoint decode_tc (tc : tclass) (s : bytes) {struct tc} : res (rvalue * bytes) :=
  match tc with
  | KAtom c =>
      match atom_class c with
      | Some (_, _, k) => wrap_decode (decode_kind k s)
      | None => Err DataError
      end
  | KArr n e =>
      (* Array.decode(stream) with length = cls.length *)
      wrap_decode (let* (vs, r) := dec_many (decode_tc e) (Z.to_nat n) s in
                   Ok (RList (if is_bitarray e then flatten_lists vs else vs), r))
  | KStr size cap =>
      (* FixedSizeString._decode: _len = UDINT.decode(stream); _stream_read(stream, size)[:_len] *)
      wrap_decode (let* (lv, s1) := decode_kind (AInt false 4) s in
                   let* (d, s2) := stream_read size s1 in
                   match lv with
                   | RInt l => Ok (RStr (firstn (Z.to_nat (Z.min l (len d))) d), s2)   (* d[:l] *)
                   | _ => Err DataError
                   end)
  | KStruct ms bits priv size =>
      (* StructTag._decode: raw = stream.read(cls.size); some but fewer bytes -> DataError;
         stream = BytesIO(raw) *)
      let raw := firstn (Z.to_nat size) s in
      let rest := skipn (Z.to_nat size) s in
      wrap_decode (if negb (match raw with [] => true | _ => false end) && (len raw <? size) then Err DataError else
                   let* vals := dec_members (fun mtc => decode_tc mtc) ms raw [] in
                   let* vals2 := dec_bits raw bits vals in
                   Ok (RStruct (filter (fun kv => negb (tmem (fst kv) priv)) vals2), rest))
  end.

(* Array.decode(stream, length=n): n or cls.length elements *)
Definition decode_array_len (n0 : Z) (e : tclass) (length : Z) (s : bytes) : res (rvalue * bytes) :=
  decode_tc (KArr (if length =? 0 then n0 else length) e) s.

(* ================================================================ parse_read_reply (packets/util.py) *)
Definition type_string (dt : text) (elements : Z) : text :=
  if text_eqb dt txt_DWORD then txt_BOOL ++ [91] ++ print_int (elements * 32) ++ [93]
  else if 1 <? elements then dt ++ [91] ++ print_int elements ++ [93]
  else dt.

(* {attr: _value[attr] for attr in data_type["data_type"]["attributes"]} *)
Fixpoint pick_attrs (fs : list (text * rvalue)) (attrs : list text) (acc : list (text * rvalue)) : res (list (text * rvalue)) :=
  match attrs with
  | [] => Ok acc
  | a :: r => match dget a fs with
              | Some x => pick_attrs fs r (dset a x acc)
              | None => Err (Foreign KeyError)
              end
  end.

Definition parse_read_reply_t (data : bytes) (info : tinfo) (elements : Z) : res (rvalue * text) :=
  let is_struct := is_struct_reply data in
  let stream := if is_struct then skipn 4 data else skipn 2 data in
  let* v :=
    match ti_class info with
    | KArr n0 e =>
        let* (v, _) := decode_array_len n0 e elements stream in
        if (elements =? 1) && negb (is_bitarray e)
        then match v with
             | RList (x :: _) => Ok x
             | _ => Err (Foreign IndexError)
             end
        else Ok v
    | tc =>
        let* (v, _) := decode_tc tc stream in
        if is_struct && negb (match tc with KStr _ _ => true | _ => false end)
        then match v with
             | RStruct fs =>
                 let* fs' := pick_attrs fs (ti_attrs info) [] in
                 if ti_struct info then Ok (RStruct fs') else Err (Foreign TypeError)
             | _ => Err (Foreign TypeError)
             end
        else Ok v
    end in
  Ok (v, type_string (ti_dtname info) elements).

(* ================================================================ request parsing (logix_driver.py) *)
(* util.strip_array *)
Definition strip_array (tag : text) : text :=
  match find [91] tag with Some k => firstn k tag | None => tag end.

(* util.get_array_index: (tag, idx) *)
Definition get_array_index (tag : text) : res (text * option Z) :=
  if ends_with [93] tag && contains_chr 91 tag then
    match rsplit1_aux 91 tag with
    | Some (h, t) => let* idx := py_int_full (removelast t) in Ok (h, Some idx)
    | None => Err (Foreign ValueError)
    end
  else Ok (tag, None).

(* _get_tag_info: any failure is a RequestError *)
Fixpoint recurse_attrs (attrs : list text) (data : list (text * tinfo)) : option tinfo :=
  match attrs with
  | [] => None
  | [cur] => dget (strip_array cur) data
  | cur :: remain =>
      match dget (strip_array cur) data with
      | Some i => if ti_struct i then recurse_attrs remain (ti_members i) else None
      | None => None
      end
  end.
Definition get_tag_info (tags : tagdb) (base : text) (attrs : list text) : res tinfo :=
  match dget (strip_array base) tags with
  | None => Err RequestError                                       (* KeyError: "Tag doesn't exist" *)
  | Some data =>
      match attrs with
      | [] => Ok data
      | _ => if ti_struct data
             then match recurse_attrs attrs (ti_members data) with
                  | Some i => Ok i
                  | None => Err RequestError
                  end
             else Err RequestError                                 (* "DINT"["internal_tags"] *)
      end
  end.

Record preq := mkPreq {
  pq_user : text;             (* user_tag: the request without {n} *)
  pq_plc : text;              (* plc_tag *)
  pq_bit : option Z;
  pq_elements : Z;
  pq_bools : option Z;        (* bool_elements *)
  pq_info : tinfo
}.

Definition dot_join (base : text) (attrs : list text) : text := join [46] (base :: attrs).

(* _parse_tag_request(tag, "r"); every exception becomes a RequestError *)
Definition parse_tag_request (tags : tagdb) (tag0 : text) : res preq :=
  wrap_all RequestError
   (let* (tag, elements, implicit) :=
      (if ends_with [125] tag0 && contains_chr 123 tag0 then
         match split_chr 123 tag0 with
         | [t; tmp] => let* n := py_int_full (removelast tmp) in Ok (t, n, false)
         | _ => Err (Foreign ValueError)                            (* too many values to unpack *)
         end
       else Ok (tag0, 1, true)) in
    let request_tag := tag in
    match split_chr 46 tag with
    | [] => Err (Foreign ValueError)
    | base0 :: attrs0 =>
        let* (base, attrs1) :=
          (if starts_with txt_Program_ base0 then
             match attrs0 with
             | a :: r => Ok (base0 ++ [46] ++ a, r)
             | [] => Err (Foreign IndexError)
             end
           else Ok (base0, attrs0)) in
        let* (bit, attrs, tag1) :=
          (match rev attrs1 with
           | l :: initr =>
               if isdigit l then
                 let* b := py_int_full l in
                 let attrs' := rev initr in
                 Ok (Some b, attrs', dot_join base attrs')
               else Ok (None, attrs1, tag)
           | [] => Ok (None, attrs1, tag)
           end) in
        let* info := get_tag_info tags base attrs in
        if negb (ti_struct info) && text_eqb (ti_dtname info) txt_DWORD then
          let* (t, idx) := get_array_index tag1 in
          let tag2 := match idx with Some _ => t ++ zs_of_string "[0]" | None => tag1 end in
          let bit' := idx in
          let bools := if implicit || (elements =? 1) then None else Some elements in
          let total := (match bit' with Some b => b | None => 0 end) + elements in
          let elements' := total / 32 + (if total mod 32 =? 0 then 0 else 1) in
          Ok (mkPreq request_tag tag2 bit' elements' bools info)
        else Ok (mkPreq request_tag tag1 bit elements None info)
    end).

(* ================================================================ request messages (packets/logix.py) *)
Definition SVC_READ : Z := 76.          (* Services.read_tag            0x4C *)
Definition SVC_READ_FRAG : Z := 82.     (* Services.read_tag_fragmented 0x52 *)
Definition SVC_MULTI : Z := 10.         (* Services.multiple_service_request 0x0A *)

(* ReadTagRequestPacket._setup_message: request_path = tag_request_path(tag, tag_info, use_instance_id) *)
Definition read_path (use_ids : bool) (q : preq) : res bytes :=
  let* op := tag_request_path (pq_plc q) (ti_inst (pq_info q)) use_ids in
  match op with
  | Some b => Ok b
  | None => Err (Foreign TypeError)                 (* b"".join((service, None, ...)) *)
  end.

(* tag_only_message *)
Definition read_message (path : bytes) (elements : Z) : res bytes :=
  let* e := UINT_encode elements in Ok (SVC_READ :: path ++ e).
Definition frag_message (path : bytes) (elements offset : Z) : res bytes :=
  let* e := UINT_encode elements in
  let* o := UDINT_encode offset in Ok (SVC_READ_FRAG :: path ++ e ++ o).

Definition multi_path : res bytes := request_path (LBytes [2]) (LInt 1) None.

(* MultiServiceRequestPacket.build_message *)
Fixpoint req_offsets (off : Z) (msgs : list bytes) : res bytes :=
  match msgs with
  | [] => Ok []
  | m :: r => let* o := UINT_encode off in
              let* rest := req_offsets (off + len m) r in Ok (o ++ rest)
  end.
Definition multi_message (msgs : list bytes) : res bytes :=
  let n := Z.of_nat (length msgs) in
  let* p := multi_path in
  let* c := UINT_encode n in
  let* offs := req_offsets (2 + n * 2) msgs in
  Ok (SVC_MULTI :: p ++ c ++ offs ++ concat msgs).

(* ================================================================ replies *)
(* the 46 bytes in front of the message-router reply of a SendUnitData reply frame: encapsulation
   header (command 0x70, status 0), interface handle, timeout, item count, address item, data item
   header, sequence count.  Only the command and the status are looked at. *)
Definition unit_prefix : bytes := [112; 0] ++ zeros 44.

(* one decoded read: what a ReadTag(Fragmented)ResponsePacket that is_valid() holds, else None *)
Definition read_response (raw : bytes) (info : tinfo) (elements : Z) : option (rvalue * text) :=
  let r := parse_unit raw in
  if is_valid KUnit r then
    match Reply.r_data r with
    | Some data => match parse_read_reply_t data info elements with
                   | Ok vt => Some vt
                   | Err _ => None                     (* "Failed to parse reply" -> _error *)
                   end
    | None => None
    end
  else None.

(* ================================================================ results *)
Record rtag := mkRTag { tg_name : text; tg_value : option rvalue; tg_type : option text; tg_error : bool }.
Definition ok_tag (n : text) (v : rvalue) (t : text) : rtag := mkRTag n (Some v) (Some t) false.
Definition err_tag (n : text) : rtag := mkRTag n None None true.
Definition tag_truthy (t : rtag) : bool := match tg_value t with Some _ => negb (tg_error t) | None => false end.

Section Client.
  Context {St : Type}.
  (* one connected message (without sequence count) -> the peer's message-router reply; None = no
     reply arrives (CommError out of _receive) *)
  Variable peer : St -> bytes -> St * option bytes.

  Record ccfg := mkCfg { c_conn : Z; c_micro800 : bool; c_use_ids : bool }.

  (* CIPDriver.send *)
  Definition send (st : St) (msg : bytes) : St * out bytes :=
    match peer st msg with
    | (st', Some r) => (st', Done (unit_prefix ++ r))
    | (st', None) => (st', Raise CommError)
    end.

  (* _send_read_fragmented for a request without error.  -> the Tag fields _send_requests stores *)
  Fixpoint frag_loop (fuel : nat) (st : St) (path : bytes) (q : preq) (offset : Z)
           (all_valid : bool) (joined : bytes) (sent : list bytes)
    : St * list bytes * out (option (rvalue * text)) :=
    match fuel with
    | O => (st, sent, NoFuel)
    | S f =>
        match frag_message path (pq_elements q) offset with
        | Err e => (st, sent, Raise e)
        | Ok msg =>
            match send st msg with
            | (st1, Raise e) => (st1, sent ++ [msg], Raise e)
            | (st1, NoFuel) => (st1, sent ++ [msg], NoFuel)
            | (st1, Done raw) =>
                let sent1 := sent ++ [msg] in
                let r := parse_unit raw in
                match Reply.r_data r with
                | None => (st1, sent1, Done None)     (* no service data: value_bytes = b"", the error is recorded, not status 6 *)
                | Some data =>
                    let st_ := is_struct_reply data in
                    let vb := if st_ then skipn 4 data else skipn 2 data in
                    let dt := if st_ then firstn 4 data else firstn 2 data in
                    let valid := all_valid && is_valid KUnit r in
                    let joined1 := joined ++ vb in
                    if opt_is (r_service_status r) INSUFFICIENT_PACKETS
                    then frag_loop f st1 path q (offset + len vb) valid joined1 sent1
                    else
                      if valid then
                        (st1, sent1,
                         Done (match parse_read_reply_t (dt ++ joined1) (pq_info q) (pq_elements q) with
                               | Ok vt => Some vt
                               | Err _ => None
                               end))
                      else (st1, sent1, Done None)
                end
            end
        end
    end.

  (* per request id: the Tag _send_requests stored (Some (value, type) = truthy) *)
  Definition results := list (Z * option (rvalue * text)).
  Fixpoint rget (i : Z) (rs : results) : option (option (rvalue * text)) :=
    match rs with
    | [] => None
    | (k, v) :: r => match rget i r with Some x => Some x | None => if k =? i then Some v else None end
    end.

  Fixpoint zget {A} (i : Z) (l : list (Z * A)) : option A :=
    match l with [] => None | (k, v) :: r => if k =? i then Some v else zget i r end.

  (* MultiServiceResponsePacket._parse_reply + the multi branch of _send_requests *)
  Fixpoint multi_results (datas : list bytes) (qs : list (Z * preq)) : results :=
    match qs with
    | [] => []
    | (i, q) :: qs' =>
        match datas with
        | d :: ds => (i, read_response (padding46 ++ d) (pq_info q) (pq_elements q)) :: multi_results ds qs'
        | [] => (i, None) :: multi_results [] qs'          (* no service reply for this request *)
        end
    end.

  (* MultiServiceResponsePacket._parse_reply: the service-reply byte ranges; nothing is split when the
     reply could not be parsed, is an encapsulation error, carries no data, or the split raises *)
  Definition multi_datas (raw : bytes) : list bytes :=
    let r := parse_unit raw in
    if is_some (r_error r) || negb (opt_is (r_command_status r) SUCCESS)
       || negb (match slice 49 50 raw with [0] => true | _ => false end) then [] else     (* raw[49:50] != b"\x00" *)
    match Reply.r_data r with
    | None => []
    | Some [] => []
    | Some data => match split_multi data with
                   | Reply.ROk ds => ds
                   | RErr _ _ => []
                   end
    end.

  (* the requests of a multi-service packet and their tag_only_message()s *)
  Fixpoint collect_reads (paths : list (Z * (preq * bytes))) (ids : list Z) : res (list (Z * preq) * list bytes) :=
    match ids with
    | [] => Ok ([], [])
    | i :: r =>
        match zget i paths with
        | None => Err (Foreign KeyError)
        | Some (q, path) =>
            let* m := read_message path (pq_elements q) in
            let* (qs, ms) := collect_reads paths r in Ok ((i, q) :: qs, m :: ms)
        end
    end.

  (* one packet of the plan *)
  Definition run_packet (fuel : nat) (cfg : ccfg) (paths : list (Z * (preq * bytes))) (st : St) (pk : packet)
    : St * list bytes * out results :=
    match pk with
    | PSingle i =>
        match zget i paths with
        | None => (st, [], Raise (Foreign KeyError))
        | Some (q, path) =>
            match read_message path (pq_elements q) with
            | Err e => (st, [], Raise e)
            | Ok msg =>
                match send st msg with
                | (st1, Done raw) => (st1, [msg], Done [(i, read_response raw (pq_info q) (pq_elements q))])
                | (st1, Raise e) => (st1, [msg], Raise e)
                | (st1, NoFuel) => (st1, [msg], NoFuel)
                end
            end
        end
    | PFrag i =>
        match zget i paths with
        | None => (st, [], Raise (Foreign KeyError))
        | Some (q, path) =>
            match frag_loop fuel st path q 0 true [] [] with
            | (st1, sent, Done r) => (st1, sent, Done [(i, r)])
            | (st1, sent, Raise e) => (st1, sent, Raise e)
            | (st1, sent, NoFuel) => (st1, sent, NoFuel)
            end
        end
    | PMulti ids =>
        match (let* (qs, ms) := collect_reads paths ids in let* msg := multi_message ms in Ok (qs, msg)) with
        | Err e => (st, [], Raise e)
        | Ok (qs, msg) =>
            match send st msg with
            | (st1, Done raw) => (st1, [msg], Done (multi_results (multi_datas raw) qs))
            | (st1, Raise e) => (st1, [msg], Raise e)
            | (st1, NoFuel) => (st1, [msg], NoFuel)
            end
        end
    | PRmw _ _ => (st, [], Raise (Foreign TypeError))       (* never planned for reads *)
    end.

  Fixpoint run_packets (fuel : nat) (cfg : ccfg) (paths : list (Z * (preq * bytes))) (st : St) (pks : list packet)
           (sent : list bytes) (acc : results) : St * list bytes * out results :=
    match pks with
    | [] => (st, sent, Done acc)
    | pk :: r =>
        match run_packet fuel cfg paths st pk with
        | (st1, s1, Done rs) => run_packets fuel cfg paths st1 r (sent ++ s1) (acc ++ rs)
        | (st1, s1, Raise e) => (st1, sent ++ s1, Raise e)
        | (st1, s1, NoFuel) => (st1, sent ++ s1, NoFuel)
        end
    end.

  (* read(): the per-tag post-processing *)
  Definition post_read (q : preq) (res : option (rvalue * text)) : rtag :=
    match res with
    | None => err_tag (pq_user q)
    | Some (v, t) =>
        if negb (text_eqb (ti_dtname (pq_info q)) txt_DWORD) then
          match pq_bit q with
          | Some b =>
              (* bool(result.value & 1 << bit) *)
              match v with
              | RInt z => ok_tag (pq_user q) (RBool (negb (Z.land z (Z.shiftl 1 b) =? 0))) txt_BOOL
              | RBool x => ok_tag (pq_user q) (RBool (negb (Z.land (if x then 1 else 0) (Z.shiftl 1 b) =? 0))) txt_BOOL
              | _ => err_tag (pq_user q)                    (* TypeError, caught per tag *)
              end
          | None => ok_tag (pq_plc q) v t
          end
        else
          let bit := match pq_bit q with Some b => b | None => 0 end in
          match v with
          | RList l =>
              match pq_bools q with
              | Some n =>
                  (* value[bit : bit + n] with Python's clamping (bit, n >= 0) *)
                  ok_tag (pq_user q) (RList (firstn (Z.to_nat n) (skipn (Z.to_nat bit) l)))
                         (txt_BOOL ++ [91] ++ print_int n ++ [93])
              | None =>
                  match nth_error l (Z.to_nat bit) with
                  | Some x => if 0 <=? bit then ok_tag (pq_user q) x txt_BOOL else err_tag (pq_user q)
                  | None => err_tag (pq_user q)              (* IndexError *)
                  end
              end
          | _ => err_tag (pq_user q)
          end
    end.

  (* _parse_requested_tags: id-indexed, errors kept in place *)
  Fixpoint parse_requested (tags : tagdb) (reqs : list text) (i : Z) : list (Z * text * res preq) :=
    match reqs with
    | [] => []
    | t :: r => (i, t, parse_tag_request tags t) :: parse_requested tags r (i + 1)
    end.

  (* the paths (request.build_message() of every valid request, in order); a request that cannot be
     built (an index that is not a number, a count that is not a UINT) fails alone *)
  Definition build_one (use_ids : bool) (q : preq) : res bytes :=
    let* p := read_path use_ids q in
    let* _ := read_message p (pq_elements q) in Ok p.
  Fixpoint build_paths (use_ids : bool) (parsed : list (Z * text * res preq)) : list (Z * (preq * bytes)) :=
    match parsed with
    | [] => []
    | (i, _, Ok q) :: r =>
        match build_one use_ids q with
        | Ok p => (i, (q, p)) :: build_paths use_ids r
        | Err _ => build_paths use_ids r            (* tag_data["error"] = "Failed to build request - ..." *)
        end
    | (_, _, Err _) :: r => build_paths use_ids r
    end.

  Definition plan_input (paths : list (Z * (preq * bytes))) (parsed : list (Z * text * res preq)) : list rreq :=
    map (fun e => let '(i, _, rq) := e in
           match rq, zget i paths with
           | Ok q, Some (_, p) =>
               {| r_id := i; r_err := false; r_data := ti_esize (pq_info q) * pq_elements q;
                  r_msg := 2 + (1 + len p + 2) |}
           | _, _ => {| r_id := i; r_err := true; r_data := 0; r_msg := 0 |}
           end) parsed.

  (* LogixDriver.read( tags... ) on an open connection: the Tags, the connected messages sent *)
  Definition read (fuel : nat) (cfg : ccfg) (tags : tagdb) (st : St) (reqs : list text)
    : St * list bytes * out (list rtag) :=
    let parsed := parse_requested tags reqs 0 in
    let paths := build_paths (c_use_ids cfg) parsed in
    let plan := read_build_requests (c_conn cfg) (c_micro800 cfg) (plan_input paths parsed) in
    match run_packets fuel cfg paths st plan [] [] with
    | (st1, sent, Done rs) =>
        (st1, sent,
         Done (map (fun e => let '(i, t, rq) := e in
                      match rq with
                      | Err _ => err_tag t
                      | Ok q => match rget i rs with
                                | Some r => post_read q r
                                | None => err_tag t       (* a build error recorded in tag_data, or a KeyError caught per tag *)
                                end
                      end) parsed))
    | (st1, sent, Raise e) => (st1, sent, Raise e)
    | (st1, sent, NoFuel) => (st1, sent, NoFuel)
    end.
End Client.

(* ================================================================ composition with the reference target *)
Import Spec.EncapParser Spec.MRParser Spec.TargetIface Spec.TargetCore Spec.TargetLogix.

(* what Spec/TargetCore.step_frame does with the connected data item [sequence count ++ msg] on an
   open connection whose O->T and T->O sizes are [conn], without the encapsulation around it *)
Definition target_peer (conn : Z) (st : tstate lstate) (msg : bytes) : tstate lstate * option bytes :=
  if conn <? 2 + EncapParser.blen msg then
    (logs [EvOversize conn (2 + EncapParser.blen msg); EvReply 21 4] st, Some [reply_service (nth 0 msg 0); 0; 21; 0])
  else
    match parse_mr msg with
    | RcOk rq => let '(st1, bs) := dispatch logix_handler (TConnected 0) (conn - 2) (Some 0) st rq in (st1, Some bs)
    | RcErr e =>
        let svc := nth 0 msg 0 in
        let bs := [reply_service svc; 0; if e =? 2 then 8 else 4; 0] in
        (logs [EvMalformed svc e; EvReply (reply_status bs) 4] st, Some bs)
    end.

Definition run_read (fuel : nat) (cfg : ccfg) (tags : tagdb) (st : tstate lstate) (reqs : list text)
  : tstate lstate * list bytes * out (list rtag) :=
  read (target_peer (c_conn cfg)) fuel cfg tags st reqs.
