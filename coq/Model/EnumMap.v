(* Model/EnumMap.v — model of pycomm3/map.py: MapMeta.__new__, __getitem__, get, __contains__, _key;
   DataTypes.get_type; packets/util.get_service_status.  ASCII case mapping only. *)
From Coq Require Import String.
From PV Require Import Base.Bytes Base.Proto Model.EnumMapDefs.
Open Scope Z_scope.

Definition lower_c (c : Z) : Z := if (65 <=? c) && (c <=? 90) then c + 32 else c.
Definition upper_c (c : Z) : Z := if (97 <=? c) && (c <=? 122) then c - 32 else c.
Definition lower (s : list Z) : list Z := map lower_c s.
Definition upper (s : list Z) : list Z := map upper_c s.

Definition key_eqb (a b : key) : bool :=
  match a, b with
  | KStr x, KStr y => zs_eqb x y
  | KBytes x, KBytes y => zs_eqb x y
  | KInt x, KInt y => x =? y
  | KObj x, KObj y => zs_eqb x y
  | _, _ => false
  end.

(* a Python dict built by insertion/merge: lookup returns the LAST binding of the key *)
Definition pydict := list (key * key).
Fixpoint lookup (d : pydict) (k : key) : option key :=
  match d with
  | [] => None
  | (k', v) :: r => match lookup r k with
                    | Some v' => Some v'
                    | None => if key_eqb k' k then Some v else None
                    end
  end.

Definition mem_name (ms : list (list Z * key)) (n : list Z) : bool :=
  existsb (fun '(n', _) => zs_eqb n' n) ms.

Section WithCodes.
  Variable type_codes : list (list Z * Z).   (* class name -> CIP code, from Gen/Types.v *)

  Fixpoint code_of (tc : list (list Z * Z)) (n : list Z) : option Z :=
    match tc with
    | [] => None
    | (n', c) :: r => if zs_eqb n' n then Some c else code_of r n
    end.

  (* _value_key_(value) *)
  Definition vkey (t : table) (v : key) : key :=
    match t_vk t with
    | VKDefault => v
    | VKTypeCode => match v with
                    | KObj n => match code_of type_codes n with Some c => KInt c | None => v end
                    | _ => v
                    end
    end.

  (* MapMeta.__new__ : {**members, **lower_members, **value_map} *)
  Definition members_d (t : table) : pydict := map (fun '(n, v) => (KStr n, v)) (t_members t).
  Definition lower_members_d (t : table) : pydict :=
    flat_map (fun '(n, v) => if mem_name (t_members t) (lower n) then [] else [(KStr (lower n), v)])
             (t_members t).
  Definition value_map_d (t : table) : pydict :=
    if t_bidir t then map (fun '(n, v) => (vkey t v, KStr (lower n))) (t_members t) else [].
  Definition merged (t : table) : pydict := members_d t ++ lower_members_d t ++ value_map_d t.

  Definition norm_key (k : key) : key := match k with KStr s => KStr (lower s) | _ => k end.
  Definition caps (t : table) (v : key) : key :=
    match v with KStr s => if t_caps t then KStr (upper s) else v | _ => v end.

  (* cls[item] : None = KeyError *)
  Definition getitem (t : table) (k : key) : option key := option_map (caps t) (lookup (merged t) (norm_key k)).
  (* cls.get(item, default) *)
  Definition get (t : table) (k : key) (default : option key) : option key :=
    match lookup (merged t) (norm_key k) with
    | Some v => Some (caps t v)
    | None => option_map (caps t) default
    end.
  Definition contains (t : table) (k : key) : bool :=
    match lookup (merged t) (norm_key k) with Some _ => true | None => false end.

  (* DataTypes.get_type(code) = cls.get(cls.get(code)) *)
  Definition get_type (t : table) (code : Z) : option key :=
    match get t (KInt code) None with
    | Some k => get t k None
    | None => None  (* cls.get(None): None is not a key *)
    end.
End WithCodes.

(* packets/util.get_service_status: SERVICE_STATUS.get(status, f"Unknown Error ({status:0>2x})") *)
Fixpoint ilookup (d : list (Z * list Z)) (k : Z) : option (list Z) :=
  match d with
  | [] => None
  | (k', v) :: r => match ilookup r k with Some v' => Some v' | None => if k' =? k then Some v else None end
  end.

(* f"{n:0>2x}" for n >= 0: lower-case hex, left-padded with '0' to at least two characters *)
Fixpoint hex_digits (fuel : nat) (n : Z) (acc : list Z) : list Z :=
  match fuel with
  | O => acc
  | S f => let acc' := hexdigit (n mod 16) :: acc in
           if n <? 16 then acc' else hex_digits f (n / 16) acc'
  end.
Definition hex_min2 (n : Z) : list Z :=
  let d := hex_digits (S (Z.to_nat (Z.log2 n))) n [] in
  match d with [_] => 48 :: d | _ => d end.

Definition unknown_error_prefix : list Z := zs_of_string "Unknown Error ("%string.
Definition get_service_status (tbl : list (Z * list Z)) (status : Z) : list Z :=
  match ilookup tbl status with
  | Some s => s
  | None => unknown_error_prefix ++ hex_min2 status ++ [41]
  end.
