(* Model/LogixPlan.v — the request planners of LogixDriver, over what they look at:
   _read_build_requests / _read_build_multi_requests / _read_build_single_request,
   _write_build_requests / _write_build_multi_requests / _write_build_single_request,
   and the fragment loops of _send_write_fragmented / _send_read_fragmented.
   A parsed request is abstracted to the quantities the planner reads (ids, error flags, sizes,
   the plc tag of a bit write); Model/LogixParse.v / the packet models supply them from concrete
   requests.  MULTISERVICE_READ_OVERHEAD comes from Gen/Consts.v.  Definitions only. *)
From PV Require Import Base.Bytes.
From PV Require Gen.Consts.
Open Scope Z_scope.

Definition OVH : Z := Gen.Consts.MULTISERVICE_READ_OVERHEAD.

(* packets a plan consists of, by request id *)
Inductive packet :=
  | PMulti (ids : list Z)              (* MultiServiceRequestPacket over these requests *)
  | PSingle (id : Z)                   (* ReadTagRequestPacket / WriteTagRequestPacket sent on its own *)
  | PFrag (id : Z)                     (* Read/WriteTagFragmentedRequestPacket.from_request *)
  | PRmw (rid : Z) (ids : list Z).     (* ReadModifyWriteRequestPacket with request id rid (negative), merged bit writes *)

(* ---- the grouping loop shared by both multi planners:
   grouped = [[]]; cur = grouped[0]; size = OVH
   for req: if size + sz(req) > conn: cur = []; grouped.append(cur); size = OVH
            cur.append(req); size += sz(req) *)
Fixpoint group_loop (conn : Z) (sized : list (Z * Z)) (cur : list (Z * Z)) (cur_size : Z) (done : list (list (Z * Z)))
  : list (list (Z * Z)) :=
  match sized with
  | [] => rev (rev cur :: done)
  | (i, sz) :: rest =>
      if cur_size + sz >? conn then group_loop conn rest [(i, sz)] (OVH + sz) (rev cur :: done)
      else group_loop conn rest ((i, sz) :: cur) (cur_size + sz) done
  end.
(* groups of (request id, size the planner attributes to it) *)
Definition groups_sized (conn : Z) (sized : list (Z * Z)) : list (list (Z * Z)) := group_loop conn sized [] OVH [].
Definition groups (conn : Z) (sized : list (Z * Z)) : list (list Z) := map (map fst) (groups_sized conn sized).

Definition is_nil {A} (l : list A) : bool := match l with [] => true | _ => false end.

(* ---- reads *)
Record rreq := {
  r_id : Z;            (* request_id = position in the call *)
  r_err : bool;        (* parsing failed: tag_data["error"] *)
  r_data : Z;          (* _tag_return_size: element size x elements *)
  r_msg : Z            (* len(request.message) of its ReadTagRequestPacket: 2 (sequence) + 1 + path + 2 *)
}.

Definition r_est (r : rreq) : Z := r_data r + r_msg r + 2.
Definition r_frag (conn : Z) (r : rreq) : bool := r_est r + OVH >? conn.

Definition read_build_multi (conn : Z) (reqs : list rreq) : list packet :=
  let valid := filter (fun r => negb (r_err r)) reqs in
  let frags := filter (r_frag conn) valid in
  let grouped := filter (fun r => negb (r_frag conn r)) valid in
  let gs := groups conn (map (fun r => (r_id r, r_est r)) grouped) in
  (match gs with
   | g0 :: _ => if is_nil g0 then [] else map PMulti gs      (* `if grouped_requests[0]:` *)
   | [] => []
   end) ++ map (fun r => PFrag (r_id r)) frags.

Definition read_build_single (conn : Z) (r : rreq) : option packet :=
  if r_err r then None
  else Some (if r_data r + r_msg r >? conn then PFrag (r_id r) else PSingle (r_id r)).

Fixpoint filter_map {A B} (f : A -> option B) (l : list A) : list B :=
  match l with
  | [] => []
  | a :: r => match f a with Some b => b :: filter_map f r | None => filter_map f r end
  end.

Definition read_build_requests (conn : Z) (micro800 : bool) (reqs : list rreq) : list packet :=
  if negb (length reqs =? 1)%nat && negb micro800 then read_build_multi conn reqs
  else filter_map (read_build_single conn) reqs.

(* ---- writes *)
Record wreq := {
  w_id : Z;
  w_err : bool;         (* parsing failed *)
  w_bit : bool;         (* bit is not None and bool_elements is None: a read-modify-write *)
  w_tag : list Z;       (* plc_tag: bit writes to the same tag are merged *)
  w_enc_err : bool;     (* encode_value raised: tag_data["error"] is set, request skipped *)
  w_msg : Z;            (* len(request.message) of its WriteTagRequestPacket, value included *)
  w_val : Z             (* len(write_value) *)
}.

Fixpoint zs_eqb (a b : list Z) : bool :=
  match a, b with
  | [], [] => true
  | x :: a', y :: b' => (x =? y) && zs_eqb a' b'
  | _, _ => false
  end.

(* bit_writes: insertion-ordered dict plc_tag -> (request id of the packet, merged request ids) *)
Fixpoint rmw_add (tag : list Z) (id : Z) (n : Z) (bw : list (list Z * (Z * list Z))) : list (list Z * (Z * list Z)) :=
  match bw with
  | [] => [(tag, (- (1 + n), [id]))]
  | (t, (rid, ids)) :: rest =>
      if zs_eqb t tag then (t, (rid, ids ++ [id])) :: rest
      else (t, (rid, ids)) :: rmw_add tag id n rest
  end.

Definition w_fragm (conn : Z) (w : wreq) : bool := w_msg w + OVH >? conn.

(* one pass over the requests: (bit_writes, fragmented ids, write_requests (id, len(message))), all in order *)
Fixpoint write_scan (conn : Z) (reqs : list wreq) (bw : list (list Z * (Z * list Z))) (frags : list Z) (wr : list (Z * Z))
  : list (list Z * (Z * list Z)) * list Z * list (Z * Z) :=
  match reqs with
  | [] => (bw, rev frags, rev wr)
  | w :: rest =>
      if w_err w then write_scan conn rest bw frags wr
      else if w_bit w then write_scan conn rest (rmw_add (w_tag w) (w_id w) (Z.of_nat (length bw)) bw) frags wr
      else if w_enc_err w then write_scan conn rest bw frags wr
      else if w_fragm conn w then write_scan conn rest bw (w_id w :: frags) wr
      else write_scan conn rest bw frags ((w_id w, w_msg w) :: wr)
  end.

Definition write_build_multi (conn : Z) (reqs : list wreq) : list packet :=
  let '(bw, frags, wr) := write_scan conn reqs [] [] [] in
  map PMulti (filter (fun g => negb (is_nil g)) (groups conn wr))
  ++ map PFrag frags
  ++ map (fun e => PRmw (fst (snd e)) (snd (snd e))) bw.

Definition write_build_single (conn : Z) (w : wreq) : option packet :=
  if w_err w then None
  else if w_bit w then Some (PRmw (- (1 + w_id w)) [w_id w])
  else if w_enc_err w then None          (* RequestError from encode_value is caught: error recorded, no packet *)
  else Some (if w_val w + w_msg w >? conn then PFrag (w_id w) else PSingle (w_id w)).

Definition write_build_requests (conn : Z) (micro800 : bool) (reqs : list wreq) : list packet :=
  if negb (length reqs =? 1)%nat && negb micro800 then write_build_multi conn reqs
  else filter_map (write_build_single conn) reqs.

(* ---- fragmented write: segments of `segment_size = conn - (len(message) - len(value))` bytes,
   offsets 0, |s1|, |s1|+|s2|, ...   ([fuel] >= length value suffices: each segment is non-empty) *)
Fixpoint chunks (fuel : nat) (n : nat) (value : bytes) : list bytes :=
  match fuel with
  | O => []
  | S f => match value with
           | [] => []
           | _ => firstn n value :: chunks f n (skipn n value)
           end
  end.

Fixpoint offsets_from (o : Z) (segs : list bytes) : list Z :=
  match segs with
  | [] => []
  | s :: r => o :: offsets_from (o + Z.of_nat (length s)) r
  end.

(* (offset, segment) pairs _send_write_fragmented emits; ovh = len(request.message) - len(request.value) *)
Definition write_fragments (conn ovh : Z) (value : bytes) : list (Z * bytes) :=
  let n := Z.to_nat (conn - ovh) in
  let segs := chunks (length value) n value in
  combine (offsets_from 0 segs) segs.

(* ---- fragmented read: the target answers each request (offset) with a fragment; status 6 = more.
   [replies] = the fragments the peer returns, in order, with their "more follows" flag.
   Returns the offsets requested and the reassembled bytes; None = fuel exhausted / peer stopped early. *)
Fixpoint read_fragments (replies : list (bytes * bool)) (offset : Z) (acc_off : list Z) (acc : bytes)
  : option (list Z * bytes) :=
  match replies with
  | [] => None                                  (* the loop is still waiting for a reply *)
  | (frag, more) :: rest =>
      if more then read_fragments rest (offset + Z.of_nat (length frag)) (offset :: acc_off) (acc ++ frag)
      else Some (rev (offset :: acc_off), acc ++ frag)
  end.

(* ---- connection size negotiation: cip_driver.with_forward_open + the size field of _forward_open.
   [ext] = _cfg["extended forward open"], [csize] = _cfg["connection_size"] (what every planner and
   fragment loop above uses as [conn]). *)
Record fo_state := { fo_ext : bool; fo_csize : Z }.
(* the connection-size bits _forward_open puts into the network parameters *)
Definition fo_size_field (st : fo_state) : Z :=
  if fo_ext st then Z.land (fo_csize st) 65535 else Z.land (fo_csize st) 511.
(* with_forward_open against a target that accepts or refuses each kind:
   (attempts as (large?, size field), driver state afterwards, opened?) *)
Definition negotiate (st : fo_state) (accept_large accept_std : bool) : list (bool * Z) * fo_state * bool :=
  let a1 := (fo_ext st, fo_size_field st) in
  if fo_ext st then
    if accept_large then ([a1], st, true)
    else let st' := {| fo_ext := false; fo_csize := 500 |} in
         ([a1; (false, fo_size_field st')], st', accept_std)
  else ([a1], st, accept_std).
