(* Model/CodecDom.v — the computable side conditions of the codec theorems (C06 round trip):
     wf_ty   : ty -> bool           type terms for which the round-trip law is claimed
     in_dom  : ty -> val -> bool    values in the domain of a type
     norm    : ty -> val -> val     the value decode returns for an in-domain input (identity up to
                                    the documented normalisations: REAL rounded to binary32,
                                    over-long input to a fixed array truncated, positional struct
                                    input becomes a dict, unnamed members dropped, STRINGI's
                                    (strings, langs, char_sets) shape, identity-object tables)
     greedy  : ty -> bool           types whose decoder consumes the whole remaining buffer
   Definitions only; the theorems are in Proofs/CodecRT*.v and Props/C06.v.  Every class excluded
   by wf_ty / in_dom is listed with its reason in coq/Model/CODEC_README.md. *)
From Coq Require Import String.
From PV Require Import Base.Bytes Base.Res Base.Proto Gen.Types Gen.CodecFacts Model.Codec.
Open Scope Z_scope.

Section ListHelpers.
  Context {A B C : Type}.
  Variable f2 : A -> B -> bool.
  Fixpoint forallb2 (la : list A) (lb : list B) : bool :=
    match la, lb with
    | [], [] => true
    | a :: la', b :: lb' => f2 a b && forallb2 la' lb'
    | _, _ => false
    end.
  Variable g2 : A -> B -> list C.
  Fixpoint flat_map2 (la : list A) (lb : list B) : list C :=
    match la, lb with
    | a :: la', b :: lb' => g2 a b ++ flat_map2 la' lb'
    | _, _ => []
    end.
  Variable f : A -> bool.
  (* f holds of the last element (false on the empty list) *)
  Fixpoint lastb (l : list A) : bool :=
    match l with
    | [] => false
    | a :: r => match r with [] => f a | _ :: _ => lastb r end
    end.
  (* f holds of every element but the last *)
  Fixpoint initb (l : list A) : bool :=
    match l with
    | [] => true
    | a :: r => match r with [] => true | _ :: _ => f a && initb r end
    end.
End ListHelpers.
Arguments forallb2 {A B} f2 la lb.
Arguments flat_map2 {A B C} g2 la lb.
Arguments lastb {A} f l.
Arguments initb {A} f l.
Definition headb {A} (f : A -> bool) (l : list A) : bool :=
  match l with [] => false | a :: _ => f a end.

Definition unnamed (k : key) : bool := match k with None => true | Some [] => true | Some _ => false end.
Fixpoint keys_nodup (ks : list key) : bool :=
  match ks with
  | [] => true
  | k :: r => negb (existsb (keyb k) r) && keys_nodup r
  end.

(* the decoder reads to the end of the buffer: the law holds with nothing after the encoding *)
Fixpoint greedy (t : ty) : bool :=
  match t with
  | TNBytes n => n <? 0
  | TArrAll _ => true
  | TPcccString => true
  | TStruct _ ms => lastb (fun m => greedy (snd m)) ms
  | _ => false
  end.

Fixpoint sum_opt (l : list (option nat)) : option nat :=
  match l with
  | [] => Some O
  | Some a :: r => match sum_opt r with Some b => Some (a + b)%nat | None => None end
  | None :: _ => None
  end.

(* the number of bytes every in-domain value of the type encodes to, when that is a constant *)
Fixpoint fixed_width (t : ty) : option nat :=
  match t with
  | TBool => Some 1%nat
  | TInt _ w => Some w
  | TReal dbl => Some (if dbl then 8 else 4)%nat
  | TDateTime => Some 6%nat
  | TNBytes n => if 0 <=? n then Some (Z.to_nat n) else None
  | TBits w => Some w
  | TFixedStr size _ lw _ => Some (lw + size)%nat
  | TIPAddr => Some 4%nat
  | TPcccAscii => Some 2%nat
  | TArrFixed n e => match fixed_width e with Some w => Some (n * w)%nat | None => None end
  | TStructTag _ _ _ size => Some size
  | _ => None
  end.

(* on the empty buffer the decoder raises BufferEmptyError, and every in-domain value encodes to
   at least one byte: what Array(None, T) needs of its element type *)
Fixpoint consumes (t : ty) : bool :=
  match t with
  | TBool | TReal _ | TDateTime | TStringN | TStringI | TIPAddr => true
  | TInt _ w | TBits w => (0 <? w)%nat
  | TNBytes n => 0 <? n
  | TStr _ lw _ => (0 <? lw)%nat
  | TFixedStr _ _ lw _ => (0 <? lw)%nat
  | TArrFixed n e => (0 <? n)%nat && consumes e
  | TStruct _ ms => headb (fun m => consumes (snd m)) ms
  | TStructTag ms _ _ size => (0 <? size)%nat && headb (fun m => consumes (snd m)) ms
  | _ => false
  end.

(* decodes every byte string of its fixed width (hidden host members of a StructTag are decoded
   from whatever the bit members wrote) *)
Fixpoint always_decodes (t : ty) : bool :=
  match t with
  | TBool | TReal _ | TDateTime | TIPAddr => true
  | TInt _ w | TBits w => (0 <? w)%nat
  | TNBytes n => 0 <=? n
  | TArrFixed n e => always_decodes e
  | _ => false
  end.

(* ---- StructTag layout: members in increasing, non-overlapping extents inside [size] *)
Fixpoint layout_ok (pos : nat) (l : list (nat * option nat)) (size : nat) : bool :=
  match l with
  | [] => (pos <=? size)%nat
  | (off, Some w) :: r => (pos <=? off)%nat && layout_ok (off + w) r size
  | (_, None) :: _ => false
  end.
Definition in_extent (off : nat) (e : nat * option nat) : bool :=
  match e with (o, Some w) => (o <=? off)%nat && (off <? o + w)%nat | _ => true end.
Fixpoint bitpos_nodup (l : list (nat * nat)) : bool :=
  match l with
  | [] => true
  | (o, b) :: r => negb (existsb (fun p => (fst p =? o)%nat && (snd p =? b)%nat) r) && bitpos_nodup r
  end.

(* members anywhere inside [size], pairwise disjoint, in ANY order (each is read after a seek) *)
Definition ext_disjoint (a b : nat * option nat) : bool :=
  match a, b with
  | (o1, Some w1), (o2, Some w2) => (o1 + w1 <=? o2)%nat || (o2 + w2 <=? o1)%nat
  | _, _ => false
  end.
Fixpoint extents_ok (l : list (nat * option nat)) (size : nat) : bool :=
  match l with
  | [] => true
  | e :: r => match e with (o, Some w) => (o + w <=? size)%nat | _ => false end
              && forallb (ext_disjoint e) r && extents_ok r size
  end.

Definition stag_layout (ms : list ((key * nat) * ty)) : list (nat * option nat) :=
  map (fun m => (snd (fst m), fixed_width (snd m))) ms.
Definition stag_visible_extents (ms : list ((key * nat) * ty)) (priv : list text) : list (nat * option nat) :=
  map (fun m => (snd (fst m), fixed_width (snd m))) (filter (fun m => negb (key_in (fst (fst m)) priv)) ms).

Definition struct_kind_ok (k : skind) : bool := match k with SListIdentity => false | _ => true end.

Fixpoint wf_ty (t : ty) : bool :=
  match t with
  | TBool | TReal _ | TDateTime | TStringN | TStringI | TIPAddr | TPcccAscii | TPcccString => true
  | TInt _ w | TBits w => (0 <? w)%nat
  | TStr _ lw _ => (0 <? lw)%nat
  | TNBytes n => -1 <=? n
  | TArrFixed n e => wf_ty e && negb (greedy e)
  | TArrPrefix _ _ _ => false                (* encode writes no length prefix (documented): decode (encode v) would
                                                read the first element as the count; see roundtrip_prefixed *)
  | TArrAll e => wf_ty e && negb (greedy e) && consumes e
  | TStruct k ms =>
      struct_kind_ok k
      && forallb (fun m => wf_ty (snd m)) ms
      && initb (fun m => negb (greedy (snd m))) ms
      && keys_nodup (filter (fun k => negb (unnamed k)) (map fst ms))
  | TFixedStr size _ lw _ => (0 <? lw)%nat
  | TStructTag ms bits priv size =>
      forallb (fun m => wf_ty (snd m) && negb (greedy (snd m))) ms
      && extents_ok (stag_layout ms) size
      && keys_nodup (map (fun m => fst (fst m)) ms ++ map (fun b => Some (fst b)) bits)
      && forallb (fun m => negb (key_in (fst (fst m)) priv) || always_decodes (snd m)) ms
      && forallb (fun b => negb (mem_text (fst b) priv)
                           && (fst (snd b) <? size)%nat && (snd (snd b) <? 8)%nat
                           && negb (existsb (in_extent (fst (snd b))) (stag_visible_extents ms priv))) bits
      && bitpos_nodup (map snd bits)
  end.

(* ---- scalar domains *)
Definition single_byte (e : tenc) (c : Z) : bool :=
  match e with
  | Latin1 => (0 <=? c) && (c <? 256)
  | Utf8 => (0 <=? c) && (c <? 128)
  | _ => false                                (* STRING2: the count is in characters, the read in bytes *)
  end.
Definition real_dom (dbl : bool) (b : Z) : bool :=
  b64_ok b && (negb (is_nan64 b) || (b =? nan64)) &&
  (if dbl then true else match round32 b with Some s => in_urange 4 s | None => false end).
Definition real_norm (dbl : bool) (b : Z) : Z :=
  if dbl then b else match round32 b with Some s => widen32 s | None => b end.

(* the text codec inverts on [s], to a whole number of code units: Latin-1 text below U+0100,
   UTF-16 text of scalar values (Proofs/CodecRTBase.v: latin1_inverts, utf16_inverts) *)
Definition codec_inverts (e : tenc) (s : text) : bool :=
  match text_encode e s with
  | Ok d => (zlen d mod enc_char_size e =? 0)
            && match text_decode e d with Ok s' => text_eqb s' s | Err _ => false end
  | Err _ => false
  end.
Definition code_units (e : tenc) (s : text) : Z :=
  match text_encode e s with Ok d => zlen d / enc_char_size e | Err _ => 0 end.
Definition str_dom (lsg : bool) (lw : nat) (e : tenc) (s : text) : bool :=
  codec_inverts e s && int_in_range lsg lw (code_units e s).
Definition stringn_dom (s : text) : bool :=
  in_urange 2 (zlen s) && forallb (single_byte Latin1) s.

(* the domain of a string type class named in a STRINGI item *)
Definition named_str_dom (n : text) (s : text) : bool :=
  match ty_of_name n with
  | Some (TStr a b c) => (0 <? b)%nat && str_dom a b c s
  | Some TStringN => stringn_dom s
  | _ => false
  end.
Definition stringi_item_dom (v : val) : bool :=
  match v with
  | VTuple [VStr s; VType n; VStr lang; VInt cs] =>
      match find_row type_rows n with
      | Some r => match zlookup stringi_string_types (row_code r) with
                  | Some n' => text_eqb n' n && named_str_dom n s
                  | None => false
                  end
      | None => false
      end
      && (length lang =? 3)%nat && forallb (single_byte Latin1) lang && all_ascii lang
      && in_urange 2 cs
  | _ => false
  end.
Definition stringi_item_norm (v : val) : val :=
  match v with
  | VTuple [s; _; lang; cs] => VTuple [VList [s]; VList [lang]; VList [cs]]
  | _ => v
  end.

Definition ip_dom (s : text) : bool :=
  match parse_ipv4 s with Some _ => true | None => false end.

Definition is_vbool (v : val) : bool := match v with VBool _ => true | _ => false end.

(* the dict Struct._decode returns for members [ms] given the member values *)
Definition named_entry (k : key) (v : val) : list (key * val) := if unnamed k then [] else [(k, v)].

Fixpoint norm (t : ty) (v : val) : val :=
  match t with
  | TReal dbl => match v with VFloat b => VFloat (real_norm dbl b) | _ => v end
  | TStringI => stringi_item_norm v
  | TFixedStr _ _ _ cap => match v with VStr s => VStr (firstn cap s) | _ => v end
  | TArrFixed n e =>
      match v with
      | VList l => match e with TBits _ => v | _ => VList (map (norm e) (firstn n l)) end
      | _ => v
      end
  | TArrAll e => match v with VList l => match e with TBits _ => v | _ => VList (map (norm e) l) end | _ => v end
  | TStruct k ms =>
      let plain := fun v' =>
        match v' with
        | VDict d => VDict (flat_map (fun m => match dict_get d (fst m) with
                                              | Ok x => named_entry (fst m) (norm (snd m) x)
                                              | Err _ => []
                                              end) ms)
        | VList l => VDict (flat_map2 (fun m x => named_entry (fst m) (norm (snd m) x)) ms l)
        | _ => v'
        end in
      match k with
      | SPlain => plain v
      | _ => match identity_pre v with
             | Ok v' => match plain v' with
                        | VDict d' => match identity_post d' with Ok d'' => VDict d'' | Err _ => v end
                        | _ => v
                        end
             | Err _ => v
             end
      end
  | TStructTag ms bits priv size =>
      match v with
      | VDict d =>
          VDict (flat_map (fun m => if key_in (fst (fst m)) priv then []
                                    else match dict_get d (fst (fst m)) with
                                         | Ok x => [(fst (fst m), norm (snd m) x)]
                                         | Err _ => []
                                         end) ms
                 ++ flat_map (fun b => match dict_get d (Some (fst b)) with Ok x => [(Some (fst b), x)] | Err _ => [] end) bits)
      | _ => v
      end
  | _ => v
  end.

Fixpoint in_dom (t : ty) (v : val) : bool :=
  match t with
  | TBool => is_vbool v
  | TInt sg w => match v with VInt z => int_in_range sg w z | _ => false end
  | TReal dbl => match v with VFloat b => real_dom dbl b | _ => false end
  | TDateTime => match v with
                 | VTuple [VInt time; VInt date] => in_urange 4 time && in_urange 2 date
                 | _ => false
                 end
  | TStr lsg lw e => match v with VStr s => str_dom lsg lw e s | _ => false end
  | TStringN => match v with VStr s => stringn_dom s | _ => false end
  | TStringI => stringi_item_dom v
  | TNBytes n => match v with
                 | VBytes b => bytes_ok b && (if n <? 0 then negb (zlen b =? 0) else zlen b =? n)
                 | _ => false
                 end
  | TBits w => match v with VList l => (zlen l =? 8 * Z.of_nat w) && forallb is_vbool l | _ => false end
  | TArrFixed n e =>
      match v with
      | VList l =>
          match e with
          | TBits w => (zlen l =? Z.of_nat n * (8 * Z.of_nat w)) && forallb is_vbool l
          | _ => (Z.of_nat n <=? zlen l) && forallb (in_dom e) (firstn n l)
          end
      | _ => false
      end
  | TArrPrefix _ _ _ => false
  | TArrAll e =>
      match v with
      | VList l => match e with
                   | TBits w => (zlen l mod (8 * Z.of_nat w) =? 0) && forallb is_vbool l
                   | _ => forallb (in_dom e) l
                   end
      | _ => false
      end
  | TStruct k ms =>
      let plain := fun v' =>
        match v' with
        | VDict d => forallb (fun m => match dict_get d (fst m) with Ok x => in_dom (snd m) x | Err _ => false end) ms
        | VList l => forallb2 (fun m x => in_dom (snd m) x) ms l
        | _ => false
        end in
      match k with
      | SPlain => plain v
      | SModuleIdentity =>
          match v with
          | VDict _ =>
              match identity_pre v with
              | Ok v' => plain v'
                         && match norm (TStruct SPlain ms) v' with
                            | VDict d' => match identity_post d' with Ok _ => true | Err _ => false end
                            | _ => false
                            end
              | Err _ => false
              end
          | _ => false
          end
      | SListIdentity => false
      end
  | TFixedStr size lsg lw cap =>
      match v with
      | VStr s => str_dom lsg lw Latin1 (firstn cap s) && (length (firstn cap s) <=? size)%nat
      | _ => false
      end
  | TStructTag ms bits priv size =>
      match v with
      | VDict d =>
          forallb (fun m => key_in (fst (fst m)) priv
                            || match dict_get d (fst (fst m)) with Ok x => in_dom (snd m) x | Err _ => false end) ms
          && forallb (fun b => match dict_get d (Some (fst b)) with Ok x => is_vbool x | Err _ => false end) bits
      | _ => false
      end
  | TIPAddr => match v with VStr s => ip_dom s | _ => false end
  | TPcccAscii => match v with VStr s => (length s =? 2)%nat && forallb (single_byte Latin1) s | _ => false end
  | TPcccString => match v with
                   | VStr s => Nat.even (length s) && (length s <=? 82)%nat && forallb (single_byte Latin1) s
                   | _ => false
                   end
  end.


(* ------------------------------------------------------------------ the DOCUMENTED domain *)
(* [doc_dom t v]: [t] is a type the constructors are documented to build and [v] a value its
   documentation accepts — independently of what the code does with it.  Props/C06.v states the
   round-trip law over [doc_dom] (C06_full) and proves it over [wf_ty]/[in_dom]; every (t, v) in
   [doc_dom] but outside [wf_ty]/[in_dom] is a deviation of the code. *)
Definition encodable (e : tenc) (s : text) : bool :=
  match text_encode e s with Ok _ => true | Err _ => false end.
Definition doc_str_dom (lsg : bool) (lw : nat) (e : tenc) (s : text) : bool :=
  (0 <? lw)%nat && int_in_range lsg lw (code_units e s) && encodable e s.
Definition doc_named_str_dom (n : text) (s : text) : bool :=
  match ty_of_name n with
  | Some (TStr a b c) => doc_str_dom a b c s
  | Some TStringN => in_urange 2 (zlen s) && forallb (single_byte Latin1) s
  | _ => false
  end.
Definition is_int_type (t : ty) : option (bool * nat) := match t with TInt sg w => Some (sg, w) | _ => None end.

(* types DOCUMENTED to consume the whole remaining buffer: n_bytes(-1), Array(None, T) (and a
   structure ending in one) *)
Fixpoint doc_greedy (t : ty) : bool :=
  match t with
  | TNBytes n => n =? -1
  | TArrAll _ => true
  | TStruct _ ms => lastb (fun m => doc_greedy (snd m)) ms
  | _ => false
  end.

(* type terms the constructors are documented to build (sizes, nesting of buffer-consuming types,
   template layouts), independently of any value *)
Fixpoint doc_wf (t : ty) : bool :=
  match t with
  | TInt _ w | TBits w => (0 <? w)%nat
  | TStr _ lw _ => (0 <? lw)%nat
  | TNBytes n => -1 <=? n
  | TArrFixed _ e => doc_wf e && negb (greedy e)
  | TArrPrefix _ lt e =>
      match is_int_type lt with Some (_, w) => (0 <? w)%nat | None => false end && doc_wf e && negb (greedy e)
  | TArrAll e => doc_wf e && negb (greedy e) && (is_bits e || consumes e)
  | TStruct _ ms =>
      forallb (fun m => doc_wf (snd m)) ms && initb (fun m => negb (greedy (snd m))) ms
      && keys_nodup (filter (fun k => negb (unnamed k)) (map fst ms))
  | TFixedStr size _ lw cap => (cap <=? size)%nat && (0 <? lw)%nat
  | TStructTag ms bits priv size =>
      (* a template: members at increasing non-overlapping offsets inside [size], hidden members of
         plain integer / bit-string kind, BOOL members in hidden hosts or padding, distinct names *)
      forallb (fun m => doc_wf (snd m) && negb (greedy (snd m))) ms
      && extents_ok (stag_layout ms) size
      && keys_nodup (map (fun m => fst (fst m)) ms ++ map (fun b => Some (fst b)) bits)
      && forallb (fun m => negb (key_in (fst (fst m)) priv) || always_decodes (snd m)) ms
      && forallb (fun b => negb (mem_text (fst b) priv)
                           && (fst (snd b) <? size)%nat && (snd (snd b) <? 8)%nat
                           && negb (existsb (in_extent (fst (snd b))) (stag_visible_extents ms priv))) bits
      && bitpos_nodup (map snd bits)
  | _ => true
  end.

Fixpoint doc_val (t : ty) (v : val) : bool :=
  match t with
  | TBool => is_vbool v
  | TInt sg w => (0 <? w)%nat && match v with VInt z => int_in_range sg w z | _ => false end
  | TReal dbl => match v with
                 | VFloat b => b64_ok b && (negb (is_nan64 b) || (b =? nan64))
                               && (if dbl then true else match round32 b with Some _ => true | None => false end)
                 | _ => false
                 end
  | TDateTime => match v with
                 | VTuple [VInt time; VInt date] => in_urange 4 time && in_urange 2 date
                 | _ => false
                 end
  | TStr lsg lw e => match v with VStr s => doc_str_dom lsg lw e s | _ => false end
  | TStringN => match v with VStr s => in_urange 2 (zlen s) && forallb (single_byte Latin1) s | _ => false end
  | TStringI =>
      match v with
      | VTuple [VStr s; VType n; VStr lang; VInt cs] =>
          match find_row type_rows n with
          | Some r => match zlookup stringi_string_types (row_code r) with
                      | Some n' => text_eqb n' n && doc_named_str_dom n s
                      | None => false
                      end
          | None => false
          end
          && (length lang =? 3)%nat && all_ascii lang && in_urange 2 cs
      | _ => false
      end
  | TNBytes n => match v with
                 | VBytes b => bytes_ok b && (if n =? -1 then negb (zlen b =? 0) else (0 <=? n) && (zlen b =? n))
                 | _ => false
                 end
  | TBits w => (0 <? w)%nat && match v with VList l => (zlen l =? 8 * Z.of_nat w) && forallb is_vbool l | _ => false end
  | TArrFixed n e =>
      match v with
      | VList l =>
          match e with
          | TBits w => (0 <? w)%nat && (Z.of_nat n * (8 * Z.of_nat w) <=? zlen l) && forallb is_vbool l
          | _ => negb (greedy e) && (Z.of_nat n <=? zlen l) && forallb (doc_val e) (firstn n l)
          end
      | _ => false
      end
  | TArrPrefix _ lt e =>
      match is_int_type lt, v with
      | Some (sg, w), VList l => negb (greedy e) && (0 <? w)%nat && int_in_range sg w (zlen l) && forallb (doc_val e) l
      | _, _ => false
      end
  | TArrAll e =>
      match v with
      | VList l => match e with
                   | TBits w => (0 <? w)%nat && (zlen l mod (8 * Z.of_nat w) =? 0) && forallb is_vbool l
                   | _ => negb (greedy e) && consumes e && forallb (doc_val e) l
                   end
      | _ => false
      end
  | TStruct k ms =>
      let plain := fun v' =>
        match v' with
        | VDict d => forallb (fun m => match dict_get d (fst m) with Ok x => doc_val (snd m) x | Err _ => false end) ms
        | VList l => forallb2 (fun m x => doc_val (snd m) x) ms l
        | _ => false
        end in
      initb (fun m => negb (greedy (snd m))) ms &&
      match k with
      | SPlain => plain v
      | _ => match v with
             | VDict _ => match identity_pre v with
                          | Ok (VDict d') =>
                              forallb (fun m => unnamed (fst m)
                                                || match dict_get d' (fst m) with Ok x => doc_val (snd m) x | Err _ => false end) ms
                          | _ => false
                          end
             | _ => false
             end
      end
  | TFixedStr size lsg lw cap =>
      (cap <=? size)%nat && match v with VStr s => doc_str_dom lsg lw Latin1 (firstn cap s) | _ => false end
  | TStructTag ms bits priv size =>
      extents_ok (stag_layout ms) size
      && keys_nodup (map (fun m => fst (fst m)) ms ++ map (fun b => Some (fst b)) bits)
      && forallb (fun b => (fst (snd b) <? size)%nat && (snd (snd b) <? 8)%nat) bits
      && match v with
         | VDict d =>
             forallb (fun m => key_in (fst (fst m)) priv
                               || match dict_get d (fst (fst m)) with Ok x => doc_val (snd m) x | Err _ => false end) ms
             && forallb (fun b => match dict_get d (Some (fst b)) with Ok x => is_vbool x | Err _ => false end) bits
         | _ => false
         end
  | TIPAddr => match v with VStr s => ip_dom s | _ => false end
  | TPcccAscii => match v with VStr s => (length s =? 2)%nat && forallb (single_byte Latin1) s | _ => false end
  | TPcccString => match v with VStr s => (length s <=? 82)%nat && forallb (single_byte Latin1) s | _ => false end
  end.

Definition doc_dom (t : ty) (v : val) : bool := doc_wf t && doc_val t v.
