(* Model/SlcDir.v — the data-file directory and processor type part of pycomm3/slc_driver.py:

     _get_sys0_info(plc_type)          catalog prefix -> where the directory lives in file 0
     _parse_file0(sys0_info, data)     file-0 image -> { "<type><number>": {elements, length} }
     _read_whole_file_directory        the chunked reads of the image (size bytes, word offsets)
     _get_file_directory_size          request bytes and the size arithmetic
     get_processor_type                request bytes and the catalog string cut out of the reply

   Definitions only.  Bytes / text = list Z.  The dict _parse_file0 returns is an insertion-ordered
   association list (a later equal key replaces the value in place, as a Python dict does).
   PCCC_DATA_TYPE / PCCC_DATA_SIZE come from Gen/SlcTables.v.  The sys0 records are the literals of
   _get_sys0_info (control flow: tied by correspondence on catalog strings). *)
From PV Require Import Base.Bytes Base.Res Base.PyStr Model.Slc.
From PV Require Import Gen.SlcTables.
Open Scope Z_scope.

(* ------------------------------------------------------------------ _get_sys0_info *)
Record sys0 := {
  s_file_position : Z;
  s_row_size : Z;
  s_file_type : bytes;
  s_size_element : bytes;
  s_size_len : bytes;
  s_size_const : option Z;            (* key absent -> .get("size_const", 0) *)
  s_file_type_queue : option bytes
}.

Definition t1761 : text := [49; 55; 54; 49].
Definition t1762 : text := [49; 55; 54; 50].
Definition t1763 : text := [49; 55; 54; 51].
Definition t1764 : text := [49; 55; 54; 52].
Definition t1766 : text := [49; 55; 54; 54].

Definition get_sys0_info (plc_type : text) : sys0 :=
  let prefix := firstn 4 plc_type in
  if text_eqb prefix t1761 then
    {| s_file_position := 93; s_row_size := 8; s_file_type := [0]; s_size_element := [35];
       s_size_len := [4]; s_size_const := None; s_file_type_queue := None |}
  else if text_eqb prefix t1763 || text_eqb prefix t1762 || text_eqb prefix t1764 then
    {| s_file_position := 233; s_row_size := 10; s_file_type := [2]; s_size_element := [40];
       s_size_len := [8]; s_size_const := Some 19968; s_file_type_queue := None |}
  else if text_eqb prefix t1766 then
    {| s_file_position := 233; s_row_size := 10; s_file_type := [3]; s_size_element := [43];
       s_size_len := [8]; s_size_const := Some 19968; s_file_type_queue := Some [165] |}
  else
    {| s_file_position := 79; s_row_size := 10; s_file_type := [1]; s_size_element := [35];
       s_size_len := [4]; s_size_const := None; s_file_type_queue := None |}.

(* ------------------------------------------------------------------ _parse_file0 *)
Definition bytes_eqb (a b : bytes) : bool := text_eqb a b.

(* PCCC_DATA_TYPE = {**fwd, **{v: k for k, v in fwd.items()}} looked up with a bytes key: the
   reverse half; a code listed twice belongs to the LAST type that lists it *)
Definition type_of_code (code : bytes) : option text :=
  fold_left (fun acc kv => if bytes_eqb (snd kv) code then Some (fst kv) else acc) pccc_data_type None.

(* PCCC_DATA_SIZE.get(file_type, 2) *)
Definition size_of_type (ft : text) : Z :=
  match List.find (fun kv => text_eqb (fst kv) ft) pccc_data_size with
  | Some kv => snd kv
  | None => 2
  end.

(* UINT.decode(buffer): two bytes little-endian; empty -> BufferEmptyError, one byte -> DataError *)
Definition UINT_decode (bs : bytes) : res Z :=
  match bs with
  | [] => Err BufferEmpty
  | [_] => Err DataError
  | a :: b :: _ => Ok (a + 256 * b)
  end.

Record fentry := { fe_elements : Z; fe_length : Z }.
Definition fdict := list (text * fentry).

Fixpoint dict_set (d : fdict) (k : text) (v : fentry) : fdict :=
  match d with
  | [] => [(k, v)]
  | (k', v') :: r => if text_eqb k' k then (k', v) :: r else (k', v') :: dict_set r k v
  end.

Inductive dres := DOk (d : fdict) | DExn (e : exn) | DFuel.

(* the while loop, on rest = data[file_pos:]; one iteration per row.  file_pos < len(data) is
   rest <> [] *)
Fixpoint parse_rows (fuel : nat) (row_size : nat) (rest : bytes) (file_num : Z) (acc : fdict) : dres :=
  match rest with
  | [] => DOk acc
  | code :: after =>
      match fuel with
      | O => DFuel
      | S fuel' =>
          match type_of_code [code] with
          | Some ft =>
              match UINT_decode after with
              | Ok file_size =>
                  let name := ft ++ py_str_int file_num in
                  let acc' := dict_set acc name {| fe_elements := file_size / size_of_type ft; fe_length := file_size |} in
                  parse_rows fuel' row_size (skipn row_size rest) (file_num + 1) acc'
              | Err e => DExn e
              end
          | None =>
              parse_rows fuel' row_size (skipn row_size rest) (if code =? 129 then file_num + 1 else file_num) acc
          end
      end
  end.

(* data[52] then data[46] are read first (and printed): IndexError on an image shorter than 53
   bytes.  A row size of 0 never advances: out of fuel (the code loops forever). *)
Definition parse_file0_at (file_position row_size : nat) (data : bytes) : dres :=
  if (length data <=? 52)%nat then DExn (Foreign IndexError)
  else parse_rows (S (length data)) row_size (skipn file_position data) 0 [].

Definition parse_file0 (s : sys0) (data : bytes) : dres :=
  parse_file0_at (Z.to_nat (s_file_position s)) (Z.to_nat (s_row_size s)) data.

(* the two numbers _parse_file0 prints *)
Definition file0_counts (data : bytes) : option (Z * Z) :=
  if (length data <=? 52)%nat then None else Some (nth 52 data 0, nth 46 data 0).

(* ------------------------------------------------------------------ _read_whole_file_directory *)
(* one read: (size in bytes, offset in words).  [serve size offset] is what the controller answers:
   None = a non-zero status (ResponseError), Some data = the reply data *)
Inductive rres := ROk (data : bytes) (reads : list (Z * Z)) | RExn (e : exn) | RFuel.

Fixpoint read_loop (fuel : nat) (chunk file0_size : Z) (serve : Z -> Z -> option bytes)
                   (file0_data : bytes) (offset : Z) (reads : list (Z * Z)) : rres :=
  if Z.of_nat (length file0_data) <? file0_size then
    match fuel with
    | O => RFuel
    | S fuel' =>
        let bytes_remaining := file0_size - Z.of_nat (length file0_data) in
        let size := if bytes_remaining >? chunk then chunk else bytes_remaining in
        if negb (in_urange 1 size) then RExn DataError                (* USINT.encode(size) *)
        else if negb (offset <? 256) && negb (in_urange 2 offset) then RExn DataError   (* UINT.encode(offset) *)
        else
          match serve size offset with
          | None => RExn ResponseError
          | Some data =>
              read_loop fuel' chunk file0_size serve (file0_data ++ data)
                        (offset + Z.of_nat (length data) / 2) (reads ++ [(size, offset)])
          end
    end
  else ROk file0_data reads.

Definition DIR_CHUNK : Z := 80.     (* 0x50 *)

Definition read_whole_file_directory (fuel : nat) (file0_size : Z) (serve : Z -> Z -> option bytes) : rres :=
  read_loop fuel DIR_CHUNK file0_size serve [] 0 [].

(* the message-router request of one directory read *)
Definition dir_read_request (c : cfg) (tns : Z) (s : sys0) (size offset : Z) : res bytes :=
  let* tn := UINT_encode tns in
  let* sz := USINT_encode size in
  let* off := (if offset <? 256 then USINT_encode offset else let* u := UINT_encode offset in Ok (255 :: u)) in
  Ok (msg_start c ++ SLC_CMD_CODE ++ [0] ++ tn ++ [161] ++ sz ++ [0] ++ s_file_type s ++ off).

(* ------------------------------------------------------------------ _get_file_directory_size *)
Definition dir_size_request (c : cfg) (tns : Z) (s : sys0) : res bytes :=
  let* tn := UINT_encode tns in
  Ok (msg_start c ++ SLC_CMD_CODE ++ [0] ++ tn ++ [161] ++ s_size_len s ++ [0] ++ s_file_type s ++ s_size_element s).

(* status None: size = UINT.decode(raw[SLC_REPLY_START:]) - size_const; any exception -> None *)
Definition dir_size_of_reply (s : sys0) (raw : bytes) : option Z :=
  match UINT_decode (skipn (Z.to_nat SLC_REPLY_START) raw) with
  | Ok u => Some (u - match s_size_const s with Some k => k | None => 0 end)
  | Err _ => None
  end.

(* ------------------------------------------------------------------ get_processor_type *)
Definition proc_type_request (c : cfg) (tns : Z) : res bytes :=
  let* tn := UINT_encode tns in
  Ok (msg_start c ++ [6] ++ [0] ++ tn ++ [3]).

(* str.strip() on ASCII text: \t \n \v \f \r, FS GS RS US and the space *)
Definition is_py_space (c : Z) : bool := ((9 <=? c) && (c <=? 13)) || ((28 <=? c) && (c <=? 32)).
Fixpoint lstrip (s : text) : text :=
  match s with
  | [] => []
  | c :: r => if is_py_space c then lstrip r else s
  end.
Definition strip (s : text) : text := rev (lstrip (rev (lstrip s))).

(* response.raw[SLC_REPLY_START:][5:16].decode("utf-8").strip(); bytes above 127 need the UTF-8
   decoder, which is not modelled: a distinguished outcome, never a default *)
Inductive ptres := PTyp (s : text) | PNonAscii.
Definition proc_type_of_reply (raw : bytes) : ptres :=
  let cut := firstn 11 (skipn 5 (skipn (Z.to_nat SLC_REPLY_START) raw)) in
  if ascii_ok cut then PTyp (strip cut) else PNonAscii.
