(* Model/LogixWrite.v — executable model of what LogixDriver.write does with a parsed request:

     logix_driver.py : encode_value, _write_build_requests / _write_build_multi_requests /
                       _write_build_single_request (the PLANNING is Model/LogixPlan.v; here the
                       packets of a plan are materialised), _send_write_fragmented, the RMW fan-out and
                       the per-request outcome of write()
     packets/logix.py: WriteTagRequestPacket (__init__, _setup_message, tag_only_message),
                       WriteTagFragmentedRequestPacket (tag_only_message, from_request),
                       ReadModifyWriteRequestPacket (__init__, set_bit, _setup_message),
                       MultiServiceRequestPacket.build_message
     packets/base.py : RequestPacket.build_message (the _msg_setup flag), SendUnitDataRequestPacket._setup_message
     cip/data_types.py, custom_types.py : the encoders a Logix type_class can be made of:
                       ElementaryDataType._encode (struct formats), BOOL._encode, BitArrayType._encode,
                       Array.encode, FixedSizeString._encode (with `capacity`), StructTag._encode

   Definitions only.  Type rows (code, size, struct format, host type), the DataTypes and Services
   tables, MULTISERVICE_READ_OVERHEAD and the sequence generator come from coq/Gen.  Request paths
   are Model/Path.v (property C09).  Parsing of the request string is Model/LogixParse.v (C03): a
   parsed request arrives here as the dictionary _parse_tag_request produced.

   Exceptions are data ([res]); every Python `try/except` of the anchored code is a [wrap_all] /
   explicit match at the same place.  [Err e] out of [write_plan] means: the exception escapes
   LogixDriver.write. *)
From Coq Require Import String.
From PV Require Import Base.Bytes Base.Res Base.Proto Base.PyStr.
From PV Require Import Gen.Types Gen.Tables Gen.Consts Gen.PathTables.
From PV Require Import Model.EnumMapDefs Model.EnumMap Model.CodecFloat Model.Path Model.Seq Model.LogixPlan.
Open Scope Z_scope.

Definition zlen {A} (l : list A) : Z := Z.of_nat (List.length l).

(* ================================================================ Python values *)
Inductive pv :=
  | PNone
  | PBool (b : bool)
  | PInt (z : Z)
  | PFloat (b64 : Z)                 (* IEEE binary64 bit pattern *)
  | PStr (s : text)
  | PBytes (b : bytes)               (* bytes / bytearray *)
  | PList (l : list pv)              (* list / tuple *)
  | PDict (d : list (text * pv)).    (* dict with str keys, insertion ordered *)

Definition nonnil {A} (l : list A) : bool := match l with [] => false | _ => true end.

(* bool(x) *)
Definition truthy (v : pv) : bool :=
  match v with
  | PNone => false
  | PBool b => b
  | PInt z => negb (z =? 0)
  | PFloat b => float_truthy b
  | PStr s => nonnil s
  | PBytes b => nonnil b
  | PList l => nonnil l
  | PDict d => nonnil d
  end.

(* the items of a sized, indexable value (len(x), x[i], x[i:j]); None: no len() / not a sequence *)
Definition py_items (v : pv) : option (list pv) :=
  match v with
  | PList l => Some l
  | PStr s => Some (map (fun c => PStr [c]) s)
  | PBytes b => Some (map PInt b)
  | _ => None
  end.

(* isinstance(value, Sequence) and not isinstance(value, str) *)
Definition is_nonstr_sequence (v : pv) : bool :=
  match v with PList _ | PBytes _ => true | _ => false end.

Fixpoint dict_get (d : list (text * pv)) (k : text) : option pv :=
  match d with
  | [] => None
  | (k', v) :: r => if PyStr.text_eqb k' k then Some v else dict_get r k
  end.
(* a dict literal keeps the LAST value of a repeated key; the harness never repeats keys *)

Definition mem_text (s : text) (l : list text) : bool := existsb (PyStr.text_eqb s) l.

(* ================================================================ elementary rows (Gen/Types.v) *)
Inductive fmt_kind := FInt (sg : bool) (w : nat) | FReal (dbl : bool).
(* struct format strings: "<" little endian, standard sizes *)
Definition fmt_sem (f : list Z) : option fmt_kind :=
  match f with
  | [60; 98] => Some (FInt true 1)    | [60; 66] => Some (FInt false 1)
  | [60; 104] => Some (FInt true 2)   | [60; 72] => Some (FInt false 2)
  | [60; 105] => Some (FInt true 4)   | [60; 73] => Some (FInt false 4)
  | [60; 113] => Some (FInt true 8)   | [60; 81] => Some (FInt false 8)
  | [60; 102] => Some (FReal false)   | [60; 100] => Some (FReal true)
  | _ => None
  end.

Definition trow := (list Z * Z * Z * list Z * list Z * list Z * list Z)%type.
Definition row_name (r : trow) : list Z := let '(n, _, _, _, _, _, _) := r in n.
Definition row_code (r : trow) : Z := let '(_, c, _, _, _, _, _) := r in c.
Definition row_size (r : trow) : Z := let '(_, _, s, _, _, _, _) := r in s.
Definition row_fmt (r : trow) : list Z := let '(_, _, _, f, _, _, _) := r in f.
Definition row_host (r : trow) : list Z := let '(_, _, _, _, _, _, h) := r in h.

Fixpoint find_row (rows : list trow) (n : list Z) : option trow :=
  match rows with
  | [] => None
  | r :: rs => if PyStr.text_eqb (row_name r) n then Some r else find_row rs n
  end.
(* the row of an elementary CLASS, by class name ("DINT") *)
Definition class_row (cls : text) : option trow := find_row type_rows cls.

(* DataTypes.get(name) / DataTypes[name] / name in DataTypes: case-insensitive member lookup -> class *)
Definition datatypes_get (name : text) : option text :=
  match EnumMap.get type_codes tbl_DataTypes (KStr name) None with
  | Some (KObj cls) => Some cls
  | _ => None
  end.
Definition datatypes_row (name : text) : option trow :=
  match datatypes_get name with Some cls => class_row cls | None => None end.

Definition n_BOOL : text := zs_of_string "BOOL".
Definition n_DWORD : text := zs_of_string "DWORD".

(* ================================================================ encoders *)
(* struct.pack(<int format>, v): an int (bool is an int) in range, else struct.error *)
Definition pack_int (sg : bool) (w : nat) (v : pv) : res bytes :=
  let go (z : Z) := if (if sg then in_srange w z else in_urange w z) then Ok (le_enc w (z mod pow256 w))
                    else Err (Foreign StructError) in
  match v with
  | PInt z => go z
  | PBool b => go (if b then 1 else 0)
  | _ => Err (Foreign StructError)
  end.

(* struct.pack("<f"/"<d", v): a float, or an int converted by float() *)
Definition pack_real (dbl : bool) (v : pv) : res bytes :=
  let ob := match v with
            | PFloat b => Some b
            | PInt z => z_to_b64 z
            | PBool b => z_to_b64 (if b then 1 else 0)
            | _ => None
            end in
  match ob with
  | None => Err (Foreign StructError)
  | Some b => if dbl then Ok (le_enc 8 b)
              else match round32 b with Some s => Ok (le_enc 4 s) | None => Err (Foreign OverflowError) end
  end.

(* BitArrayType._encode: len(value) must be 8 * size; bit i set when value[i] is truthy *)
Fixpoint bits_value (l : list pv) (w : Z) : Z :=
  match l with
  | [] => 0
  | x :: r => (if truthy x then w else 0) + bits_value r (2 * w)
  end.

(* <class>._encode(value) for an elementary class *)
Definition elem_encode_raw (cls : text) (v : pv) : res bytes :=
  match class_row cls with
  | None => Err (Foreign AttributeError)
  | Some r =>
      if PyStr.text_eqb cls n_BOOL then Ok [if truthy v then 255 else 0]
      else match fmt_sem (row_fmt r) with
           | Some (FInt sg w) => pack_int sg w v
           | Some (FReal dbl) => pack_real dbl v
           | None =>
               match row_host r with
               | [] => Err (Foreign NotImplementedError)     (* a class this model does not cover *)
               | host =>
                   match py_items v with
                   | None => Err (Foreign TypeError)
                   | Some items =>
                       if negb (zlen items =? 8 * row_size r) then Err DataError
                       else match class_row host with
                            | Some hr => match fmt_sem (row_fmt hr) with
                                         | Some (FInt sg w) => pack_int sg w (PInt (bits_value items 1))
                                         | _ => Err (Foreign StructError)
                                         end
                            | None => Err (Foreign AttributeError)
                            end
                   end
               end
           end
  end.
(* DataType.encode: try: _encode(value) except Exception: raise DataError *)
Definition elem_encode (cls : text) (v : pv) : res bytes := wrap_all DataError (elem_encode_raw cls v).

(* Some (8 * size) when the class is a BitArrayType (has a host type) *)
Definition bitarray_chunk (cls : text) : option Z :=
  match class_row cls with
  | Some r => match row_host r with [] => None | _ => Some (8 * row_size r) end
  | None => None
  end.

(* values[i : i + c] for i in range(0, len(values), c) *)
Fixpoint chunk_list {A} (fuel : nat) (c : nat) (l : list A) : list (list A) :=
  match fuel with
  | O => []
  | S f => match l with
           | [] => []
           | _ => firstn c l :: chunk_list f c (skipn c l)
           end
  end.

Fixpoint map_res {A B} (f : A -> res B) (l : list A) : res (list B) :=
  match l with
  | [] => Ok []
  | a :: r => match f a with
              | Ok b => match map_res f r with Ok bs => Ok (b :: bs) | Err e => Err e end
              | Err e => Err e
              end
  end.

(* Array(cls_len, element).encode(values, length) *)
Definition array_encode (enc : pv -> res bytes) (chunk : option Z) (cls_len : Z) (values : pv) (length : option Z)
  : res bytes :=
  let _length := match length with Some l => if l =? 0 then cls_len else l | None => cls_len end in
  match py_items values with
  | None =>
      match values with
      | PDict d =>
          (* len(dict) works; values[i] / values[i:j] then raise inside the try *)
          if zlen d <? _length then Err DataError
          else match chunk with
               | Some c => if zlen d =? 0 then Ok [] else Err DataError
               | None => if _length =? 0 then Ok [] else Err DataError
               end
      | _ => Err DataError                               (* len(values) raises inside the try (pycomm3 5013e00) *)
      end
  | Some items =>
      if zlen items <? _length then Err DataError
      else
        let '(_len, items') :=
          match chunk with
          | Some c => if c <=? 0 then (0, [])
                      else (zlen items / c, map PList (chunk_list (List.length items) (Z.to_nat c) items))
          | None => (_length, items)
          end in
        (* b"".join(element.encode(values[i]) for i in range(_len)) inside try/except -> DataError *)
        wrap_all DataError
          (match map_res enc (firstn (Z.to_nat _len) items') with
           | Ok parts => if Z.of_nat (List.length parts) <? _len then Err (Foreign IndexError) else Ok (concat parts)
           | Err e => Err e
           end)
  end.

(* value.encode("iso-8859-1") *)
Definition latin1_encode (s : text) : res bytes :=
  if latin1_ok s then Ok s else Err (Foreign UnicodeError).

(* FixedSizeString(size, UDINT, capacity)._encode *)
Definition fixedstr_encode (size cap : Z) (v : pv) : res bytes :=
  match v with
  | PStr s =>
      let s' := firstn (Z.to_nat cap) s in                 (* value[: cls.capacity], capacity >= 0 *)
      match latin1_encode s' with
      | Ok b => Ok (le_enc 4 (zlen s') ++ b ++ zeros (Z.to_nat (size - zlen s')))
      | Err e => Err e
      end
  | _ => Err (Foreign AttributeError)
  end.

(* bytearray slice assignment value[off : off + len(enc)] = enc (bounds clamp like Python's) *)
Definition splice (off : Z) (enc img : bytes) : bytes :=
  firstn (Z.to_nat off) img ++ enc ++ skipn (Z.to_nat off + List.length enc) img.

(* value[off] |= 1 << bit   /   value[off] &= ~(1 << bit) *)
Definition set_byte_bit (img : bytes) (off bit : Z) (x : bool) : res bytes :=
  if (off <? 0) || (zlen img <=? off) then Err (Foreign IndexError)
  else
    let old := nth (Z.to_nat off) img 0 in
    let nb := if x then Z.lor old (Z.shiftl 1 bit) else Z.land old (Z.lnot (Z.shiftl 1 bit)) in
    if (0 <=? nb) && (nb <? 256)
    then Ok (firstn (Z.to_nat off) img ++ nb :: skipn (S (Z.to_nat off)) img)
    else Err (Foreign ValueError).

Fixpoint struct_bits (d : list (text * pv)) (bits : list (text * (Z * Z))) (img : bytes) : res bytes :=
  match bits with
  | [] => Ok img
  | (name, (off, bit)) :: r =>
      match dict_get d name with
      | None => Err (Foreign KeyError)
      | Some x => match set_byte_bit img off bit (truthy x) with
                  | Ok img' => struct_bits d r img'
                  | Err e => Err e
                  end
      end
  end.

(* the type classes a Logix tag_info can carry *)
Inductive wty :=
  | WElem (cls : text)                                   (* an elementary class, by class name *)
  | WArray (n : Z) (e : wty)                             (* Array(n, e), n an int *)
  | WFixedStr (size cap : Z)                             (* FixedSizeString(size, UDINT, capacity) *)
  | WStructTag (ms : list (text * Z * wty))              (* members that are not bit members: name, offset, type *)
               (bits : list (text * (Z * Z)))            (* bit members: name -> (offset, bit) *)
               (priv : list text) (size : Z).            (* private member names, struct_size *)

Definition elem_chunk (t : wty) : option Z := match t with WElem c => bitarray_chunk c | _ => None end.

(* type_class.encode(value) *)
Fixpoint encode_ty (t : wty) (v : pv) {struct t} : res bytes :=
  match t with
  | WElem cls => elem_encode cls v
  | WArray n e => array_encode (encode_ty e) (elem_chunk e) n v None
  | WFixedStr size cap => wrap_all DataError (fixedstr_encode size cap v)
  | WStructTag ms bits priv size =>
      wrap_all DataError
        (match v with
         | PDict d =>
             match (fix members (ms : list (text * Z * wty)) (img : bytes) {struct ms} : res bytes :=
                      match ms with
                      | [] => Ok img
                      | m :: r =>
                          if mem_text (fst (fst m)) priv then members r img
                          else match dict_get d (fst (fst m)) with
                               | None => Err (Foreign KeyError)
                               | Some x => match encode_ty (snd m) x with
                                           | Ok enc => members r (splice (snd (fst m)) enc img)
                                           | Err e => Err e
                                           end
                               end
                      end) ms (zeros (Z.to_nat size)) with
             | Ok img => struct_bits d bits img
             | Err e => Err e
             end
         | _ => Err (Foreign AttributeError)                (* values.items() *)
         end)
  end.

(* Array.encode with the explicit length argument, as encode_value calls it *)
Definition encode_ty_len (t : wty) (v : pv) (length : Z) : res bytes :=
  match t with
  | WArray n e => array_encode (encode_ty e) (elem_chunk e) n v (Some length)
  | _ => Err (Foreign TypeError)
  end.
Definition is_array_ty (t : wty) : bool := match t with WArray _ _ => true | _ => false end.

(* ================================================================ a parsed request *)
Record tag_info := mkInfo {
  ti_struct : bool;             (* tag_info["tag_type"] == "struct" *)
  ti_type_name : text;          (* tag_info["data_type_name"] *)
  ti_type : wty;                (* tag_info["type_class"] *)
  ti_handle : Z;                (* tag_info["data_type"]["template"]["structure_handle"] (structures) *)
  ti_instance : option Z        (* tag_info.get("instance_id"): base tags only *)
}.

Record wparsed := mkParsed {
  q_id : Z;                     (* request_id: position in the call *)
  q_error : bool;               (* parsing failed: "error" is set, the other fields are absent *)
  q_plc_tag : text;
  q_bit : option Z;
  q_elements : Z;
  q_bool_elements : option Z;
  q_info : tag_info;
  q_value : pv
}.

Definition opt_or0 (o : option Z) : Z := match o with Some z => z | None => 0 end.
(* a or b for ints / None *)
Definition z_or (a : option Z) (b : Z) : Z := match a with Some z => if z =? 0 then b else z | None => b end.

(* a bit write: `bit is not None and bool_elements is None` *)
Definition is_bit_write (q : wparsed) : bool :=
  match q_bit q, q_bool_elements q with Some _, None => true | _, _ => false end.

(* encode_value(parsed_tag) -> (write_value, the new parsed_tag["elements"]) *)
Definition encode_value (q : wparsed) : res (bytes * Z) :=
  match q_value q with
  | PBytes b => Ok (b, q_elements q)                         (* isinstance(value, bytes): passed through *)
  | value =>
      wrap_all RequestError
        (let elements := q_elements q in
         let value_elements := z_or (q_bool_elements q) elements in
         let dword := PyStr.text_eqb (ti_type_name (q_info q)) n_DWORD in
         if dword && negb (opt_or0 (q_bit q) mod 32 =? 0) then Err RequestError
         else
           let elements' := if dword then elements - opt_or0 (q_bit q) / 32 else elements in
           let _type := ti_type (q_info q) in
           if is_array_ty _type then
             if 1 <? value_elements then
               match py_items value with
               | None => Err (Foreign TypeError)
               | Some items =>
                   if zlen items <? value_elements then Err RequestError
                   else
                     let value' := if value_elements <? zlen items
                                   then (match value with      (* value[:value_elements] keeps the type *)
                                         | PStr s => PStr (firstn (Z.to_nat value_elements) s)
                                         | _ => PList (firstn (Z.to_nat value_elements) items)
                                         end)
                                   else value in
                     match encode_ty_len _type value' value_elements with
                     | Ok b => Ok (b, elements')
                     | Err e => Err e
                     end
               end
             else
               let value' := if is_nonstr_sequence value then value else PList [value] in
               match encode_ty_len _type value' value_elements with
               | Ok b => Ok (b, elements')
               | Err e => Err e
               end
           else
             match encode_ty _type value with
             | Ok b => Ok (b, elements')
             | Err e => Err e
             end)
  end.

(* ================================================================ packets *)
Inductive pkind := KWrite | KFrag | KRmw.

Record reqpkt := mkPkt {
  k_kind : pkind;
  k_seq : Z;                       (* self._sequence *)
  k_tag : text;
  k_elements : Z;
  k_info : tag_info;
  k_id : Z;                        (* request_id *)
  k_use_inst : bool;
  k_value : bytes;
  k_offset : Z;
  k_packed_type : bytes;           (* _packed_data_type *)
  k_path : option bytes;           (* request_path *)
  k_or : Z; k_and : Z; k_mask_size : Z; k_dword : bool;
  k_ids : list Z;                  (* _request_ids *)
  k_msg_setup : bool;              (* _msg_setup *)
  k_msg : list bytes;              (* _msg *)
  k_added : list bytes;            (* _added *)
  k_message : bytes;               (* message *)
  k_failed : bool                  (* error is set *)
}.

Definition svc (name : string) : bytes :=
  match EnumMap.getitem type_codes tbl_Services (KStr (zs_of_string name)) with
  | Some (KBytes b) => b
  | _ => []
  end.
Definition SVC_WRITE : bytes := svc "write_tag".
Definition SVC_WRITE_FRAG : bytes := svc "write_tag_fragmented".
Definition SVC_RMW : bytes := svc "read_modify_write".
Definition SVC_MULTI : bytes := svc "multiple_service_request".

Definition tag_service (k : pkind) : bytes :=
  match k with KWrite => SVC_WRITE | KFrag => SVC_WRITE_FRAG | KRmw => SVC_RMW end.

Definition path_of (tag : text) (info : tag_info) (use_inst : bool) : res (option bytes) :=
  tag_request_path tag (ti_instance info) use_inst.

(* WriteTagRequestPacket.__init__ (also reached through WriteTagFragmentedRequestPacket.__init__) *)
Definition packed_data_type (info : tag_info) : res bytes :=
  if ti_struct info then
    match UINT_encode (ti_handle info) with
    | Ok h => Ok (160 :: 2 :: h)
    | Err e => Err e
    end
  else
    match datatypes_row (ti_type_name info) with
    | None => Err RequestError                                (* Unsupported data type *)
    | Some r => UINT_encode (row_code r)
    end.

Definition new_write_packet (kind : pkind) (seq : Z) (tag : text) (elements : Z) (info : tag_info) (id : Z)
  (use_inst : bool) (offset : Z) (value : bytes) : res reqpkt :=
  match packed_data_type info with
  | Err e => Err e
  | Ok pt => Ok (mkPkt kind seq tag elements info id use_inst value offset pt None 0 0 0 false [] false [] [] [] false)
  end.

(* tag_only_message (needs request_path) *)
Definition tag_only_message (p : reqpkt) : res bytes :=
  let path := match k_path p with Some b => b | None => [] end in
  match UINT_encode (k_elements p) with
  | Err e => Err e
  | Ok el =>
      match k_kind p with
      | KWrite => Ok (SVC_WRITE ++ path ++ k_packed_type p ++ el ++ k_value p)
      | KFrag => match UDINT_encode (k_offset p) with
                 | Ok off => Ok (SVC_WRITE_FRAG ++ path ++ k_packed_type p ++ el ++ off ++ k_value p)
                 | Err e => Err e
                 end
      | KRmw => Err (Foreign AttributeError)
      end
  end.

Definition set_msg (p : reqpkt) (setup : bool) (msg : list bytes) (message : bytes) (path : option bytes) (failed : bool) : reqpkt :=
  mkPkt (k_kind p) (k_seq p) (k_tag p) (k_elements p) (k_info p) (k_id p) (k_use_inst p) (k_value p) (k_offset p)
        (k_packed_type p) path (k_or p) (k_and p) (k_mask_size p) (k_dword p) (k_ids p) setup msg (k_added p) message failed.

(* ULINT.encode(mask)[: size] *)
Definition mask_bytes (mask size : Z) : res bytes :=
  match uint_encode 8 mask with
  | Ok b => Ok (firstn (Z.to_nat size) b)
  | Err e => Err e
  end.

(* _setup_message of the three classes (RequestPacket -> SendUnitDataRequestPacket -> class) *)
Definition setup_message (p : reqpkt) : res reqpkt :=
  match UINT_encode (k_seq p) with
  | Err e => Err e
  | Ok sq =>
      let msg0 := k_msg p ++ [sq] in
      match k_kind p with
      | KRmw =>
          match UINT_encode (k_mask_size p), mask_bytes (k_or p) (k_mask_size p), mask_bytes (k_and p) (k_mask_size p) with
          | Ok ms, Ok o, Ok a =>
              Ok (set_msg p true (msg0 ++ [SVC_RMW; match k_path p with Some b => b | None => [] end; ms; o; a])
                          (k_message p) (k_path p) (k_failed p))
          | Err e, _, _ => Err e
          | _, Err e, _ => Err e
          | _, _, Err e => Err e
          end
      | _ =>
          match (match k_path p with Some b => Ok (Some b) | None => path_of (k_tag p) (k_info p) (k_use_inst p) end) with
          | Err e => Err e
          | Ok path =>
              let failed := match path with None => true | Some _ => k_failed p end in
              let p1 := set_msg p true msg0 (k_message p) path failed in
              match tag_only_message p1 with
              | Ok m => Ok (set_msg p1 true (msg0 ++ [m]) (k_message p) path failed)
              | Err e => Err e
              end
          end
      end
  end.

(* RequestPacket.build_message *)
Definition build_message (p : reqpkt) : res reqpkt :=
  match (if k_msg_setup p then Ok p
         else match setup_message p with
              | Ok p1 => Ok (set_msg p1 true (k_msg p1 ++ k_added p1) (k_message p1) (k_path p1) (k_failed p1))
              | Err e => Err e
              end) with
  | Ok p2 => Ok (set_msg p2 (k_msg_setup p2) (k_msg p2) (concat (k_msg p2)) (k_path p2) (k_failed p2))
  | Err e => Err e
  end.

(* WriteTagFragmentedRequestPacket.from_request(seq, request, offset, value) *)
Definition frag_from_request (seq : Z) (r : reqpkt) (offset : Z) (value : bytes) : res reqpkt :=
  match new_write_packet KFrag seq (k_tag r) (k_elements r) (k_info r) (k_id r) (k_use_inst r) offset
                         (match value with [] => k_value r | _ => value end) with
  | Ok p => Ok (set_msg p false [] [] (k_path r) false)
  | Err e => Err e
  end.

(* ReadModifyWriteRequestPacket.__init__: the path is computed first; a type without a width
   (DataTypes.get(...) is None, or size 0) is a RequestError *)
Definition new_rmw (seq : Z) (tag : text) (info : tag_info) (id : Z) (use_inst : bool) : res reqpkt :=
  match path_of tag info use_inst with
  | Err e => Err e
  | Ok path =>
      match datatypes_row (ti_type_name info) with
      | None => Err RequestError
      | Some r =>
          if row_size r =? 0 then Err RequestError
          else
            Ok (mkPkt KRmw seq tag 0 info id use_inst [] 0 [] path 0 18446744073709551615 (row_size r)
                      (PyStr.text_eqb (ti_type_name info) n_DWORD) []
                      false [] [] [] (match path with None => true | Some _ => false end))
      end
  end.

(* set_bit(bit, value, request_id) *)
Definition set_bit_masks (dword : bool) (o a : Z) (bit : Z) (value : bool) : Z * Z :=
  let bit := if dword then bit mod 32 else bit in
  if value then (Z.lor o (Z.shiftl 1 bit), Z.lor a (Z.shiftl 1 bit))
  else (Z.land o (Z.lnot (Z.shiftl 1 bit)), Z.land a (Z.lnot (Z.shiftl 1 bit))).

(* the bit a call names, and whether it lies inside the mask *)
Definition named_bit (dword : bool) (bit : Z) : Z := if dword then bit mod 32 else bit.
Definition bit_in_mask (dword : bool) (mask_size bit : Z) : bool :=
  (0 <=? named_bit dword bit) && (named_bit dword bit <? mask_size * 8).
(* a one-element slice (`bools[i]{1}`) written with a one-item list / tuple: the item *)
Definition unwrap_one (v : pv) : pv := match v with PList [x] => x | _ => v end.

Definition set_bit (p : reqpkt) (bit : Z) (value : pv) (id : Z) : res reqpkt :=
  if negb (bit_in_mask (k_dword p) (k_mask_size p) bit) then Err RequestError      (* Invalid bit number *)
  else
    let '(o, a) := set_bit_masks (k_dword p) (k_or p) (k_and p) bit (truthy (unwrap_one value)) in
    Ok (mkPkt (k_kind p) (k_seq p) (k_tag p) (k_elements p) (k_info p) (k_id p) (k_use_inst p) (k_value p) (k_offset p)
              (k_packed_type p) (k_path p) o a (k_mask_size p) (k_dword p) (k_ids p ++ [id])
              (k_msg_setup p) (k_msg p) (k_added p) (k_message p) (k_failed p)).

(* the masks of a merged group of bit writes, in call order *)
Definition rmw_masks (dword : bool) (bits : list (Z * bool)) : Z * Z :=
  fold_left (fun st bv => set_bit_masks dword (fst st) (snd st) (fst bv) (snd bv)) bits (0, 18446744073709551615).

(* ================================================================ building the requests of one call *)
Record wcfg := mkCfg { c_conn : Z; c_micro800 : bool; c_use_inst : bool }.

Inductive built :=
  | BErr                                   (* parsing failed: no packet *)
  | BBit                                   (* a bit write: joins / creates the RMW packet of its plc_tag *)
  | BEncErr                                (* encode_value / set_bit on an existing packet raised (caught): "error" set, no packet, no count drawn *)
  | BBuildErr                              (* the packet constructor ran (one count drawn) and construction / set_bit /
                                              build_message raised (caught): "error" set, no packet *)
  | BWrite (p : reqpkt).                   (* its WriteTagRequestPacket, build_message() done *)

(* what the loop body of _write_build_multi_requests / _write_build_single_request does for one
   request, up to the decision the planner takes on sizes.  [seq] = the count its packet draws;
   [joins] = (multi path) its plc_tag already has a Read-Modify-Write packet.  Every exception of
   encode_value, of the packet constructors, of set_bit and of build_message is caught
   (`except Exception`) and fails this request alone. *)
Definition build_one (cfg : wcfg) (joins : bool) (seq : Z) (q : wparsed) : res built :=
  if q_error q then Ok BErr
  else if is_bit_write q then
    let dword := PyStr.text_eqb (ti_type_name (q_info q)) n_DWORD in
    let width := match datatypes_row (ti_type_name (q_info q)) with Some r => row_size r | None => 0 end in
    if joins then
      (* request.set_bit on the packet its tag already has *)
      Ok (if bit_in_mask dword width (opt_or0 (q_bit q)) then BBit else BEncErr)
    else
      match new_rmw seq (q_plc_tag q) (q_info q) 0 (c_use_inst cfg) with
      | Err _ => Ok BBuildErr
      | Ok p => Ok (if bit_in_mask (k_dword p) (k_mask_size p) (opt_or0 (q_bit q)) then BBit else BBuildErr)
      end
  else
    match encode_value q with
    | Err _ => Ok BEncErr
    | Ok (wv, elements) =>
        match new_write_packet KWrite seq (q_plc_tag q) elements (q_info q) (q_id q) (c_use_inst cfg) 0 wv with
        | Err _ => Ok BBuildErr
        | Ok p => match build_message p with
                  | Ok p' => Ok (BWrite p')
                  | Err _ => Ok BBuildErr
                  end
        end
    end.

(* how many sequence counts the construction phase draws for one request (given the bit-write tags
   seen before it) *)
Definition tag_seen (t : text) (seen : list text) : bool := existsb (PyStr.text_eqb t) seen.

Definition abstract_of (q : wparsed) (b : built) : wreq :=
  match b with
  | BErr => {| w_id := q_id q; w_err := true; w_bit := false; w_tag := []; w_enc_err := false; w_msg := 0; w_val := 0 |}
  | BBit => {| w_id := q_id q; w_err := false; w_bit := true; w_tag := q_plc_tag q; w_enc_err := false; w_msg := 0; w_val := 0 |}
  | BEncErr | BBuildErr => {| w_id := q_id q; w_err := false; w_bit := false; w_tag := []; w_enc_err := true; w_msg := 0; w_val := 0 |}
  | BWrite p => {| w_id := q_id q; w_err := false; w_bit := false; w_tag := []; w_enc_err := false;
                   w_msg := zlen (k_message p); w_val := zlen (k_value p) |}
  end.

(* the k-th count drawn from the generator whose counter variable is v *)
Definition seq_at (v : Z) (k : nat) : Z := nth_yield k v.

(* one pass over the requests: (request, what was built), threading the number of counts drawn and
   the plc tags that already have an RMW packet *)
Fixpoint build_all (cfg : wcfg) (multi : bool) (v : Z) (reqs : list wparsed) (drawn : nat) (seen : list text)
  : res (list (wparsed * built * nat) * nat) :=
  match reqs with
  | [] => Ok ([], drawn)
  | q :: rest =>
      match build_one cfg (multi && tag_seen (q_plc_tag q) seen) (seq_at v drawn) q with
      | Err e => Err e
      | Ok b =>
          let d := match b with
                   | BErr | BEncErr => O
                   | BBuildErr => 1%nat
                   | BBit => if multi && tag_seen (q_plc_tag q) seen then O else 1%nat
                   | BWrite p =>
                       (* from_request draws a second count when the planner fragments it *)
                       let frag := if multi then w_fragm (c_conn cfg) (abstract_of q b)
                                   else zlen (k_value p) + zlen (k_message p) >? c_conn cfg in
                       if frag then 2%nat else 1%nat
                   end in
          let seen' := match b with BBit => if tag_seen (q_plc_tag q) seen then seen else q_plc_tag q :: seen | _ => seen end in
          match build_all cfg multi v rest (drawn + d) seen' with
          | Ok (l, n) => Ok ((q, b, drawn) :: l, n)
          | Err e => Err e
          end
      end
  end.

(* ---- the packets of a plan, with the bytes each one puts on the connection *)
Inductive outpkt :=
  | OMulti (seq : Z) (ids : list Z) (message : bytes)
  | OSingle (id : Z) (message : bytes)
  | OFrag (id : Z) (messages : list bytes)         (* one per segment *)
  | ORmw (rid : Z) (ids : list Z) (message : bytes).

Fixpoint find_built (l : list (wparsed * built * nat)) (id : Z) : option (wparsed * built * nat) :=
  match l with
  | [] => None
  | x :: r => if q_id (fst (fst x)) =? id then Some x else find_built r id
  end.

(* MultiServiceRequestPacket.build_message over its requests' tag_only_message() *)
Fixpoint multi_offsets (cur : Z) (msgs : list bytes) : res (list bytes) :=
  match msgs with
  | [] => Ok []
  | m :: r => match UINT_encode cur, multi_offsets (cur + zlen m) r with
              | Ok o, Ok os => Ok (o :: os)
              | Err e, _ => Err e
              | _, Err e => Err e
              end
  end.

Definition multi_message (seq : Z) (members : list reqpkt) : res bytes :=
  match UINT_encode seq, request_path (LBytes class_message_router) (LInt 1) None,
        UINT_encode (zlen members), map_res tag_only_message members with
  | Ok sq, Ok rp, Ok n, Ok msgs =>
      match multi_offsets (2 + 2 * zlen members) msgs with
      | Ok offs => Ok (sq ++ SVC_MULTI ++ rp ++ n ++ concat offs ++ concat msgs)
      | Err e => Err e
      end
  | Err e, _, _, _ => Err e
  | _, Err e, _, _ => Err e
  | _, _, Err e, _ => Err e
  | _, _, _, Err e => Err e
  end.

(* _send_write_fragmented: the segment requests *)
Fixpoint frag_messages (v : Z) (drawn : nat) (r : reqpkt) (frs : list (Z * bytes)) : res (list bytes) :=
  match frs with
  | [] => Ok []
  | (off, seg) :: rest =>
      match frag_from_request (seq_at v drawn) r off seg with
      | Err e => Err e
      | Ok p => match build_message p with
                | Err e => Err e
                | Ok p' => match frag_messages v (S drawn) r rest with
                           | Ok ms => Ok (k_message p' :: ms)
                           | Err e => Err e
                           end
                end
      end
  end.

Definition send_fragmented (cfg : wcfg) (v : Z) (drawn : nat) (wp : reqpkt) (frag_seq : Z) : res (list bytes * nat) :=
  match frag_from_request frag_seq wp 0 [] with
  | Err e => Err e
  | Ok r0 =>
      match build_message r0 with
      | Err e => Err e
      | Ok r =>
          let ovh := zlen (k_message r) - zlen (k_value r) in
          if c_conn cfg - ovh <=? 0 then Err (Foreign ValueError)         (* range() step 0 / nothing sent: IndexError *)
          else
            let frs := write_fragments (c_conn cfg) ovh (k_value r) in
            match frs with
            | [] => Err (Foreign IndexError)                               (* responses[-1] of an empty value *)
            | _ => match frag_messages v drawn r frs with
                   | Ok ms => Ok (ms, (drawn + List.length frs)%nat)
                   | Err e => Err e
                   end
            end
      end
  end.

(* the RMW packet of a merged group: created at its first request, set_bit for each in order *)
Fixpoint rmw_apply (p : reqpkt) (bl : list (wparsed * built * nat)) (ids : list Z) : res reqpkt :=
  match ids with
  | [] => Ok p
  | i :: r => match find_built bl i with
              | Some (q, _, _) => match set_bit p (opt_or0 (q_bit q)) (q_value q) (q_id q) with
                                  | Ok p' => rmw_apply p' bl r
                                  | Err e => Err e
                                  end
              | None => Err (Foreign KeyError)
              end
  end.

Definition rmw_packet (cfg : wcfg) (v : Z) (bl : list (wparsed * built * nat)) (rid : Z) (ids : list Z) : res reqpkt :=
  match ids with
  | [] => Err (Foreign KeyError)
  | i0 :: _ =>
      match find_built bl i0 with
      | Some (q, _, d) =>
          match new_rmw (seq_at v d) (q_plc_tag q) (q_info q) rid (c_use_inst cfg) with
          | Ok p => match rmw_apply p bl ids with
                    | Ok p' => build_message p'
                    | Err e => Err e
                    end
          | Err e => Err e
          end
      | None => Err (Foreign KeyError)
      end
  end.

Fixpoint members_of (bl : list (wparsed * built * nat)) (ids : list Z) : res (list reqpkt) :=
  match ids with
  | [] => Ok []
  | i :: r => match find_built bl i, members_of bl r with
              | Some (_, BWrite p, _), Ok ps => Ok (p :: ps)
              | _, Err e => Err e
              | _, _ => Err (Foreign KeyError)
              end
  end.

(* the packets are CREATED in the order multi..., (fragmented templates were created in the scan), and
   SENT in plan order; fragment segments draw their counts while they are sent *)
Fixpoint materialise (cfg : wcfg) (v : Z) (bl : list (wparsed * built * nat)) (plan : list packet)
  (multi_drawn : nat) (drawn : nat) : res (list outpkt) :=
  match plan with
  | [] => Ok []
  | pk :: rest =>
      match pk with
      | PMulti ids =>
          match members_of bl ids with
          | Err e => Err e
          | Ok ms => match multi_message (seq_at v multi_drawn) ms, materialise cfg v bl rest (S multi_drawn) drawn with
                     | Ok m, Ok r => Ok (OMulti (seq_at v multi_drawn) ids m :: r)
                     | Err e, _ => Err e
                     | _, Err e => Err e
                     end
          end
      | PSingle id =>
          match find_built bl id with
          | Some (_, BWrite p, _) =>
              (* send() -> build_request -> build_message() a second time *)
              match build_message p, materialise cfg v bl rest multi_drawn drawn with
              | Ok p', Ok r => Ok (OSingle id (k_message p') :: r)
              | Err e, _ => Err e
              | _, Err e => Err e
              end
          | _ => Err (Foreign KeyError)
          end
      | PFrag id =>
          match find_built bl id with
          | Some (_, BWrite p, d) =>
              match send_fragmented cfg v drawn p (seq_at v (S d)) with
              | Err e => Err e
              | Ok (ms, drawn') => match materialise cfg v bl rest multi_drawn drawn' with
                                   | Ok r => Ok (OFrag id ms :: r)
                                   | Err e => Err e
                                   end
              end
          | _ => Err (Foreign KeyError)
          end
      | PRmw rid ids =>
          match rmw_packet cfg v bl rid ids, materialise cfg v bl rest multi_drawn drawn with
          | Ok p, Ok r => Ok (ORmw rid ids (k_message p) :: r)
          | Err e, _ => Err e
          | _, Err e => Err e
          end
      end
  end.

Definition count_multi (plan : list packet) : nat :=
  List.length (filter (fun p => match p with PMulti _ => true | _ => false end) plan).

(* requests = self._write_build_requests(parsed_requests); what _send_requests then writes *)
Definition write_plan (cfg : wcfg) (v : Z) (reqs : list wparsed) : res (list packet * list outpkt * list (Z * bool)) :=
  let multi := negb (List.length reqs =? 1)%nat && negb (c_micro800 cfg) in
  match build_all cfg multi v reqs O [] with
  | Err e => Err e
  | Ok (bl, drawn) =>
      let plan := write_build_requests (c_conn cfg) (c_micro800 cfg) (map (fun x => abstract_of (fst (fst x)) (snd (fst x))) bl) in
      (* the RMW creation in the single path happens in request order too: same draw bookkeeping *)
      match materialise cfg v bl plan drawn (drawn + count_multi plan)%nat with
      | Ok out => Ok (plan, out, map (fun x => (q_id (fst (fst x)),
                                                match snd (fst x) with BErr | BEncErr | BBuildErr => true | _ => false end)) bl)
      | Err e => Err e
      end
  end.

(* ================================================================ outcomes *)
(* a write service reply is a success when its general status is 0 (6 also counts for the fragmented
   service: it is in MULTI_PACKET_SERVICES) *)
Definition status_ok (frag : bool) (s : Z) : bool := (s =? Gen.Consts.SUCCESS) || (frag && (s =? Gen.Consts.INSUFFICIENT_PACKETS)).

Fixpoint zip_ok (ids : list Z) (sts : list Z) : list (Z * bool) :=
  match ids, sts with
  | i :: r, s :: t => (i, status_ok false s) :: zip_ok r t
  | _, _ => []                                                  (* zip: a missing reply leaves the request without result *)
  end.

(* [statuses]: for every packet sent, the general statuses of the service replies it got
   (multi: one per embedded reply; fragmented: one per segment) -> request id, success *)
Fixpoint packet_results (out : list outpkt) (statuses : list (list Z)) : list (Z * bool) :=
  match out, statuses with
  | o :: r, sts :: t =>
      (match o with
       | OMulti _ ids _ => zip_ok ids sts
       | OSingle id _ => [(id, match sts with [s] => status_ok false s | _ => false end)]
       | OFrag id ms => [(id, Nat.eqb (List.length sts) (List.length ms) && forallb (status_ok true) sts)]
       | ORmw _ ids _ => let ok := match sts with [s] => status_ok false s | _ => false end in
                         map (fun i => (i, ok)) ids
       end) ++ packet_results r t
  | _, _ => []
  end.

(* write(): `for r in requests: if isinstance(r, ReadModifyWriteRequestPacket): result =
   write_results.pop(r.request_id)`: write_results is a dict, so two RMW packets with the same
   request id (the single-request path gives every one of them -1) leave ONE entry; the second pop
   raises KeyError out of write() *)
Fixpoint rmw_fanout_ok (out : list outpkt) (popped : list Z) : bool :=
  match out with
  | [] => true
  | ORmw rid _ _ :: r => if existsb (Z.eqb rid) popped then false else rmw_fanout_ok r (rid :: popped)
  | _ :: r => rmw_fanout_ok r popped
  end.

Definition write_outcome (out : list outpkt) (statuses : list (list Z)) : res (list (Z * bool)) :=
  if rmw_fanout_ok out [] then Ok (packet_results out statuses) else Err (Foreign KeyError).

Fixpoint assoc_bool (l : list (Z * bool)) (k : Z) : option bool :=
  match l with
  | [] => None
  | (k', b) :: r => match assoc_bool r k with Some b' => Some b' | None => if k' =? k then Some b else None end
  end.   (* write_results is a dict: the LAST result stored for an id wins *)

(* truthiness of the Tag write() returns for request q *)
Definition final_ok (results : list (Z * bool)) (failed : list (Z * bool)) (q : wparsed) : bool :=
  match assoc_bool failed (q_id q) with
  | Some true => false
  | _ => match assoc_bool results (q_id q) with
         | Some ok => ok && negb (match q_value q with PNone => true | _ => false end)
         | None => false                                          (* KeyError -> "Invalid tag request" *)
         end
  end.
