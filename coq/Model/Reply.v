(* Model/Reply.v — executable model of how pycomm3 classifies replies (property C13).

   Mirrors, function by function:
     packets/base.py        ResponsePacket.__init__/_parse_reply/is_valid/error
     packets/ethernetip.py  SendUnitData/SendRRData/RegisterSession/ListIdentity response classes
     packets/cip.py         GenericConnected/GenericUnconnected response classes
     packets/logix.py       ReadTag, ReadTagFragmented, WriteTag(+Fragmented, ReadModifyWrite), MultiService
     packets/util.py        get_service_status, get_extended_status, parse_read_reply (decoder = parameter)
     cip/services.py        Services.from_reply, MULTI_PACKET_SERVICES
     cip/data_types.py      ElementaryDataType.decode on bytes / on a stream (BufferEmptyError, DataError texts)
     logix_driver.py        _send_requests, _send_read_fragmented, _send_write_fragmented, read/write result
                            post-processing;  cip_driver.py generic_message, _register_session

   Definitions only (no proofs).  Exceptions are data WITH their message text ([rm]) because the
   code puts str(err) into the error text.  The model reproduces what the code DOES, including the
   exceptions that escape the response constructors. *)
From Coq Require Import String.
From PV Require Import Base.Bytes Base.Res Base.Proto Base.PyStr.
From PV Require Import Model.EnumMapDefs Model.EnumMap.
From PV Require Import Gen.Tables Gen.Types Gen.Status Gen.Consts Gen.ReplyTables.
Open Scope Z_scope.

Definition T (s : string) : text := zs_of_string s.

(* ---------------------------------------------------------------- results carrying str(err) *)
Inductive rm (A : Type) := ROk (a : A) | RErr (e : exn) (msg : text).
Arguments ROk {A} a.
Arguments RErr {A} e msg.

Definition rm_to_res {A} (r : rm A) : res A := match r with ROk a => Ok a | RErr e _ => Err e end.
Definition rm_is_library {A} (r : rm A) : bool := is_library (rm_to_res r).

(* ---------------------------------------------------------------- repr(bytes) *)
Definition printable (c : Z) : bool := (32 <=? c) && (c <? 127).
Definition repr_byte (q : Z) (c : Z) : text :=
  if (c =? q) || (c =? 92) then [92; c]
  else if c =? 9 then [92; 116]
  else if c =? 10 then [92; 110]
  else if c =? 13 then [92; 114]
  else if printable c then [c]
  else [92; 120; hexdigit ((c / 16) mod 16); hexdigit (c mod 16)].
Definition bytes_repr (b : bytes) : text :=
  let q := if existsb (Z.eqb 39) b && negb (existsb (Z.eqb 34) b) then 34 else 39 in
  98 :: q :: flat_map (repr_byte q) b ++ [q].

(* ---------------------------------------------------------------- elementary integer types (Gen/Types.v rows) *)
Record ety := { ety_name : text; ety_size : nat; ety_signed : bool }.
Fixpoint find_row (rows : list (list Z * Z * Z * list Z * list Z * list Z * list Z)) (n : text) : option (Z * list Z) :=
  match rows with
  | [] => None
  | (n', _, sz, fmt, _, _, _) :: r => if text_eqb n' n then Some (sz, fmt) else find_row r n
  end.
(* struct format "<b" "<h" "<i" "<q" signed; "<B" "<H" "<I" "<Q" unsigned *)
Definition fmt_signed (fmt : list Z) : bool :=
  match fmt with [60; c] => (c =? 98) || (c =? 104) || (c =? 105) || (c =? 113) | _ => false end.
Definition elem_ty (n : string) : ety :=
  match find_row type_rows (T n) with
  | Some (sz, fmt) => {| ety_name := T n; ety_size := Z.to_nat sz; ety_signed := fmt_signed fmt |}
  | None => {| ety_name := T n; ety_size := 0; ety_signed := false |}
  end.
Definition USINT_t := elem_ty "USINT".
Definition UINT_t := elem_ty "UINT".
Definition UDINT_t := elem_ty "UDINT".
Definition DINT_t := elem_ty "DINT".

Definition err_unpacking (buf_repr name : text) : text :=
  T "Error unpacking " ++ buf_repr ++ T " as " ++ name.

Definition elem_value (t : ety) (data : bytes) : Z :=
  if ety_signed t then to_signed (ety_size t) (le_dec data) else le_dec data.

(* DataType.decode(buffer) for a bytes buffer:  stream.read(size); empty -> BufferEmptyError();
   short -> struct.error -> DataError("Error unpacking <repr(buffer)> as <NAME>") *)
Definition decode_elem (t : ety) (buf : bytes) : rm Z :=
  let data := firstn (ety_size t) buf in
  match data with
  | [] => RErr BufferEmpty []
  | _ => if (length data <? ety_size t)%nat then RErr DataError (err_unpacking (bytes_repr buf) (ety_name t))
         else ROk (elem_value t data)
  end.
(* DataType.decode(None): _as_stream(None) is None, None.read -> AttributeError -> DataError *)
Definition decode_elem_none (t : ety) : rm Z := RErr DataError (err_unpacking (T "None") (ety_name t)).

(* DataType.decode(stream) for a BytesIO: [whole] = stream.getvalue(), [rest] = unread part *)
Definition decode_elem_stream (t : ety) (whole rest : bytes) : rm (Z * bytes) :=
  let data := firstn (ety_size t) rest in
  match data with
  | [] => RErr BufferEmpty []
  | _ => if (length data <? ety_size t)%nat then RErr DataError (err_unpacking (bytes_repr whole) (ety_name t))
         else ROk (elem_value t data, skipn (ety_size t) rest)
  end.

(* USINT.encode(v): pack("<B", v) fails outside 0..255 -> DataError(f"Error packing {v!r} as USINT") *)
Definition encode_usint (v : Z) : rm bytes :=
  if (0 <=? v) && (v <? 256) then ROk [v]
  else RErr DataError (T "Error packing " ++ print_int v ++ T " as " ++ ety_name USINT_t).

(* ---------------------------------------------------------------- status texts *)
(* f"{n:0>2x}" for any integer: sign, lower-case hex, left-padded with '0' to two characters *)
Definition hex_min2_z (n : Z) : text := if n <? 0 then 45 :: hex_digits (S (Z.to_nat (Z.log2 (- n)))) (- n) [] else hex_min2 n.
(* packets/util.get_service_status *)
Definition get_service_status_z (status : Z) : text :=
  match ilookup service_status status with
  | Some s => s
  | None => unknown_error_prefix ++ hex_min2_z status ++ [41]
  end.

Fixpoint ilookup2 (d : list (Z * list (Z * list Z))) (k : Z) : option (list (Z * list Z)) :=
  match d with
  | [] => None
  | (k', v) :: r => match ilookup2 r k with Some v' => Some v' | None => if k' =? k then Some v else None end
  end.
(* EXTEND_CODES[status][extended_status]; None = KeyError *)
Definition extend_text (status ext : Z) : option text :=
  match ilookup2 extend_codes status with Some sub => ilookup sub ext | None => None end.

Definition ext_size_unknown : text := T "[ERROR] Extended Status Size Unknown".

(* packets/util.get_extended_status(msg, start) *)
Definition get_extended_status (msg : bytes) (start : nat) : rm (option text) :=
  let whole := skipn start msg in
  match decode_elem_stream USINT_t whole whole with
  | RErr e m => RErr e m
  | ROk (status, s1) =>
      match decode_elem_stream USINT_t whole s1 with
      | RErr e m => RErr e m
      | ROk (sz, s2) =>
          let size2 := sz * 2 in
          let fin (ext : Z) : rm (option text) :=
            ROk (match extend_text status ext with
                 | Some t => Some (t ++ T "  (" ++ hex_min2_z status ++ T ", " ++ hex_min2_z ext ++ T ")")
                 | None => None
                 end) in
          if size2 =? 0 then fin 0
          else if size2 =? 1 then
            match decode_elem_stream USINT_t whole s2 with RErr e m => RErr e m | ROk (e, _) => fin e end
          else if size2 =? 2 then
            match decode_elem_stream UINT_t whole s2 with RErr e m => RErr e m | ROk (e, _) => fin e end
          else if size2 =? 4 then
            match decode_elem_stream UDINT_t whole s2 with RErr e m => RErr e m | ROk (e, _) => fin e end
          else ROk (Some ext_size_unknown)
      end
  end.

(* ---------------------------------------------------------------- Services.from_reply, MULTI_PACKET_SERVICES *)
Definition services_get (k : option key) : option key :=
  match k with Some k => get type_codes tbl_Services k None | None => None end.
(* Services.from_reply(reply_service) = cls.get(USINT.encode(USINT.decode(reply_service) - 128)) *)
Definition from_reply (reply_service : bytes) : rm (option key) :=
  match decode_elem USINT_t reply_service with
  | RErr e m => RErr e m
  | ROk v => match encode_usint (v - 128) with
             | RErr e m => RErr e m
             | ROk b => ROk (services_get (Some (KBytes b)))
             end
  end.
Definition in_multi_packet_services (s : option key) : bool :=
  match s with
  | Some k => existsb (fun '(_, v) => key_eqb k (KBytes v)) multi_packet_services
  | None => false
  end.

(* ---------------------------------------------------------------- response objects *)
Record resp := mkResp {
  r_raw : option bytes;
  r_error : option text;            (* _error *)
  r_command : option bytes;
  r_command_status : option Z;
  r_service : option key;
  r_service_status : option Z;
  r_data : option bytes;
  r_session : option Z              (* RegisterSessionResponsePacket.session *)
}.
Definition set_error (r : resp) (e : text) : resp :=
  mkResp (r_raw r) (Some e) (r_command r) (r_command_status r) (r_service r) (r_service_status r) (r_data r) (r_session r).
Definition set_service (r : resp) (s : option key) : resp :=
  mkResp (r_raw r) (r_error r) (r_command r) (r_command_status r) s (r_service_status r) (r_data r) (r_session r).
Definition set_status_data (r : resp) (st : Z) (d : bytes) : resp :=
  mkResp (r_raw r) (r_error r) (r_command r) (r_command_status r) (r_service r) (Some st) (Some d) (r_session r).
Definition set_data (r : resp) (d : bytes) : resp :=
  mkResp (r_raw r) (r_error r) (r_command r) (r_command_status r) (r_service r) (r_service_status r) (Some d) (r_session r).
Definition set_session (r : resp) (s : Z) : resp :=
  mkResp (r_raw r) (r_error r) (r_command r) (r_command_status r) (r_service r) (r_service_status r) (r_data r) (Some s).

Definition fail_prefix : text := T "Failed to parse reply - ".
Definition no_response_data : text := T "No response data received".
Definition unknown_error : text := T "Unknown Error".
Definition fragments_failed : text := T "One or more fragment responses failed".

(* ResponsePacket.__init__(request, None) *)
Definition resp_none : resp := mkResp None (Some no_response_data) None None None None None None.

(* ResponsePacket._parse_reply *)
Definition parse_base (raw : bytes) : resp :=
  let r := mkResp (Some raw) None (Some (firstn 2 raw)) None None None None None in
  match decode_elem DINT_t (slice 8 12 raw) with
  | ROk v => mkResp (Some raw) None (Some (firstn 2 raw)) (Some v) None None None None
  | RErr _ m => set_error r (fail_prefix ++ m)
  end.

(* SendUnitData/SendRRData._parse_reply with the class's offsets *)
Definition parse_cip (o_svc o_st o_data : nat) (raw : bytes) : resp :=
  let r := parse_base raw in
  match from_reply (slice o_svc (S o_svc) raw) with
  | RErr _ m => set_error r (fail_prefix ++ m)
  | ROk name =>
      let r1 := set_service r (services_get name) in
      match decode_elem USINT_t (slice o_st (S o_st) raw) with
      | RErr _ m => set_error r1 (fail_prefix ++ m)
      | ROk st => set_status_data r1 st (skipn o_data raw)
      end
  end.
Definition parse_unit (raw : bytes) : resp := parse_cip 46 48 50 raw.
Definition parse_rr (raw : bytes) : resp := parse_cip 40 42 44 raw.

(* RegisterSessionResponsePacket._parse_reply *)
Definition parse_register (raw : bytes) : resp :=
  let r := parse_base raw in
  match decode_elem UDINT_t (slice 4 8 raw) with
  | ROk s => set_session r s
  | RErr _ m => set_error r (fail_prefix ++ m)
  end.

(* ListIdentityResponsePacket._parse_reply; the identity decoder (C16) is a parameter *)
Definition parse_list_identity (dec_identity : bytes -> rm unit) (raw : bytes) : resp :=
  let r := set_data (parse_base raw) (skipn 26 raw) in
  match dec_identity (skipn 26 raw) with
  | ROk _ => r
  | RErr _ m => set_error r (fail_prefix ++ m)
  end.

Inductive rkind := KBase | KUnit | KRR | KRegister | KListIdentity.

Definition is_none {A} (o : option A) : bool := match o with None => true | Some _ => false end.
Definition is_some {A} (o : option A) : bool := match o with None => false | Some _ => true end.
Definition opt_is (o : option Z) (v : Z) : bool := match o with Some x => x =? v | None => false end.

(* ResponsePacket.is_valid *)
Definition is_valid_base (r : resp) : bool :=
  is_none (r_error r) && is_some (r_command r) && opt_is (r_command_status r) SUCCESS.
Definition is_valid (k : rkind) (r : resp) : bool :=
  match k with
  | KBase | KListIdentity => is_valid_base r
  | KUnit => is_valid_base r &&
             (opt_is (r_service_status r) SUCCESS
              || (opt_is (r_service_status r) INSUFFICIENT_PACKETS && in_multi_packet_services (r_service r)))
  | KRR => is_valid_base r && opt_is (r_service_status r) SUCCESS
  | KRegister => is_valid_base r && is_some (r_session r)
  end.

(* command_extended_status / service_extended_status *)
Definition with_ext (status : text) (ext : option text) : text :=
  match ext with Some ((_ :: _) as e) => status ++ T " - " ++ e | _ => status end.
Definition extended_status (k : rkind) (r : resp) (code : Z) : rm text :=
  match k with
  | KUnit | KRR =>
      let status := get_service_status_z code in
      match r_raw r with
      | None => RErr DataError (T "unreachable: status without raw")
      | Some raw =>
          match get_extended_status raw (match k with KUnit => 48 | _ => 42 end) with
          | RErr e m => RErr e m
          | ROk ext => ROk (with_ext status ext)
          end
      end
  | _ => ROk unknown_error
  end.

(* ResponsePacket.error (a property: it can raise) *)
Definition not_none_or_success (o : option Z) : option Z :=
  match o with Some v => if v =? SUCCESS then None else Some v | None => None end.
Definition some_text (r : rm text) : rm (option text) :=
  match r with RErr e m => RErr e m | ROk t => ROk (Some t) end.
Definition error (k : rkind) (r : resp) : rm (option text) :=
  if is_valid k r then ROk None
  else match r_error r with
       | Some e => ROk (Some e)
       | None =>
           match not_none_or_success (r_command_status r) with
           | Some cs => some_text (extended_status k r cs)          (* command_extended_status() *)
           | None =>
               match not_none_or_success (r_service_status r) with
               | Some ss => some_text (extended_status k r ss)      (* service_extended_status() *)
               | None => ROk (Some unknown_error)
               end
           end
       end.

(* ---------------------------------------------------------------- typed responses *)
Inductive value := VBytes (b : bytes) | VInt (z : Z) | VList (l : list Z).
Definition decoder := bytes -> rm value.            (* DataType.decode(bytes) *)
Definition rdecoder := bool -> bytes -> rm value.   (* parse_read_reply: is_struct, stream content *)

Record gresp := { g_r : resp; g_value : option value }.

Definition unreachable_no_data : text := T "unreachable: valid response without data".

(* GenericConnected/UnconnectedResponsePacket._parse_reply *)
Definition parse_generic (k : rkind) (dt : option decoder) (raw : bytes) : gresp :=
  let r := match k with KRR => parse_rr raw | _ => parse_unit raw end in
  match dt with
  | None => {| g_r := r; g_value := option_map VBytes (r_data r) |}
  | Some d =>
      if is_valid k r then
        match r_data r with
        | None => {| g_r := set_error r (fail_prefix ++ unreachable_no_data); g_value := None |}
        | Some data => match d data with
                       | ROk v => {| g_r := r; g_value := Some v |}
                       | RErr _ m => {| g_r := set_error r (fail_prefix ++ m); g_value := None |}
                       end
        end
      else {| g_r := r; g_value := None |}
  end.

(* packets/util.parse_read_reply: the struct marker decides where the value starts *)
Definition is_struct_reply (data : bytes) : bool := text_eqb (firstn 2 data) STRUCTURE_READ_REPLY.
Definition parse_read_reply (dec : rdecoder) (data : bytes) : rm value :=
  if is_struct_reply data then dec true (skipn 4 data) else dec false (skipn 2 data).

(* ReadTagResponsePacket._parse_reply(dont_parse=False) *)
Definition parse_read_tag (dec : rdecoder) (raw : bytes) : gresp :=
  let r := parse_unit raw in
  if is_valid KUnit r then
    match r_data r with
    | None => {| g_r := set_error r (fail_prefix ++ unreachable_no_data); g_value := None |}
    | Some data => match parse_read_reply dec data with
                   | ROk v => {| g_r := r; g_value := Some v |}
                   | RErr _ m => {| g_r := set_error r (fail_prefix ++ m); g_value := None |}
                   end
    end
  else {| g_r := r; g_value := None |}.

(* ReadTagFragmentedResponsePacket._parse_reply: a reply without service data (self.data is None:
   the error is already recorded) keeps no value bytes *)
Record fresp := { f_r : resp; f_value_bytes : bytes; f_data_type : bytes; f_value : option value }.
Definition parse_read_frag (raw : bytes) : fresp :=
  let r := parse_unit raw in
  match r_data r with
  | None => {| f_r := r; f_value_bytes := []; f_data_type := []; f_value := None |}
  | Some data =>
      if is_struct_reply data
      then {| f_r := r; f_value_bytes := skipn 4 data; f_data_type := firstn 4 data; f_value := None |}
      else {| f_r := r; f_value_bytes := skipn 2 data; f_data_type := firstn 2 data; f_value := None |}
  end.
(* ReadTagFragmentedResponsePacket.parse_value after value_bytes was replaced by the joined bytes *)
Definition frag_parse_value (dec : rdecoder) (f : fresp) (joined : bytes) : fresp :=
  if is_valid KUnit (f_r f) then
    match parse_read_reply dec (f_data_type f ++ joined) with
    | ROk v => {| f_r := f_r f; f_value_bytes := joined; f_data_type := f_data_type f; f_value := Some v |}
    | RErr _ m => {| f_r := set_error (f_r f) (fail_prefix ++ m); f_value_bytes := joined;
                     f_data_type := f_data_type f; f_value := None |}
    end
  else {| f_r := f_r f; f_value_bytes := joined; f_data_type := f_data_type f; f_value := None |}.

(* ---------------------------------------------------------------- MultiServiceResponsePacket *)
Inductive sreq := SRead (d : rdecoder) | SWrite (v : value).
Record sresp := { s_r : resp; s_value : option value }.

(* offsets = (UINT.decode(offset_data[i:i+2]) for i in range(0, len(offset_data), 2)) — lazily; a
   trailing single byte raises DataError when reached *)
Fixpoint decode_offsets (od : bytes) : rm (list Z) :=
  match od with
  | [] => ROk []
  | a :: r1 =>
      match r1 with
      | [] => RErr DataError (err_unpacking (bytes_repr [a]) (ety_name UINT_t))
      | b :: r2 => match decode_offsets r2 with
                   | ROk l => ROk (elem_value UINT_t [a; b] :: l)
                   | RErr e m => RErr e m
                   end
      end
  end.
(* [data[i:j] for i, j in zip_longest(start, end)] with end = start advanced by one *)
Fixpoint reply_slices (data : bytes) (offs : list Z) : list bytes :=
  match offs with
  | [] => []
  | o :: r => match r with
              | [] => [skipn (Z.to_nat o) data]
              | o' :: _ => slice (Z.to_nat o) (Z.to_nat o') data :: reply_slices data r
              end
  end.
(* the try block of MultiServiceResponsePacket._parse_reply: the service-reply byte ranges, or
   what it raised (recorded as the error text).  next(end, None): an empty offset table gives no
   service replies. *)
Definition split_multi (data : bytes) : rm (list bytes) :=
  match decode_elem UINT_t data with
  | RErr e m => RErr e m
  | ROk num_replies =>
      match decode_offsets (slice 2 (2 + 2 * Z.to_nat num_replies) data) with
      | RErr e m => RErr e m
      | ROk offs => ROk (reply_slices data offs)
      end
  end.

Definition padding46 : bytes := zeros 46.
Definition sub_response (q : sreq) (d : bytes) : sresp :=
  match q with
  | SRead dec => let g := parse_read_tag dec (padding46 ++ d) in {| s_r := g_r g; s_value := g_value g |}
  | SWrite v => {| s_r := parse_unit (padding46 ++ d); s_value := Some v |}
  end.
Fixpoint zip_sub (ds : list bytes) (qs : list sreq) : list sresp :=
  match ds, qs with
  | d :: ds', q :: qs' => sub_response q d :: zip_sub ds' qs'
  | _, _ => []
  end.
(* self.raw[49:50] == b"\x00": the reply announces no additional status *)
Definition no_additional_status (raw : bytes) : bool :=
  match slice 49 50 raw with [b] => b =? 0 | _ => false end.
(* MultiServiceResponsePacket._parse_reply: nothing is split when the reply could not be parsed,
   is an encapsulation error, announces additional status (an error reply: what follows is not
   service replies), or carries no data (`not self.data`) *)
Definition parse_multi (reqs : list sreq) (raw : bytes) : resp * list sresp :=
  let r := parse_unit raw in
  if is_some (r_error r) || negb (opt_is (r_command_status r) SUCCESS) || negb (no_additional_status raw) then (r, [])
  else match r_data r with
       | None => (r, [])
       | Some [] => (r, [])
       | Some data =>
           match split_multi data with
           | ROk ds => (r, zip_sub ds reqs)
           | RErr _ m => (set_error r (fail_prefix ++ m), [])
           end
       end.

(* ---------------------------------------------------------------- Tags and the public calls *)
Record tag := { t_value : option value; t_error : option text }.
Definition tag_truthy (t : tag) : bool := is_some (t_value t) && is_none (t_error t).

(* LogixDriver._send_requests, non-multi branch, after the response object exists *)
Definition tag_of_response (k : rkind) (r : resp) (v : option value) : rm tag :=
  match error k r with
  | RErr e m => RErr e m
  | ROk err => if is_valid k r then ROk {| t_value := v; t_error := err |}
               else ROk {| t_value := None; t_error := err |}
  end.
(* read(): `if result: ... else: Tag(user_tag, None, None, result.error)` (no bit/BOOL-array handling) *)
Definition read_post (t : tag) : tag := if tag_truthy t then t else {| t_value := None; t_error := t_error t |}.
(* write(): Tag(user_tag, value, data_type, result.error) *)
Definition write_post (v : value) (t : tag) : tag := {| t_value := Some v; t_error := t_error t |}.

Definition read_single (dec : rdecoder) (raw : bytes) : rm tag :=
  let g := parse_read_tag dec raw in
  match tag_of_response KUnit (g_r g) (g_value g) with RErr e m => RErr e m | ROk t => ROk (read_post t) end.

(* WriteTag / ReadModifyWrite responses: SendUnitData parsing only *)
Definition write_single (v : value) (raw : bytes) : rm tag :=
  match tag_of_response KUnit (parse_unit raw) (Some v) with RErr e m => RErr e m | ROk t => ROk (write_post v t) end.

Definition failed_fragments : resp := set_error resp_none fragments_failed.
Definition receive_failed : text := T "failed to receive reply".

(* LogixDriver._send_read_fragmented: one reply per iteration; no more replies = the socket fails.
   The last iteration evaluates `response.error` (for logging) outside any try: it can raise. *)
Fixpoint read_frag_loop (dec : rdecoder) (replies : list bytes) (acc : list fresp) : rm (resp * option value) :=
  match replies with
  | [] => RErr CommError receive_failed
  | raw :: rest =>
      let f := parse_read_frag raw in
      let acc' := acc ++ [f] in
      if opt_is (r_service_status (f_r f)) INSUFFICIENT_PACKETS then read_frag_loop dec rest acc'
      else match error KUnit (f_r f) with
           | RErr e m => RErr e m
           | ROk _ =>
               if forallb (fun x => is_valid KUnit (f_r x)) acc' then
                 let fin := frag_parse_value dec f (concat (map f_value_bytes acc')) in
                 ROk (f_r fin, f_value fin)
               else ROk (failed_fragments, None)
           end
  end.
Definition read_fragmented (dec : rdecoder) (replies : list bytes) : rm tag :=
  match read_frag_loop dec replies [] with
  | RErr e m => RErr e m
  | ROk (r, v) => match tag_of_response KUnit r v with RErr e m => RErr e m | ROk t => ROk (read_post t) end
  end.

(* LogixDriver._send_write_fragmented with [n] segments *)
Fixpoint write_frag_loop (n : nat) (replies : list bytes) (acc : list resp) : rm (list resp) :=
  match n with
  | O => ROk acc
  | S n' => match replies with
            | [] => RErr CommError receive_failed
            | raw :: rest => write_frag_loop n' rest (acc ++ [parse_unit raw])
            end
  end.
Definition write_fragmented (v : value) (n : nat) (replies : list bytes) : rm tag :=
  match write_frag_loop n replies [] with
  | RErr e m => RErr e m
  | ROk rs =>
      if forallb (is_valid KUnit) rs then
        match rev rs with
        | [] => RErr (Foreign IndexError) (T "list index out of range")   (* responses[-1] of no segments *)
        | last :: _ => match tag_of_response KUnit last (Some v) with
                       | RErr e m => RErr e m | ROk t => ROk (write_post v t) end
        end
      else match tag_of_response KUnit failed_fragments (Some v) with
           | RErr e m => RErr e m | ROk t => ROk (write_post v t) end
  end.

(* _send_requests, multi branch: Tag(resp.tag, resp.value, resp.data_type, None) if resp else
   Tag(req.tag, None, None, req.error or resp.error) *)
Fixpoint multi_tags (rs : list sresp) : rm (list tag) :=
  match rs with
  | [] => ROk []
  | s :: rest =>
      let here : rm tag :=
        if is_valid KUnit (s_r s) then ROk {| t_value := s_value s; t_error := None |}
        else match error KUnit (s_r s) with
             | RErr e m => RErr e m
             | ROk err => ROk {| t_value := None; t_error := err |}
             end in
      match here with
      | RErr e m => RErr e m
      | ROk t => match multi_tags rest with RErr e m => RErr e m | ROk ts => ROk (t :: ts) end
      end
  end.
(* read()/write(): results[i] for a request without a sub-reply is a KeyError caught per tag:
   Tag(tag, None, None, f"Invalid tag request - {err!r}") *)
Definition invalid_tag_request (i : nat) : text :=
  T "Invalid tag request - KeyError(" ++ print_int (Z.of_nat i) ++ T ")".
Definition post_multi (q : sreq) (t : tag) : tag :=
  match q with SRead _ => read_post t | SWrite v => write_post v t end.
Fixpoint collect_results (i : nat) (qs : list sreq) (ts : list tag) : list tag :=
  match qs with
  | [] => []
  | q :: qs' => match ts with
                | t :: ts' => post_multi q t :: collect_results (S i) qs' ts'
                | [] => {| t_value := None; t_error := Some (invalid_tag_request i) |} :: collect_results (S i) qs' []
                end
  end.
(* _send_requests, multi branch, the requests the reply carries no service reply for:
   Tag(req.tag, None, None, req.error or response.error or "No reply received for request") *)
Definition no_reply_received : text := T "No reply received for request".
Definition rest_error (r : resp) : rm text :=
  match error KUnit r with
  | RErr e m => RErr e m
  | ROk (Some ((_ :: _) as t)) => ROk t
  | ROk _ => ROk no_reply_received
  end.
(* read/write of >= 2 requests that all fit into one multi-service packet *)
Definition rw_multi (reqs : list sreq) (raw : bytes) : rm (list tag) :=
  let '(r, subs) := parse_multi reqs raw in
  match multi_tags subs with
  | RErr e m => RErr e m
  | ROk ts =>
      match skipn (length subs) reqs with
      | [] => ROk (collect_results O reqs ts)
      | missing =>
          match rest_error r with
          | RErr e m => RErr e m
          | ROk e => ROk (collect_results O reqs (ts ++ map (fun _ => {| t_value := None; t_error := Some e |}) missing))
          end
      end
  end.

(* CIPDriver.generic_message: Tag(name, response.value, data_type, error=response.error) *)
Definition generic_message (k : rkind) (dt : option decoder) (raw : bytes) : rm tag :=
  let g := parse_generic k dt raw in
  match error k (g_r g) with
  | RErr e m => RErr e m
  | ROk err => ROk {| t_value := g_value g; t_error := err |}
  end.

(* CIPDriver._register_session: the session id, or None *)
Definition register_session (raw : bytes) : option Z :=
  let r := parse_register raw in if is_valid KRegister r then r_session r else None.

(* CIPDriver.open (socket creation/connect succeed): `_register_session() is None` -> False; every
   exception is re-raised as CommError("failed to open a connection") *)
Definition open_failed : text := T "failed to open a connection".
Definition open_call (replies : list bytes) : rm bool :=
  match replies with
  | [] => RErr CommError open_failed
  | raw :: _ => ROk (is_some (register_session raw))
  end.

(* CIPDriver._forward_open (session registered): generic_message(..., connected=False); `if response:` *)
Definition forward_open (raw : bytes) : rm bool :=
  match generic_message KRR None raw with
  | RErr e m => RErr e m
  | ROk t => ROk (tag_truthy t)
  end.
(* cip_driver.with_forward_open on a driver without a connection: an Extended Forward Open, then a
   standard one; returns the replies that are left for the wrapped call *)
Definition not_connected (fname : text) : text :=
  T "Target did not connected. " ++ fname ++ T " will not be executed.".
Definition with_forward_open (fname : text) (replies : list bytes) : rm (list bytes) :=
  match replies with
  | [] => RErr CommError receive_failed
  | r1 :: rest =>
      match forward_open r1 with
      | RErr e m => RErr e m
      | ROk true => ROk rest
      | ROk false =>
          match rest with
          | [] => RErr CommError receive_failed
          | r2 :: rest' =>
              match forward_open r2 with
              | RErr e m => RErr e m
              | ROk true => ROk rest'
              | ROk false => RErr ResponseError (not_connected fname)
              end
          end
      end
  end.

(* ---------------------------------------------------------------- concrete decoders
   (cip/data_types.py: elementary integer types and Array(_, elementary); packets/util.parse_read_reply
   for an atomic tag).  They instantiate the decoder parameters for the correspondence. *)
Inductive rty := RAtomic (t : ety) | RArray (t : ety).

Fixpoint decode_n (t : ety) (whole : bytes) (n : nat) (rest : bytes) : rm (list Z) :=
  match n with
  | O => ROk []
  | S n' => match decode_elem_stream t whole rest with
            | RErr e m => RErr e m
            | ROk (v, rest') => match decode_n t whole n' rest' with
                                | RErr e m => RErr e m
                                | ROk l => ROk (v :: l)
                                end
            end
  end.
(* data_type["data_type"]["attributes"] on an atomic tag: "DINT"["attributes"] *)
Definition str_indices : text := T "string indices must be integers, not 'str'".
Definition err_unpacking_into (name : text) (n : nat) (buf_repr : text) : text :=
  T "Error unpacking into " ++ name ++ T "[" ++ print_int (Z.of_nat n) ++ T "] from " ++ buf_repr.
Definition read_decoder (ty : rty) (elements : nat) : rdecoder := fun is_struct stream =>
  match ty with
  | RAtomic t =>
      match decode_elem_stream t stream stream with
      | RErr e m => RErr e m
      | ROk (v, _) => if is_struct then RErr (Foreign TypeError) str_indices else ROk (VInt v)
      end
  | RArray t =>
      match decode_n t stream elements stream with
      | RErr BufferEmpty m => RErr BufferEmpty m
      | RErr _ _ => RErr DataError (err_unpacking_into (ety_name t) elements (bytes_repr stream))
      | ROk l => match l with
                 | [v] => if (elements =? 1)%nat then ROk (VInt v) else ROk (VList l)
                 | _ => ROk (VList l)
                 end
      end
  end.
(* DataType.decode(bytes) for generic_message(data_type=T) *)
Definition elem_decoder (t : ety) : decoder := fun buf =>
  match decode_elem t buf with RErr e m => RErr e m | ROk v => ROk (VInt v) end.

(* ---------------------------------------------------------------- the public calls, as one function *)
Inductive call :=
  | CRead (dec : rdecoder)                     (* LogixDriver.read of one tag, plain Read Tag *)
  | CReadFrag (dec : rdecoder)                 (* ... Read Tag Fragmented (one reply per fragment) *)
  | CWrite (v : value)                         (* LogixDriver.write of one tag / one bit (read-modify-write) *)
  | CWriteFrag (v : value) (n : nat)           (* ... Write Tag Fragmented in n + 1 segments: the segment count is fixed by
                                                  the request (value length / segment size), never by a reply, and a request
                                                  that is fragmented has a value *)
  | CMulti (reqs : list sreq)                  (* read/write of >= 2 tags in one multi-service packet *)
  | CGeneric (k : rkind) (dt : option decoder) (* CIPDriver.generic_message connected (KUnit) / unconnected (KRR) *)
  | COpen                                      (* CIPDriver.open: register session *)
  | CWithFO (fname : text) (c : call).         (* the call on a driver that still has to Forward Open *)

Inductive out := OTags (l : list tag) | OBool (b : bool).

Definition one_reply (replies : list bytes) (f : bytes -> rm tag) : rm out :=
  match replies with
  | [] => RErr CommError receive_failed
  | raw :: _ => match f raw with RErr e m => RErr e m | ROk t => ROk (OTags [t]) end
  end.
Definition tags_out (r : rm (list tag)) : rm out :=
  match r with RErr e m => RErr e m | ROk l => ROk (OTags l) end.
Definition tag_out (r : rm tag) : rm out :=
  match r with RErr e m => RErr e m | ROk t => ROk (OTags [t]) end.

Fixpoint run_call (c : call) (replies : list bytes) : rm out :=
  match c with
  | CRead dec => one_reply replies (read_single dec)
  | CReadFrag dec => tag_out (read_fragmented dec replies)
  | CWrite v => one_reply replies (write_single v)
  | CWriteFrag v n => tag_out (write_fragmented v (S n) replies)
  | CMulti reqs => match replies with
                   | [] => RErr CommError receive_failed
                   | raw :: _ => tags_out (rw_multi reqs raw)
                   end
  | CGeneric k dt => one_reply replies (generic_message k dt)
  | COpen => match open_call replies with RErr e m => RErr e m | ROk b => ROk (OBool b) end
  | CWithFO fname c' => match with_forward_open fname replies with
                        | RErr e m => RErr e m
                        | ROk rest => run_call c' rest
                        end
  end.
