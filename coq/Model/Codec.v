(* Model/Codec.v — executable model of pycomm3's CIP data-type codecs
   (pycomm3/cip/data_types.py, custom_types.py, cip/pccc.py string types).

   Definitions only (proofs live in Proofs/Codec*.v).  The model reproduces what the code DOES,
   defects included.  Function names follow the Python (`_stream_read`, `Array.encode`, ...).

     ty   deep embedding of the type classes the library exports or constructs
     val  Python values (ints, bools, floats as binary64 bit patterns, str, bytes, list, tuple,
          ordered dict with None/str keys, None)
     encode : ty -> val -> res bytes                      = T.encode(value)
     decode : ty -> bytes -> res (val * bytes)            = T.decode(stream) : value and unread rest
     decode_fuel : nat -> ty -> bytes -> dres             the same with explicit fuel for the
          `while True` loop of Array._decode_all ([DOutOfFuel]) and with the stream position at
          the moment a BufferEmptyError is raised ([DEmpty rest]; _decode_all resumes from there).

   Elementary rows come from Gen/Types.v through [fmt_sem] / [ty_of_name]: a changed format,
   size, length type, encoding or host type in /repo changes which [ty] a name denotes. *)
From PV Require Import Base.Bytes Base.Res Gen.Types Gen.CodecFacts Model.CodecFloat.
Open Scope Z_scope.

Definition text := list Z.
(* dict keys / member names: Python None or a str ("" = Some []) *)
Definition key := option text.

Inductive val :=
  | VNone
  | VBool (b : bool)
  | VInt (z : Z)
  | VFloat (bits : Z)            (* IEEE binary64 bit pattern *)
  | VStr (s : text)
  | VBytes (b : bytes)
  | VList (l : list val)
  | VTuple (l : list val)
  | VDict (d : list (key * val)).

Inductive tenc := Latin1 | Utf8 | Utf16 | Utf32.

Inductive ty :=
  | TBool
  | TInt (sg : bool) (w : nat)                      (* struct formats b B h H i I q Q *)
  | TReal (dbl : bool)                              (* "<f" / "<d" *)
  | TDateTime                                       (* DATE_AND_TIME *)
  | TStr (lsg : bool) (lw : nat) (enc : tenc)       (* StringDataType: len_type (an integer type), encoding *)
  | TStringN
  | TNBytes (n : Z)                                 (* n_bytes(n); -1 = rest of the buffer *)
  | TBits (w : nat)                                 (* BitArrayType over an unsigned host of w bytes *)
  | TArrFixed (n : nat) (e : ty)                    (* Array(n, T) / T[n] *)
  | TArrPrefix (lsg : bool) (lw : nat) (e : ty)     (* Array(<integer type class>, T) *)
  | TArrAll (e : ty)                                (* Array(None, T) *)
  | TStruct (ms : list (key * ty))                  (* Struct(*members): member name (None/""/str), type *)
  | TFixedStr (cap : nat) (lsg : bool) (lw : nat)   (* FixedSizeString(cap, len_type) *)
  | TStructTag (ms : list (key * ty)) (offs : list nat)      (* StructTag: members, their offsets, *)
               (bits : list (text * (nat * nat)))            (* bit members name -> (offset, bit)  *)
               (priv : list text) (size : nat)               (* private names, struct_size         *)
  | TIPAddr
  | TPcccAscii
  | TPcccString.

(* ------------------------------------------------------------------ result of a decode *)
Inductive dres :=
  | DOk (v : val) (rest : bytes)
  | DErr (e : exn)               (* any exception but BufferEmptyError *)
  | DEmpty (rest : bytes)        (* BufferEmptyError, raised with the stream positioned at [rest] *)
  | DOutOfFuel.                  (* the `while True` loop of _decode_all did not finish within the fuel *)

Definition dbind (r : dres) (f : val -> bytes -> dres) : dres :=
  match r with DOk v rest => f v rest | DErr e => DErr e | DEmpty r => DEmpty r | DOutOfFuel => DOutOfFuel end.

(* DataType.decode: `except Exception as err: if BufferEmptyError: raise, else raise DataError` *)
Definition dwrap (r : dres) : dres :=
  match r with DErr _ => DErr DataError | x => x end.

Definition dres_of_res (r : res val) (rest : bytes) : dres :=
  match r with Ok v => DOk v rest | Err e => DErr e end.

(* ------------------------------------------------------------------ Python primitives on values *)
Definition zlen {A} (l : list A) : Z := Z.of_nat (length l).

(* bool(x) *)
Definition truthy (v : val) : bool :=
  match v with
  | VNone => false
  | VBool b => b
  | VInt z => negb (z =? 0)
  | VFloat b => float_truthy b
  | VStr s => match s with [] => false | _ => true end
  | VBytes b => match b with [] => false | _ => true end
  | VList l => match l with [] => false | _ => true end
  | VTuple l => match l with [] => false | _ => true end
  | VDict d => match d with [] => false | _ => true end
  end.

Definition key_val (k : key) : val := match k with None => VNone | Some s => VStr s end.

(* len(x) : TypeError for objects without __len__ *)
Definition py_len (v : val) : res Z :=
  match v with
  | VStr s => Ok (zlen s)
  | VBytes b => Ok (zlen b)
  | VList l => Ok (zlen l)
  | VTuple l => Ok (zlen l)
  | VDict d => Ok (zlen d)
  | _ => Err (Foreign TypeError)
  end.

(* iter(x) : the items a `for`/`zip`/`enumerate` sees *)
Definition py_iter (v : val) : res (list val) :=
  match v with
  | VStr s => Ok (map (fun c => VStr [c]) s)
  | VBytes b => Ok (map VInt b)
  | VList l => Ok l
  | VTuple l => Ok l
  | VDict d => Ok (map (fun kv => key_val (fst kv)) d)
  | _ => Err (Foreign TypeError)
  end.

(* x[i] for 0 <= i (dict keys are None/str in this model: an int index is a KeyError) *)
Definition py_index (v : val) (i : nat) : res val :=
  match v with
  | VStr s => match nth_error s i with Some c => Ok (VStr [c]) | None => Err (Foreign IndexError) end
  | VBytes b => match nth_error b i with Some c => Ok (VInt c) | None => Err (Foreign IndexError) end
  | VList l => match nth_error l i with Some x => Ok x | None => Err (Foreign IndexError) end
  | VTuple l => match nth_error l i with Some x => Ok x | None => Err (Foreign IndexError) end
  | VDict _ => Err (Foreign KeyError)
  | _ => Err (Foreign TypeError)
  end.

(* x[a:b] for 0 <= a <= b on sequences *)
Definition py_slice (v : val) (a b : nat) : res val :=
  match v with
  | VStr s => Ok (VStr (slice a b s))
  | VBytes s => Ok (VBytes (slice a b s))
  | VList l => Ok (VList (firstn (b - a) (skipn a l)))
  | VTuple l => Ok (VTuple (firstn (b - a) (skipn a l)))
  | VDict _ => Err (Foreign KeyError)
  | _ => Err (Foreign TypeError)
  end.

(* data[:k] for any integer k (negative k counts from the end) *)
Definition slice_to {A} (k : Z) (l : list A) : list A :=
  if 0 <=? k then firstn (Z.to_nat k) l else firstn (Z.to_nat (zlen l + k)) l.

Fixpoint text_eqb (x y : text) : bool :=
  match x, y with
  | [], [] => true
  | c :: x', d :: y' => (c =? d) && text_eqb x' y'
  | _, _ => false
  end.
Definition keyb (a b : key) : bool :=
  match a, b with
  | None, None => true
  | Some x, Some y => text_eqb x y
  | _, _ => false
  end.

(* d[k] : KeyError when absent *)
Fixpoint dict_get (d : list (key * val)) (k : key) : res val :=
  match d with
  | [] => Err (Foreign KeyError)
  | (k', v) :: r => if keyb k' k then Ok v else dict_get r k
  end.
(* d[k] = v : replaces in place, or appends (insertion order kept) *)
Fixpoint dict_set (d : list (key * val)) (k : key) (v : val) : list (key * val) :=
  match d with
  | [] => [(k, v)]
  | (k', v') :: r => if keyb k' k then (k', v) :: r else (k', v') :: dict_set r k v
  end.
(* d.pop(k, None) *)
Fixpoint dict_pop (d : list (key * val)) (k : key) : list (key * val) :=
  match d with
  | [] => []
  | (k', v') :: r => if keyb k' k then r else (k', v') :: dict_pop r k
  end.
Definition mem_text (s : text) (l : list text) : bool := existsb (text_eqb s) l.
Definition key_in (k : key) (l : list text) : bool :=
  match k with None => false | Some s => mem_text s l end.

(* ------------------------------------------------------------------ text codecs: str.encode / bytes.decode *)
Definition is_surrogate (c : Z) : bool := (0xD800 <=? c) && (c <=? 0xDFFF).
Definition scalar_ok (c : Z) : bool := (0 <=? c) && (c <=? 0x10FFFF) && negb (is_surrogate c).

Definition enc_char (e : tenc) (c : Z) : option bytes :=
  match e with
  | Latin1 => if (0 <=? c) && (c <? 256) then Some [c] else None
  | Utf8 =>
      if negb (scalar_ok c) then None
      else if c <? 0x80 then Some [c]
      else if c <? 0x800 then Some [0xC0 + c / 64; 0x80 + c mod 64]
      else if c <? 0x10000 then Some [0xE0 + c / 4096; 0x80 + (c / 64) mod 64; 0x80 + c mod 64]
      else Some [0xF0 + c / 262144; 0x80 + (c / 4096) mod 64; 0x80 + (c / 64) mod 64; 0x80 + c mod 64]
  | Utf16 =>
      if negb (scalar_ok c) then None
      else if c <? 0x10000 then Some (le_enc 2 c)
      else let c' := c - 0x10000 in Some (le_enc 2 (0xD800 + c' / 1024) ++ le_enc 2 (0xDC00 + c' mod 1024))
  | Utf32 => if scalar_ok c then Some (le_enc 4 c) else None
  end.

(* s.encode(enc): UnicodeEncodeError on an unencodable character *)
Fixpoint text_encode (e : tenc) (s : text) : res bytes :=
  match s with
  | [] => Ok []
  | c :: r => match enc_char e c with
              | None => Err (Foreign UnicodeError)
              | Some bs => match text_encode e r with Ok rs => Ok (bs ++ rs) | Err x => Err x end
              end
  end.

Definition is_cont (b : Z) : bool := (0x80 <=? b) && (b <=? 0xBF).

(* strict UTF-8 (no overlongs, no surrogates, <= U+10FFFF) *)
Fixpoint utf8_decode (fuel : nat) (bs : bytes) : option text :=
  match fuel with
  | O => match bs with [] => Some [] | _ => None end
  | S f =>
      match bs with
      | [] => Some []
      | b0 :: r0 =>
          if b0 <? 0x80 then option_map (cons b0) (utf8_decode f r0)
          else if (0xC2 <=? b0) && (b0 <=? 0xDF) then
            match r0 with
            | b1 :: r1 => if is_cont b1 then option_map (cons ((b0 - 0xC0) * 64 + (b1 - 0x80))) (utf8_decode f r1) else None
            | _ => None
            end
          else if (0xE0 <=? b0) && (b0 <=? 0xEF) then
            match r0 with
            | b1 :: b2 :: r2 =>
                let lo := if b0 =? 0xE0 then 0xA0 else 0x80 in
                let hi := if b0 =? 0xED then 0x9F else 0xBF in
                if (lo <=? b1) && (b1 <=? hi) && is_cont b2
                then option_map (cons ((b0 - 0xE0) * 4096 + (b1 - 0x80) * 64 + (b2 - 0x80))) (utf8_decode f r2)
                else None
            | _ => None
            end
          else if (0xF0 <=? b0) && (b0 <=? 0xF4) then
            match r0 with
            | b1 :: b2 :: b3 :: r3 =>
                let lo := if b0 =? 0xF0 then 0x90 else 0x80 in
                let hi := if b0 =? 0xF4 then 0x8F else 0xBF in
                if (lo <=? b1) && (b1 <=? hi) && is_cont b2 && is_cont b3
                then option_map (cons ((b0 - 0xF0) * 262144 + (b1 - 0x80) * 4096 + (b2 - 0x80) * 64 + (b3 - 0x80)))
                                (utf8_decode f r3)
                else None
            | _ => None
            end
          else None
      end
  end.

Fixpoint utf16_decode (fuel : nat) (bs : bytes) : option text :=
  match fuel with
  | O => match bs with [] => Some [] | _ => None end
  | S f =>
      match bs with
      | [] => Some []
      | l0 :: h0 :: r0 =>
          let u := l0 + 256 * h0 in
          if (0xD800 <=? u) && (u <=? 0xDBFF) then
            match r0 with
            | l1 :: h1 :: r1 =>
                let u2 := l1 + 256 * h1 in
                if (0xDC00 <=? u2) && (u2 <=? 0xDFFF)
                then option_map (cons (0x10000 + (u - 0xD800) * 1024 + (u2 - 0xDC00))) (utf16_decode f r1)
                else None
            | _ => None
            end
          else if (0xDC00 <=? u) && (u <=? 0xDFFF) then None
          else option_map (cons u) (utf16_decode f r0)
      | _ => None
      end
  end.

Fixpoint utf32_decode (fuel : nat) (bs : bytes) : option text :=
  match fuel with
  | O => match bs with [] => Some [] | _ => None end
  | S f =>
      match bs with
      | [] => Some []
      | b0 :: b1 :: b2 :: b3 :: r =>
          let c := le_dec [b0; b1; b2; b3] in
          if scalar_ok c then option_map (cons c) (utf32_decode f r) else None
      | _ => None
      end
  end.

(* b.decode(enc): UnicodeDecodeError on malformed data *)
Definition text_decode (e : tenc) (bs : bytes) : res text :=
  match e with
  | Latin1 => Ok bs
  | Utf8 => match utf8_decode (length bs) bs with Some s => Ok s | None => Err (Foreign UnicodeError) end
  | Utf16 => match utf16_decode (length bs) bs with Some s => Ok s | None => Err (Foreign UnicodeError) end
  | Utf32 => match utf32_decode (length bs) bs with Some s => Ok s | None => Err (Foreign UnicodeError) end
  end.

(* ------------------------------------------------------------------ Gen rows -> types *)
Inductive fmt_kind := FInt (sg : bool) (w : nat) | FReal (dbl : bool).

(* semantics of the struct format strings the library uses: "<" little endian, standard sizes *)
Definition fmt_sem (f : list Z) : option fmt_kind :=
  match f with
  | [60; 98] => Some (FInt true 1)    (* "<b" *)
  | [60; 66] => Some (FInt false 1)   (* "<B" *)
  | [60; 104] => Some (FInt true 2)   (* "<h" *)
  | [60; 72] => Some (FInt false 2)   (* "<H" *)
  | [60; 105] => Some (FInt true 4)   (* "<i" *)
  | [60; 73] => Some (FInt false 4)   (* "<I" *)
  | [60; 113] => Some (FInt true 8)   (* "<q" *)
  | [60; 81] => Some (FInt false 8)   (* "<Q" *)
  | [60; 102] => Some (FReal false)   (* "<f" *)
  | [60; 100] => Some (FReal true)    (* "<d" *)
  | _ => None
  end.

Definition enc_sem (e : list Z) : option tenc :=
  if text_eqb e [105; 115; 111; 45; 56; 56; 53; 57; 45; 49] then Some Latin1           (* iso-8859-1 *)
  else if text_eqb e [117; 116; 102; 45; 56] then Some Utf8                             (* utf-8 *)
  else if text_eqb e [117; 116; 102; 45; 49; 54; 45; 108; 101] then Some Utf16          (* utf-16-le *)
  else if text_eqb e [117; 116; 102; 45; 51; 50; 45; 108; 101] then Some Utf32          (* utf-32-le *)
  else None.

Definition row := (list Z * Z * Z * list Z * list Z * list Z * list Z)%type.
Definition row_name (r : row) : list Z := let '(n, _, _, _, _, _, _) := r in n.
Definition row_code (r : row) : Z := let '(_, c, _, _, _, _, _) := r in c.
Definition row_size (r : row) : Z := let '(_, _, s, _, _, _, _) := r in s.
Definition row_fmt (r : row) : list Z := let '(_, _, _, f, _, _, _) := r in f.
Definition row_len_type (r : row) : list Z := let '(_, _, _, _, l, _, _) := r in l.
Definition row_encoding (r : row) : list Z := let '(_, _, _, _, _, e, _) := r in e.
Definition row_host_type (r : row) : list Z := let '(_, _, _, _, _, _, h) := r in h.

Fixpoint find_row (rows : list row) (n : list Z) : option row :=
  match rows with
  | [] => None
  | r :: rs => if text_eqb (row_name r) n then Some r else find_row rs n
  end.

(* an integer type row: (signed, width); the declared size must be the format's size *)
Definition int_row_in (rows : list row) (n : list Z) : option (bool * nat) :=
  match find_row rows n with
  | Some r => match fmt_sem (row_fmt r) with
              | Some (FInt sg w) => if row_size r =? Z.of_nat w then Some (sg, w) else None
              | _ => None
              end
  | None => None
  end.
Definition int_row (n : list Z) : option (bool * nat) := int_row_in type_rows n.

Definition n_BOOL := [66; 79; 79; 76].
Definition n_DATE_AND_TIME := [68; 65; 84; 69; 95; 65; 78; 68; 95; 84; 73; 77; 69].
Definition n_STRINGN := [83; 84; 82; 73; 78; 71; 78].
Definition n_STRINGI := [83; 84; 82; 73; 78; 71; 73].
Definition n_UDINT := [85; 68; 73; 78; 84].
Definition n_UINT := [85; 73; 78; 84].
Definition n_USINT := [85; 83; 73; 78; 84].

(* the [ty] an exported elementary class name denotes, read off its Gen row *)
Definition ty_of_row (rows : list row) (r : row) : option ty :=
  let n := row_name r in
  if text_eqb n n_BOOL then (if (row_size r =? 1) && match row_fmt r with [] => true | _ => false end then Some TBool else None)
  else if text_eqb n n_DATE_AND_TIME then (if row_size r =? 8 then Some TDateTime else None)
  else if text_eqb n n_STRINGN then Some TStringN
  else if text_eqb n n_STRINGI then None
  else match row_fmt r with
       | _ :: _ =>
           match fmt_sem (row_fmt r) with
           | Some (FInt sg w) => if row_size r =? Z.of_nat w then Some (TInt sg w) else None
           | Some (FReal dbl) => if row_size r =? (if dbl then 8 else 4) then Some (TReal dbl) else None
           | None => None
           end
       | [] =>
           match row_host_type r with
           | _ :: _ =>
               match int_row_in rows (row_host_type r) with
               | Some (false, w) => if row_size r =? Z.of_nat w then Some (TBits w) else None
               | _ => None
               end
           | [] =>
               match row_len_type r, enc_sem (row_encoding r) with
               | _ :: _, Some e =>
                   match int_row_in rows (row_len_type r) with
                   | Some (sg, w) => Some (TStr sg w e)
                   | None => None
                   end
               | _, _ => None
               end
           end
       end.

Definition ty_of_name (n : list Z) : option ty :=
  match find_row type_rows n with Some r => ty_of_row type_rows r | None => None end.

(* the `encoding` class attribute FixedSizeString and the PCCC string types inherit (Gen/CodecFacts.v) *)
Definition fss_enc : option tenc := enc_sem fss_encoding.
Definition pccc_ascii_enc : option tenc := enc_sem pccc_ascii_encoding.
Definition pccc_string_enc : option tenc := enc_sem pccc_string_encoding.

(* STRINGN.ENCODINGS[char_size] (Gen/CodecFacts.v) *)
Fixpoint zlookup {A} (t : list (Z * A)) (k : Z) : option A :=
  match t with [] => None | (k', a) :: r => if k' =? k then Some a else zlookup r k end.
Definition stringn_enc (cs : Z) : option tenc :=
  match zlookup stringn_encodings cs with Some e => enc_sem e | None => None end.

(* ------------------------------------------------------------------ the stream *)
(* stream.read(n): all remaining bytes when n < 0 *)
Definition stream_take (n : Z) (bs : bytes) : bytes * bytes :=
  if n <? 0 then (bs, []) else (firstn (Z.to_nat n) bs, skipn (Z.to_nat n) bs).

(* DataType._stream_read: BufferEmptyError when the read returns no data *)
Definition stream_read (n : Z) (bs : bytes) (k : bytes -> bytes -> dres) : dres :=
  let '(d, r) := stream_take n bs in
  match d with
  | [] => DEmpty r
  | _ => k d r
  end.

(* ------------------------------------------------------------------ elementary types *)
Definition int_in_range (sg : bool) (w : nat) (z : Z) : bool :=
  if sg then in_srange w z else in_urange w z.

(* struct.pack of an integer format: bools are ints; anything else, or out of range: struct.error *)
Definition pack_int (sg : bool) (w : nat) (v : val) : res bytes :=
  match v with
  | VInt z => if int_in_range sg w z then Ok (le_enc w z) else Err (Foreign StructError)
  | VBool b => Ok (le_enc w (if b then 1 else 0))
  | _ => Err (Foreign StructError)
  end.

Definition unpack_int (sg : bool) (w : nat) (data : bytes) : res val :=
  if (length data =? w)%nat
  then Ok (VInt (if sg then to_signed w (le_dec data) else le_dec data))
  else Err (Foreign StructError).

(* the value float(x) that struct.pack("<f"/"<d") starts from *)
Definition as_float (v : val) : res Z :=
  match v with
  | VFloat b => Ok b
  | VInt z => match z_to_b64 z with Some b => Ok b | None => Err (Foreign StructError) end
  | VBool b => Ok (if b then 0x3ff0000000000000 else 0)
  | _ => Err (Foreign StructError)
  end.

Definition pack_real (dbl : bool) (v : val) : res bytes :=
  let* b := as_float v in
  if dbl then Ok (le_enc 8 (canon64 b))
  else match round32 b with Some s => Ok (le_enc 4 s) | None => Err (Foreign OverflowError) end.

Definition unpack_real (dbl : bool) (data : bytes) : res val :=
  if dbl then (if (length data =? 8)%nat then Ok (VFloat (canon64 (le_dec data))) else Err (Foreign StructError))
  else (if (length data =? 4)%nat then Ok (VFloat (widen32 (le_dec data))) else Err (Foreign StructError)).

(* DataType.encode: try: _encode(value) except Exception: raise DataError *)
Definition pub_encode (f : val -> res bytes) (v : val) : res bytes := wrap_all DataError (f v).

(* ElementaryDataType._decode behind DataType.decode *)
Definition elem_decode (size : nat) (unpack : bytes -> res val) (bs : bytes) : dres :=
  dwrap (stream_read (Z.of_nat size) bs (fun data rest => dres_of_res (unpack data) rest)).

Definition int_encode (sg : bool) (w : nat) : val -> res bytes := pub_encode (pack_int sg w).
Definition int_decode (sg : bool) (w : nat) : bytes -> dres := elem_decode w (unpack_int sg w).

Definition real_encode (dbl : bool) : val -> res bytes := pub_encode (pack_real dbl).
Definition real_decode (dbl : bool) : bytes -> dres := elem_decode (if dbl then 8 else 4) (unpack_real dbl).

(* BOOL *)
Definition bool_encode : val -> res bytes := pub_encode (fun v => Ok [if truthy v then 255 else 0]).
Definition bool_decode : bytes -> dres :=
  elem_decode 1 (fun data => Ok (VBool (negb match data with [0] => true | _ => false end))).

(* DATE_AND_TIME: `encode(cls, time, date)` takes TWO positional values, so the uniform call
   T.encode(value) fails with TypeError before the body (and its try) is entered. *)
Definition datetime_encode (v : val) : res bytes := Err (Foreign TypeError).
Definition datetime_encode2 (time date : val) : res bytes :=
  match int_row n_UDINT, int_row n_UINT with
  | Some (s1, w1), Some (s2, w2) =>
      wrap_all DataError (let* a := int_encode s1 w1 time in let* b := int_encode s2 w2 date in Ok (a ++ b))
  | _, _ => Err (Foreign AttributeError)
  end.
Definition datetime_decode (bs : bytes) : dres :=
  match int_row n_UDINT, int_row n_UINT with
  | Some (s1, w1), Some (s2, w2) =>
      dwrap (dbind (int_decode s1 w1 bs) (fun t r1 =>
             dbind (int_decode s2 w2 r1) (fun d r2 => DOk (VTuple [t; d]) r2)))
  | _, _ => DErr (Foreign AttributeError)
  end.

(* StringDataType *)
Definition str_encode (lsg : bool) (lw : nat) (enc : tenc) : val -> res bytes :=
  pub_encode (fun v =>
    let* n := py_len v in
    let* l := int_encode lsg lw (VInt n) in
    match v with
    | VStr s => let* d := text_encode enc s in Ok (l ++ d)
    | _ => Err (Foreign AttributeError)          (* bytes/list/tuple/dict have no .encode *)
    end).

Definition as_int (v : val) : Z := match v with VInt z => z | _ => 0 end.

Definition str_decode (lsg : bool) (lw : nat) (enc : tenc) (bs : bytes) : dres :=
  dwrap (dbind (int_decode lsg lw bs) (fun n r1 =>
    if as_int n =? 0 then DOk (VStr []) r1
    else stream_read (as_int n) r1 (fun data r2 =>
           match text_decode enc data with Ok s => DOk (VStr s) r2 | Err e => DErr e end))).

(* STRINGN: encode(value, char_size=1) *)
Definition stringn_encode_cs (cs : Z) (v : val) : res bytes :=
  match int_row n_UINT with
  | Some (sg, w) =>
      wrap_all DataError (
        match stringn_enc cs with
        | None => Err (Foreign KeyError)
        | Some enc =>
            let* a := int_encode sg w (VInt cs) in
            let* n := py_len v in
            let* b := int_encode sg w (VInt n) in
            match v with
            | VStr s => let* d := text_encode enc s in Ok (a ++ b ++ d)
            | _ => Err (Foreign AttributeError)
            end
        end)
  | None => Err (Foreign AttributeError)
  end.
Definition stringn_encode : val -> res bytes := stringn_encode_cs 1.

Definition stringn_decode (bs : bytes) : dres :=
  match int_row n_UINT with
  | Some (sg, w) =>
      dwrap (dbind (int_decode sg w bs) (fun cs r1 =>
             dbind (int_decode sg w r1) (fun cnt r2 =>
               match stringn_enc (as_int cs) with
               | None => DErr DataError
               | Some enc =>
                   stream_read (as_int cnt * as_int cs) r2 (fun data r3 =>
                     match text_decode enc data with Ok s => DOk (VStr s) r3 | Err e => DErr e end)
               end)))
  | None => DErr (Foreign AttributeError)
  end.

(* BytesDataType / n_bytes(n): value[:n] (value[:] when n = -1) of whatever sliceable it is given.
   Outside the value domain of this model: a str/list/tuple argument makes the implementation
   return that object's slice (not bytes); the model returns its items when they are integers. *)
Fixpoint ints_of (l : list val) : option (list Z) :=
  match l with
  | [] => Some []
  | VInt z :: r => option_map (cons z) (ints_of r)
  | VBool b :: r => option_map (cons (if b then 1 else 0)) (ints_of r)
  | _ => None
  end.
Definition nbytes_encode (n : Z) : val -> res bytes :=
  pub_encode (fun v =>
    let cut := fun (l : list Z) => if n =? -1 then l else slice_to n l in
    match v with
    | VBytes b => Ok (cut b)
    | VStr s => Ok (cut s)
    | VList l | VTuple l => match ints_of l with Some zs => Ok (cut zs) | None => Err (Foreign TypeError) end
    | _ => Err (Foreign TypeError)
    end).
Definition nbytes_decode (n : Z) (bs : bytes) : dres :=
  dwrap (stream_read n bs (fun data rest => DOk (VBytes data) rest)).

(* BitArrayType *)
Fixpoint bits_value (l : list val) : Z :=       (* _value |= 1 << i for every truthy item *)
  match l with
  | [] => 0
  | v :: r => (if truthy v then 1 else 0) + 2 * bits_value r
  end.
Fixpoint value_bits (n : nat) (z : Z) : list val :=    (* bit i of z, i < n, least significant first *)
  match n with
  | O => []
  | S n' => VBool (Z.odd z) :: value_bits n' (z / 2)
  end.

Definition bits_encode (w : nat) : val -> res bytes :=
  pub_encode (fun v =>
    let* n := py_len v in
    if negb (n =? 8 * Z.of_nat w) then Err DataError
    else let* items := py_iter v in pack_int false w (VInt (bits_value items))).

Definition bits_decode (w : nat) (bs : bytes) : dres :=
  dwrap (dbind (int_decode false w bs) (fun v rest => DOk (VList (value_bits (8 * w) (as_int v))) rest)).

(* FixedSizeString(cap, len_type) *)
Definition fixedstr_encode (cap : nat) (lsg : bool) (lw : nat) : val -> res bytes :=
  pub_encode (fun v =>
    match fss_enc with
    | None => Err (Foreign AttributeError)
    | Some enc =>
        let* n := py_len v in
        let* l := int_encode lsg lw (VInt n) in
        match v with
        | VStr s => let* d := text_encode enc s in Ok (l ++ d ++ zeros (cap - length s))
        | _ => Err (Foreign AttributeError)
        end
    end).

Definition fixedstr_decode (cap : nat) (lsg : bool) (lw : nat) (bs : bytes) : dres :=
  match fss_enc with
  | None => DErr DataError
  | Some enc =>
      dwrap (dbind (int_decode lsg lw bs) (fun n r1 =>
        stream_read (Z.of_nat cap) r1 (fun data r2 =>
          match text_decode enc (slice_to (as_int n) data) with Ok s => DOk (VStr s) r2 | Err e => DErr e end)))
  end.

(* IPAddress: ipaddress.IPv4Address(value).packed / IPv4Address(4 bytes).exploded *)
Definition is_digit (c : Z) : bool := (48 <=? c) && (c <=? 57).
Fixpoint digits_val (s : text) (acc : Z) : Z :=
  match s with [] => acc | c :: r => digits_val r (acc * 10 + (c - 48)) end.
Fixpoint split_dot (s : text) (cur : text) : list text :=
  match s with
  | [] => [rev cur]
  | c :: r => if c =? 46 then rev cur :: split_dot r [] else split_dot r (c :: cur)
  end.
(* one octet: 1-3 ASCII digits, no leading zero unless "0", <= 255 *)
Definition octet (s : text) : option Z :=
  match s with
  | [] => None
  | c :: r =>
      if forallb is_digit s && (length s <=? 3)%nat && negb ((c =? 48) && negb (length s =? 1)%nat)
      then let v := digits_val s 0 in if v <=? 255 then Some v else None
      else None
  end.
Definition parse_ipv4 (s : text) : option bytes :=
  match map octet (split_dot s []) with
  | [Some a; Some b; Some c; Some d] => Some [a; b; c; d]
  | _ => None
  end.
Definition be_enc4 (z : Z) : bytes := rev (le_enc 4 z).
Definition ip_encode : val -> res bytes :=
  pub_encode (fun v =>
    match v with
    | VStr s => match parse_ipv4 s with Some b => Ok b | None => Err (Foreign ValueError) end
    | VInt z => if in_urange 4 z then Ok (be_enc4 z) else Err (Foreign ValueError)
    | VBool b => Ok (be_enc4 (if b then 1 else 0))
    | VBytes b => if (length b =? 4)%nat then Ok b else Err (Foreign ValueError)
    | _ => Err (Foreign ValueError)
    end).
(* str(n) for 0 <= n <= 255 *)
Definition dec3 (n : Z) : text :=
  if n <? 10 then [48 + n]
  else if n <? 100 then [48 + n / 10; 48 + n mod 10]
  else [48 + n / 100; 48 + (n / 10) mod 10; 48 + n mod 10].
Definition ip_decode (bs : bytes) : dres :=
  dwrap (stream_read 4 bs (fun data rest =>
    match data with
    | [a; b; c; d] => DOk (VStr (dec3 a ++ [46] ++ dec3 b ++ [46] ++ dec3 c ++ [46] ++ dec3 d)) rest
    | _ => DErr (Foreign ValueError)
    end)).

(* PCCC string types: PCCCStringType._slc_string_swap *)
Fixpoint slc_swap (data : bytes) : option bytes :=
  match data with
  | [] => Some []
  | [_] => None                                   (* `x1, x2 = data[i:i+2]` : ValueError *)
  | x1 :: x2 :: r => option_map (fun t => x2 :: x1 :: t) (slc_swap r)
  end.

Definition pccc_ascii_encode : val -> res bytes :=
  pub_encode (fun v =>
    match pccc_ascii_enc with
    | None => Err (Foreign AttributeError)
    | Some enc =>
        match v with
        | VStr (c1 :: c2 :: _) =>
            let* a := text_encode enc [c2] in let* b := text_encode enc [c1] in Ok (a ++ b)
        | VStr _ => Err (Foreign ValueError)
        | _ => Err (Foreign TypeError)
        end
    end).
Definition pccc_ascii_decode (bs : bytes) : dres :=
  match pccc_ascii_enc with
  | None => DErr DataError
  | Some enc =>
      dwrap (let '(d, r) := stream_take 2 bs in
             match slc_swap d with
             | None => DErr (Foreign ValueError)
             | Some sw => match text_decode enc sw with Ok s => DOk (VStr s) r | Err e => DErr e end
             end)
  end.

Definition pccc_string_encode : val -> res bytes :=
  pub_encode (fun v =>
    match pccc_string_enc, int_row n_UINT with
    | Some enc, Some (sg, w) =>
        let* n := py_len v in
        let* l := int_encode sg w (VInt n) in
        match v with
        | VStr s => let* d := text_encode enc s in
                    match slc_swap d with Some sw => Ok (l ++ sw) | None => Err (Foreign ValueError) end
        | _ => Err (Foreign AttributeError)
        end
    | _, _ => Err (Foreign AttributeError)
    end).
Definition pccc_string_decode (bs : bytes) : dres :=
  match pccc_string_enc, int_row n_UINT with
  | Some enc, Some (sg, w) =>
      dwrap (dbind (int_decode sg w bs) (fun _ r1 =>
             let '(d, r2) := stream_take 82 r1 in
             match slc_swap d with
             | None => DErr (Foreign ValueError)
             | Some sw => match text_decode enc sw with Ok s => DOk (VStr s) r2 | Err e => DErr e end
             end))
  | _, _ => DErr DataError
  end.

(* ------------------------------------------------------------------ Array *)
(* b"".join(element_type.encode(values[i]) for i in range(n)), i counting up from [i] *)
Fixpoint encode_items (enc : val -> res bytes) (values : val) (i n : nat) : res bytes :=
  match n with
  | O => Ok []
  | S n' =>
      let* x := py_index values i in
      let* b := enc x in
      let* r := encode_items enc values (S i) n' in
      Ok (b ++ r)
  end.

(* [values[i : i + chunk] for i in range(0, len(values), chunk)] *)
Fixpoint chunk_vals (fuel : nat) (chunk : nat) (values : val) (i : nat) (n : nat) : res (list val) :=
  match fuel with
  | O => Ok []
  | S f => if (n <=? i)%nat then Ok []
           else let* c := py_slice values i (i + chunk) in
                let* r := chunk_vals f chunk values (i + chunk) n in
                Ok (c :: r)
  end.

(* Array.encode.  [fixed] = Some n for an integer length (declared or the `length=` argument);
   [bitsz] = Some w when the element type is a BitArrayType of w bytes. *)
Definition array_encode (fixed : option nat) (bitsz : option nat) (enc : val -> res bytes) (values : val) : res bytes :=
  (* outside the try: *)
  let* nv := py_len values in
  let* len0 := match fixed with
               | Some n => if nv <? Z.of_nat n then Err DataError else Ok n
               | None => Ok (Z.to_nat nv)
               end in
  (* inside the try: *)
  wrap_all DataError (
    match bitsz with
    | Some w =>
        let chunk := (w * 8)%nat in
        match chunk with
        | O => Err (Foreign ZeroDivisionError)
        | _ =>
            let len1 := Z.to_nat (nv / Z.of_nat chunk) in
            let* chunks := chunk_vals (S (Z.to_nat nv)) chunk values 0 (Z.to_nat nv) in
            encode_items enc (VList chunks) 0 len1
        end
    | None => encode_items enc values 0 len0
    end).

(* [element_type.decode(stream) for _ in range(n)] *)
Fixpoint decode_n (dec : bytes -> dres) (n : nat) (bs : bytes) : dres :=
  match n with
  | O => DOk (VList []) bs
  | S n' =>
      dbind (dec bs) (fun v r1 =>
      dbind (decode_n dec n' r1) (fun vs r2 =>
        match vs with VList l => DOk (VList (v :: l)) r2 | _ => DErr (Foreign TypeError) end))
  end.

(* list(chain.from_iterable(vals)) *)
Fixpoint chain_vals (l : list val) : res (list val) :=
  match l with
  | [] => Ok []
  | v :: r => let* a := py_iter v in let* b := chain_vals r in Ok (a ++ b)
  end.

Definition array_decode_fixed (n : nat) (is_bits : bool) (dec : bytes -> dres) (bs : bytes) : dres :=
  dwrap (dbind (decode_n dec n bs) (fun vs rest =>
    if is_bits then match vs with
                    | VList l => match chain_vals l with Ok f => DOk (VList f) rest | Err e => DErr e end
                    | _ => DErr (Foreign TypeError)
                    end
    else DOk vs rest)).

(* Array(<type class>, T).decode: `isinstance(_length, DataType)` is False for a class, so no
   prefix is read and `range(_length)` raises TypeError. *)
Definition array_decode_prefix (bs : bytes) : dres := dwrap (DErr (Foreign TypeError)).

(* Array._decode_all: `while True: try: append(decode) except BufferEmptyError: break` *)
Fixpoint decode_all (dec : bytes -> dres) (fuel : nat) (bs : bytes) : dres :=
  match fuel with
  | O => DOutOfFuel
  | S f =>
      match dec bs with
      | DOk v r1 =>
          dbind (decode_all dec f r1) (fun vs r2 =>
            match vs with VList l => DOk (VList (v :: l)) r2 | _ => DErr (Foreign TypeError) end)
      | DEmpty r => DOk (VList []) r
      | DErr e => DErr e
      | DOutOfFuel => DOutOfFuel
      end
  end.
Definition array_decode_all (dec : bytes -> dres) (fuel : nat) (bs : bytes) : dres :=
  dwrap (decode_all dec fuel bs).

(* ------------------------------------------------------------------ Struct *)
(* dict form: b"".join(typ.encode(values[typ.name]) for typ in members) *)
Fixpoint struct_encode_dict (ms : list (key * (val -> res bytes))) (d : list (key * val)) : res bytes :=
  match ms with
  | [] => Ok []
  | (k, enc) :: r =>
      let* x := dict_get d k in
      let* b := enc x in
      let* rs := struct_encode_dict r d in
      Ok (b ++ rs)
  end.
(* positional form: zip(members, values) stops at the shorter one *)
Fixpoint struct_encode_seq (ms : list (key * (val -> res bytes))) (vs : list val) : res bytes :=
  match ms, vs with
  | (_, enc) :: r, x :: xs =>
      let* b := enc x in
      let* rs := struct_encode_seq r xs in
      Ok (b ++ rs)
  | _, _ => Ok []
  end.
Definition struct_encode (ms : list (key * (val -> res bytes))) : val -> res bytes :=
  pub_encode (fun v =>
    match v with
    | VDict d => struct_encode_dict ms d
    | _ => let* items := py_iter v in struct_encode_seq ms items
    end).

(* {typ.name: typ.decode(stream) for typ in members} *)
Fixpoint struct_decode_members (ms : list (key * (bytes -> dres))) (acc : list (key * val)) (bs : bytes) : dres :=
  match ms with
  | [] => DOk (VDict acc) bs
  | (k, dec) :: r =>
      dbind (dec bs) (fun v r1 => struct_decode_members r (dict_set acc k v) r1)
  end.
Definition struct_decode (ms : list (key * (bytes -> dres))) (bs : bytes) : dres :=
  dwrap (dbind (struct_decode_members ms [] bs) (fun v rest =>
    match v with
    | VDict d => DOk (VDict (dict_pop (dict_pop d (Some [])) None)) rest
    | _ => DErr (Foreign TypeError)
    end)).

(* ------------------------------------------------------------------ StructTag *)
(* value[a : a + len(e)] = e on a bytearray (slice assignment clamps to the current length and
   may grow the array) *)
Definition splice (buf : bytes) (a : nat) (e : bytes) : bytes :=
  firstn a buf ++ e ++ skipn (a + length e) buf.

Fixpoint stag_encode_members (ms : list (key * (val -> res bytes))) (offs : list nat) (priv : list text)
         (d : list (key * val)) (buf : bytes) : res bytes :=
  match ms, offs with
  | [], _ => Ok buf
  | (k, enc) :: r, off :: offs' =>
      if key_in k priv then stag_encode_members r offs' priv d buf
      else
        let* x := dict_get d k in
        let* e := enc x in
        stag_encode_members r offs' priv d (splice buf off e)
  | _ :: _, [] => Err (Foreign KeyError)        (* cls._offsets[member] *)
  end.

Fixpoint set_nth (buf : bytes) (i : nat) (f : Z -> Z) : option bytes :=
  match buf, i with
  | [], _ => None
  | b :: r, O => Some (f b :: r)
  | b :: r, S i' => option_map (cons b) (set_nth r i' f)
  end.

Fixpoint stag_encode_bits (bits : list (text * (nat * nat))) (d : list (key * val)) (buf : bytes) : res bytes :=
  match bits with
  | [] => Ok buf
  | (name, (off, bit)) :: r =>
      let* x := dict_get d (Some name) in
      if truthy x then
        match nth_error buf off with
        | None => Err (Foreign IndexError)
        | Some b =>
            let nb := Z.lor b (2 ^ Z.of_nat bit) in
            if nb <? 256
            then match set_nth buf off (fun _ => nb) with Some buf' => stag_encode_bits r d buf' | None => Err (Foreign IndexError) end
            else Err (Foreign ValueError)        (* byte must be in range(0, 256) *)
        end
      else
        match set_nth buf off (fun b => Z.land b (Z.lnot (2 ^ Z.of_nat bit))) with
        | Some buf' => stag_encode_bits r d buf'
        | None => Err (Foreign IndexError)
        end
  end.

Definition structtag_encode (ms : list (key * (val -> res bytes))) (offs : list nat)
           (bits : list (text * (nat * nat))) (priv : list text) (size : nat) : val -> res bytes :=
  pub_encode (fun v =>
    match v with
    | VDict d =>
        let* buf := stag_encode_members ms offs priv d (zeros size) in
        stag_encode_bits bits d buf
    | _ => Err (Foreign AttributeError)          (* values.items() *)
    end).

(* members are decoded from a private sub-stream of the first [size] bytes; [pos] bytes of it have
   been consumed; a member whose offset is ahead of the position is reached by skipping, one whose
   offset is behind is decoded from the current position *)
Fixpoint stag_decode_members (ms : list (key * (bytes -> dres))) (offs : list nat) (total : nat)
         (acc : list (key * val)) (sub : bytes) : dres :=
  match ms, offs with
  | [], _ => DOk (VDict acc) sub
  | (k, dec) :: r, off :: offs' =>
      let pos := (total - length sub)%nat in
      let sub1 := if (pos <? off)%nat then skipn (off - pos) sub else sub in
      dbind (dec sub1) (fun v sub2 => stag_decode_members r offs' total (dict_set acc k v) sub2)
  | _ :: _, [] => DErr (Foreign KeyError)
  end.

Fixpoint stag_decode_bits (bits : list (text * (nat * nat))) (raw : bytes) (acc : list (key * val)) : res (list (key * val)) :=
  match bits with
  | [] => Ok acc
  | (name, (off, bit)) :: r =>
      match nth_error raw off with
      | None => Err (Foreign IndexError)
      | Some b => stag_decode_bits r raw (dict_set acc (Some name) (VBool (Z.testbit b (Z.of_nat bit))))
      end
  end.

Definition structtag_decode (ms : list (key * (bytes -> dres))) (offs : list nat)
           (bits : list (text * (nat * nat))) (priv : list text) (size : nat) (bs : bytes) : dres :=
  let raw := firstn size bs in
  let rest := skipn size bs in
  dwrap (
    match stag_decode_members ms offs (length raw) [] raw with
    | DOk (VDict d) _ =>
        match stag_decode_bits bits raw d with
        | Ok d' => DOk (VDict (filter (fun kv => negb (key_in (fst kv) priv)) d')) rest
        | Err e => DErr e
        end
    | DOk _ _ => DErr (Foreign TypeError)
    | DEmpty _ => DEmpty rest                     (* raised on the sub-stream; the outer stream is past the struct *)
    | DErr e => DErr e
    | DOutOfFuel => DOutOfFuel
    end).

(* ------------------------------------------------------------------ the codec *)
Definition bits_width (t : ty) : option nat := match t with TBits w => Some w | _ => None end.
Definition is_bits (t : ty) : bool := match t with TBits _ => true | _ => false end.

Fixpoint encode (t : ty) : val -> res bytes :=
  match t with
  | TBool => bool_encode
  | TInt sg w => int_encode sg w
  | TReal dbl => real_encode dbl
  | TDateTime => datetime_encode
  | TStr lsg lw enc => str_encode lsg lw enc
  | TStringN => stringn_encode
  | TNBytes n => nbytes_encode n
  | TBits w => bits_encode w
  | TArrFixed n e => array_encode (Some n) (bits_width e) (encode e)
  | TArrPrefix _ _ e => array_encode None (bits_width e) (encode e)
  | TArrAll e => array_encode None (bits_width e) (encode e)
  | TStruct ms => struct_encode (map (fun m => (fst m, encode (snd m))) ms)
  | TFixedStr cap lsg lw => fixedstr_encode cap lsg lw
  | TStructTag ms offs bits priv size =>
      structtag_encode (map (fun m => (fst m, encode (snd m))) ms) offs bits priv size
  | TIPAddr => ip_encode
  | TPcccAscii => pccc_ascii_encode
  | TPcccString => pccc_string_encode
  end.

Fixpoint decode_fuel (fuel : nat) (t : ty) {struct t} : bytes -> dres :=
  match t with
  | TBool => bool_decode
  | TInt sg w => int_decode sg w
  | TReal dbl => real_decode dbl
  | TDateTime => datetime_decode
  | TStr lsg lw enc => str_decode lsg lw enc
  | TStringN => stringn_decode
  | TNBytes n => nbytes_decode n
  | TBits w => bits_decode w
  | TArrFixed n e => array_decode_fixed n (is_bits e) (decode_fuel fuel e)
  | TArrPrefix _ _ e => array_decode_prefix
  | TArrAll e => array_decode_all (decode_fuel fuel e) fuel
  | TStruct ms => struct_decode (map (fun m => (fst m, decode_fuel fuel (snd m))) ms)
  | TFixedStr cap lsg lw => fixedstr_decode cap lsg lw
  | TStructTag ms offs bits priv size =>
      structtag_decode (map (fun m => (fst m, decode_fuel fuel (snd m))) ms) offs bits priv size
  | TIPAddr => ip_decode
  | TPcccAscii => pccc_ascii_decode
  | TPcccString => pccc_string_decode
  end.

(* The fuel-free view other models import.  Fuel [S (length bs)] is enough for every call that
   terminates (Proofs/CodecErr.v: decode_fuel_enough); a call that does NOT terminate in the
   implementation is mapped to a FOREIGN exception, so that no statement of the form "only library
   exceptions escape" can hold of it by accident. *)
Definition hang_marker : exn := Foreign StopIteration.
Definition res_of_dres (r : dres) : res (val * bytes) :=
  match r with
  | DOk v rest => Ok (v, rest)
  | DErr e => Err e
  | DEmpty _ => Err BufferEmpty
  | DOutOfFuel => Err hang_marker
  end.
Definition decode (t : ty) (bs : bytes) : res (val * bytes) :=
  res_of_dres (decode_fuel (S (length bs)) t bs).

(* the `length=` argument of Array.encode / Array.decode: `_length = length or cls.length` *)
Definition elem_of (t : ty) : option ty :=
  match t with TArrFixed _ e | TArrPrefix _ _ e | TArrAll e => Some e | _ => None end.
Definition with_length (t : ty) (len : Z) : ty :=
  match elem_of t with
  | Some e => if len =? 0 then t else TArrFixed (Z.to_nat len) e
  | None => t
  end.
Definition encode_len (t : ty) (len : Z) : val -> res bytes := encode (with_length t len).
Definition decode_len_fuel (fuel : nat) (t : ty) (len : Z) : bytes -> dres := decode_fuel fuel (with_length t len).

(* ------------------------------------------------------------------ Struct instances of custom_types.py *)
Definition n_BYTES := [66; 89; 84; 69; 83].
Definition n_Revision := [82; 101; 118; 105; 115; 105; 111; 110].
Definition n_IPAddress := [73; 80; 65; 100; 100; 114; 101; 115; 115].

Definition ty_of_desc (revision : option ty) (d : list Z * Z) : option ty :=
  let '(c, p) := d in
  if text_eqb c n_BYTES then Some (TNBytes p)
  else if text_eqb c n_Revision then revision
  else if text_eqb c n_IPAddress then Some TIPAddr
  else ty_of_name c.

Fixpoint members_of_desc (revision : option ty) (ms : list (option (list Z) * (list Z * Z))) : option (list (key * ty)) :=
  match ms with
  | [] => Some []
  | (k, d) :: r =>
      match ty_of_desc revision d, members_of_desc revision r with
      | Some t, Some rs => Some ((k, t) :: rs)
      | _, _ => None
      end
  end.

Definition Revision_ty : option ty := option_map TStruct (members_of_desc None revision_members).
(* as plain Struct instances (the _encode/_decode post-processing of the identity objects is
   Model/Identity.v, property C16) *)
Definition ModuleIdentity_struct : option ty := option_map TStruct (members_of_desc Revision_ty module_identity_members).
Definition ListIdentity_struct : option ty := option_map TStruct (members_of_desc Revision_ty list_identity_members).
