(* Model/Codec.v — executable model of pycomm3's CIP data-type codecs
   (pycomm3/cip/data_types.py, custom_types.py, cip/pccc.py string types).

   Definitions only (proofs live in Proofs/Codec*.v).  The model reproduces what the code DOES,
   defects included.  Function names follow the Python (`_stream_read`, `Array.encode`, ...).

     ty   deep embedding of the type classes the library exports or constructs
     val  Python values (Model/CodecPrim.v)
     encode : ty -> val -> res bytes                      = T.encode(value)
     encode_args : ty -> list val -> res bytes            = T.encode( *args )  (positional call)
     decode : ty -> bytes -> res (val * bytes)            = T.decode(stream) : value and unread rest
     decode_fuel : nat -> ty -> bytes -> dres             the same with explicit fuel for the
          `while True` loop of Array._decode_all ([DOutOfFuel]) and with the stream position at
          the moment a BufferEmptyError is raised ([DEmpty rest]; _decode_all resumes from there).

   Exceptions: inside, the Python exception class that is raised ([Foreign TypeError], ...); the
   public wrappers ([pub_encode] = DataType.encode, [dwrap] = DataType.decode) sit exactly where the
   code has its `try/except Exception`.  Overriding public methods repeat the wrapping (STRINGN.encode,
   STRINGI.encode/decode, DATE_AND_TIME.encode, Array.decode) or only part of it (Array.encode: the
   length test is OUTSIDE the try; DATE_AND_TIME.encode: the arity error precedes the body).

   Elementary rows come from Gen/Types.v through [fmt_sem] / [ty_of_name]: a changed format,
   size, length type, encoding or host type in /repo changes which [ty] a name denotes.
   EPATH and the CIP segment classes are not here (Model/Path.v, property C09). *)
From Coq Require Import String.
From PV Require Import Base.Bytes Base.Res Base.Proto.
From PV Require Import Gen.Types Gen.CodecFacts Gen.Vendors Gen.Status.
From PV Require Export Model.CodecFloat Model.CodecPrim.
Open Scope Z_scope.

(* post-processing kind of a Struct class: plain Struct(...), or the two subclasses in
   custom_types.py that override _decode (and, for ModuleIdentityObject, _encode) *)
Inductive skind := SPlain | SModuleIdentity | SListIdentity.

Inductive ty :=
  | TBool
  | TInt (sg : bool) (w : nat)                      (* struct formats b B h H i I q Q *)
  | TReal (dbl : bool)                              (* "<f" / "<d" *)
  | TDateTime                                       (* DATE_AND_TIME *)
  | TStr (lsg : bool) (lw : nat) (enc : tenc)       (* StringDataType: len_type (an integer type), encoding *)
  | TStringN
  | TStringI
  | TNBytes (n : Z)                                 (* n_bytes(n) (always an INSTANCE); -1 = rest of the buffer *)
  | TBits (w : nat)                                 (* BitArrayType over an unsigned host of w bytes *)
  | TArrFixed (n : nat) (e : ty)                    (* Array(n, T) / T[n] *)
  | TArrPrefix (inst : bool) (lt : ty) (e : ty)     (* Array(L, T) / T[L], L a type class (inst=false) or instance *)
  | TArrAll (e : ty)                                (* Array(None, T) *)
  | TStruct (k : skind) (ms : list (key * ty))      (* Struct(m1, ...): member name (None / "" / str), type *)
  | TFixedStr (size : nat) (lsg : bool) (lw : nat) (cap : nat)   (* FixedSizeString(size, len_type, capacity) *)
  | TStructTag (ms : list ((key * nat) * ty))       (* StructTag: (member name, offset), type              *)
               (bits : list (text * (nat * nat)))   (* bit members name -> (offset, bit)                   *)
               (priv : list text) (size : nat)      (* private names, struct_size                          *)
  | TIPAddr
  | TPcccAscii
  | TPcccString.

(* ------------------------------------------------------------------ Gen rows -> types *)
Inductive fmt_kind := FInt (sg : bool) (w : nat) | FReal (dbl : bool).

(* semantics of the struct format strings the library uses: "<" little endian, standard sizes *)
Definition fmt_sem (f : list Z) : option fmt_kind :=
  match f with
  | [60; 98] => Some (FInt true 1)    (* "<b" *)
  | [60; 66] => Some (FInt false 1)   (* "<B" *)
  | [60; 104] => Some (FInt true 2)   (* "<h" *)
  | [60; 72] => Some (FInt false 2)   (* "<H" *)
  | [60; 105] => Some (FInt true 4)   (* "<i" *)
  | [60; 73] => Some (FInt false 4)   (* "<I" *)
  | [60; 113] => Some (FInt true 8)   (* "<q" *)
  | [60; 81] => Some (FInt false 8)   (* "<Q" *)
  | [60; 102] => Some (FReal false)   (* "<f" *)
  | [60; 100] => Some (FReal true)    (* "<d" *)
  | _ => None
  end.

Definition enc_sem (e : list Z) : option tenc :=
  if text_eqb e (zs_of_string "iso-8859-1") then Some Latin1
  else if text_eqb e (zs_of_string "utf-8") then Some Utf8
  else if text_eqb e (zs_of_string "utf-16-le") then Some Utf16
  else if text_eqb e (zs_of_string "utf-32-le") then Some Utf32
  else None.

Definition row := (list Z * Z * Z * list Z * list Z * list Z * list Z)%type.
Definition row_name (r : row) : list Z := let '(n, _, _, _, _, _, _) := r in n.
Definition row_code (r : row) : Z := let '(_, c, _, _, _, _, _) := r in c.
Definition row_size (r : row) : Z := let '(_, _, s, _, _, _, _) := r in s.
Definition row_fmt (r : row) : list Z := let '(_, _, _, f, _, _, _) := r in f.
Definition row_len_type (r : row) : list Z := let '(_, _, _, _, l, _, _) := r in l.
Definition row_encoding (r : row) : list Z := let '(_, _, _, _, _, e, _) := r in e.
Definition row_host_type (r : row) : list Z := let '(_, _, _, _, _, _, h) := r in h.

Fixpoint find_row (rows : list row) (n : list Z) : option row :=
  match rows with
  | [] => None
  | r :: rs => if text_eqb (row_name r) n then Some r else find_row rs n
  end.

(* an integer type row: (signed, width); the declared size must be the format's size *)
Definition int_row_in (rows : list row) (n : list Z) : option (bool * nat) :=
  match find_row rows n with
  | Some r => match fmt_sem (row_fmt r) with
              | Some (FInt sg w) => if row_size r =? Z.of_nat w then Some (sg, w) else None
              | _ => None
              end
  | None => None
  end.
Definition int_row (n : list Z) : option (bool * nat) := int_row_in type_rows n.

Definition n_BOOL := zs_of_string "BOOL".
Definition n_DATE_AND_TIME := zs_of_string "DATE_AND_TIME".
Definition n_STRINGN := zs_of_string "STRINGN".
Definition n_STRINGI := zs_of_string "STRINGI".
Definition n_UDINT := zs_of_string "UDINT".
Definition n_UINT := zs_of_string "UINT".
Definition n_USINT := zs_of_string "USINT".
Definition n_SHORT_STRING := zs_of_string "SHORT_STRING".

(* bytes per character: the string classes carry `char_size` next to `encoding`; the model derives
   it from the encoding and [ty_of_row] checks the regenerated class attribute against it *)
Definition enc_char_size (e : tenc) : Z :=
  match e with Latin1 | Utf8 => 1 | Utf16 => 2 | Utf32 => 4 end.
Fixpoint name_lookup (t : list (list Z * Z)) (n : list Z) : option Z :=
  match t with [] => None | (n', c) :: r => if text_eqb n' n then Some c else name_lookup r n end.

(* the [ty] an exported elementary class name denotes, read off its Gen row *)
Definition ty_of_row (rows : list row) (r : row) : option ty :=
  let n := row_name r in
  if text_eqb n n_BOOL then (if (row_size r =? 1) && match row_fmt r with [] => true | _ => false end then Some TBool else None)
  else if text_eqb n n_DATE_AND_TIME then (if row_size r =? 6 then Some TDateTime else None)
  else if text_eqb n n_STRINGN then Some TStringN
  else if text_eqb n n_STRINGI then Some TStringI
  else match row_fmt r with
       | _ :: _ =>
           match fmt_sem (row_fmt r) with
           | Some (FInt sg w) => if row_size r =? Z.of_nat w then Some (TInt sg w) else None
           | Some (FReal dbl) => if row_size r =? (if dbl then 8 else 4) then Some (TReal dbl) else None
           | None => None
           end
       | [] =>
           match row_host_type r with
           | _ :: _ =>
               match int_row_in rows (row_host_type r) with
               | Some (false, w) => if row_size r =? Z.of_nat w then Some (TBits w) else None
               | _ => None
               end
           | [] =>
               match row_len_type r, enc_sem (row_encoding r) with
               | _ :: _, Some e =>
                   match int_row_in rows (row_len_type r), name_lookup string_char_sizes n with
                   | Some (sg, w), Some cs => if cs =? enc_char_size e then Some (TStr sg w e) else None
                   | _, _ => None
                   end
               | _, _ => None
               end
           end
       end.

Definition ty_of_name (n : list Z) : option ty :=
  match find_row type_rows n with Some r => ty_of_row type_rows r | None => None end.

(* the `encoding` class attribute FixedSizeString and the PCCC string types inherit (Gen/CodecFacts.v) *)
Definition fss_enc : option tenc := enc_sem fss_encoding.
Definition pccc_ascii_enc : option tenc := enc_sem pccc_ascii_encoding.
Definition pccc_string_enc : option tenc := enc_sem pccc_string_encoding.

(* STRINGN.ENCODINGS[char_size] (Gen/CodecFacts.v) *)
Definition stringn_enc (cs : Z) : option tenc :=
  match zlookup stringn_encodings cs with Some e => enc_sem e | None => None end.

(* ------------------------------------------------------------------ elementary types *)
Definition int_in_range (sg : bool) (w : nat) (z : Z) : bool :=
  if sg then in_srange w z else in_urange w z.

(* struct.pack of an integer format: bools are ints; anything else, or out of range: struct.error *)
Definition pack_int (sg : bool) (w : nat) (v : val) : res bytes :=
  match v with
  | VInt z => if int_in_range sg w z then Ok (le_enc w z) else Err (Foreign StructError)
  | VBool b => Ok (le_enc w (if b then 1 else 0))
  | _ => Err (Foreign StructError)
  end.

Definition unpack_int (sg : bool) (w : nat) (data : bytes) : res val :=
  if (length data =? w)%nat
  then Ok (VInt (if sg then to_signed w (le_dec data) else le_dec data))
  else Err (Foreign StructError).

(* the value float(x) that struct.pack("<f"/"<d") starts from (an int too large for a double makes
   struct raise struct.error, not OverflowError) *)
Definition as_float (v : val) : res Z :=
  match v with
  | VFloat b => Ok b
  | VInt z => match z_to_b64 z with Some b => Ok b | None => Err (Foreign StructError) end
  | VBool b => Ok (if b then 0x3ff0000000000000 else 0)
  | _ => Err (Foreign StructError)
  end.

Definition pack_real (dbl : bool) (v : val) : res bytes :=
  let* b := as_float v in
  if dbl then Ok (le_enc 8 (canon64 b))
  else match round32 b with Some s => Ok (le_enc 4 s) | None => Err (Foreign OverflowError) end.

Definition unpack_real (dbl : bool) (data : bytes) : res val :=
  if dbl then (if (length data =? 8)%nat then Ok (VFloat (canon64 (le_dec data))) else Err (Foreign StructError))
  else (if (length data =? 4)%nat then Ok (VFloat (widen32 (le_dec data))) else Err (Foreign StructError)).

(* ElementaryDataType._decode behind DataType.decode *)
Definition elem_decode (size : nat) (unpack : bytes -> res val) (bs : bytes) : dres :=
  dwrap (stream_read (Z.of_nat size) bs (fun data rest => dres_of_res (unpack data) rest)).

Definition int_encode (sg : bool) (w : nat) : val -> res bytes := pub_encode (pack_int sg w).
Definition int_decode (sg : bool) (w : nat) : bytes -> dres := elem_decode w (unpack_int sg w).

Definition real_encode (dbl : bool) : val -> res bytes := pub_encode (pack_real dbl).
Definition real_decode (dbl : bool) : bytes -> dres := elem_decode (if dbl then 8 else 4) (unpack_real dbl).

(* BOOL *)
Definition bool_encode : val -> res bytes := pub_encode (fun v => Ok [if truthy v then 255 else 0]).
Definition bool_decode : bytes -> dres :=
  elem_decode 1 (fun data => Ok (VBool (negb match data with [0] => true | _ => false end))).

(* the named integer types the bodies of other codecs call (UINT.encode(...), USINT.decode(...)) *)
Definition named_int_encode (n : list Z) (v : val) : res bytes :=
  match int_row n with Some (sg, w) => int_encode sg w v | None => Err (Foreign AttributeError) end.
Definition named_int_decode (n : list Z) (bs : bytes) : dres :=
  match int_row n with Some (sg, w) => int_decode sg w bs | None => DErr (Foreign AttributeError) end.

(* DATE_AND_TIME: `encode(cls, time, date=None, *args, **kwargs)`, an overriding public method
   with its own try: the uniform call T.encode(value) unpacks the (time, date) pair *)
Definition datetime_encode2 (time date : val) : res bytes :=
  wrap_all DataError (
    let* td := match date with
               | VNone => let* items := py_iter time in
                          match items with [t; d] => Ok (t, d) | _ => Err (Foreign ValueError) end
               | _ => Ok (time, date)
               end in
    let* a := named_int_encode n_UDINT (fst td) in let* b := named_int_encode n_UINT (snd td) in Ok (a ++ b)).
Definition datetime_encode (v : val) : res bytes := datetime_encode2 v VNone.
Definition datetime_decode (bs : bytes) : dres :=
  dwrap (dbind (named_int_decode n_UDINT bs) (fun t r1 =>
         dbind (named_int_decode n_UINT r1) (fun d r2 => DOk (VTuple [t; d]) r2))).

(* StringDataType: the prefix counts characters (code units of char_size bytes) *)
Definition str_encode (lsg : bool) (lw : nat) (enc : tenc) : val -> res bytes :=
  pub_encode (fun v =>
    match v with
    | VStr s => let* d := text_encode enc s in
                let* l := int_encode lsg lw (VInt (zlen d / enc_char_size enc)) in
                Ok (l ++ d)
    | _ => Err (Foreign AttributeError)          (* value.encode *)
    end).

Definition str_decode (lsg : bool) (lw : nat) (enc : tenc) (bs : bytes) : dres :=
  dwrap (dbind (int_decode lsg lw bs) (fun n r1 =>
    if as_int n =? 0 then DOk (VStr []) r1
    else stream_read (as_int n * enc_char_size enc) r1 (fun data r2 =>
           match text_decode enc data with Ok s => DOk (VStr s) r2 | Err e => DErr e end))).

(* STRINGN: encode(value, char_size=1) — an overriding public method with its own try *)
Definition stringn_encode_cs (cs : val) (v : val) : res bytes :=
  wrap_all DataError (
    match cs with
    | VInt _ | VBool _ =>
        let c := match cs with VBool b => if b then 1 else 0 | _ => as_int cs end in
        match stringn_enc c with
        | None => Err (Foreign KeyError)
        | Some enc =>
            match v with
            | VStr s =>
                let* d := text_encode enc s in
                let* a := named_int_encode n_UINT cs in
                let* b := named_int_encode n_UINT (VInt (zlen d / c)) in
                Ok (a ++ b ++ d)
            | _ => Err (Foreign AttributeError)
            end
        end
    | _ => Err (Foreign KeyError)                 (* ENCODINGS[char_size]: KeyError / TypeError (unhashable) *)
    end).
Definition stringn_encode : val -> res bytes := stringn_encode_cs (VInt 1).

Definition stringn_decode (bs : bytes) : dres :=
  dwrap (dbind (named_int_decode n_UINT bs) (fun cs r1 =>
         dbind (named_int_decode n_UINT r1) (fun cnt r2 =>
           match stringn_enc (as_int cs) with
           | None => DErr DataError
           | Some enc =>
               if as_int cnt =? 0 then DOk (VStr []) r2
               else stream_read (as_int cnt * as_int cs) r2 (fun data r3 =>
                      match text_decode enc data with Ok s => DOk (VStr s) r3 | Err e => DErr e end)
           end))).

(* BytesDataType / n_bytes(n): bytes(value[:n]) (bytes(value[:]) when n = -1): bytes stay bytes, a
   list / tuple whose SLICE holds integers 0..255 becomes bytes, anything else is an exception *)
Fixpoint ints_of (l : list val) : option (list Z) :=
  match l with
  | [] => Some []
  | VInt z :: r => option_map (cons z) (ints_of r)
  | VBool b :: r => option_map (cons (if b then 1 else 0)) (ints_of r)
  | _ => None
  end.
Definition nbytes_encode (n : Z) : val -> res bytes :=
  pub_encode (fun v =>
    match v with
    | VBytes b => Ok (if n =? -1 then b else slice_to n b)
    | VList l | VTuple l =>
        match ints_of (if n =? -1 then l else slice_to n l) with
        | Some zs => if bytes_ok zs then Ok zs else Err (Foreign ValueError)
        | None => Err (Foreign TypeError)
        end
    | _ => Err (Foreign TypeError)
    end).
Definition nbytes_decode (n : Z) (bs : bytes) : dres :=
  dwrap (stream_read n bs (fun data rest => DOk (VBytes data) rest)).

(* BitArrayType *)
Fixpoint bits_value (l : list val) : Z :=       (* _value |= 1 << i for every truthy item *)
  match l with
  | [] => 0
  | v :: r => (if truthy v then 1 else 0) + 2 * bits_value r
  end.
Fixpoint value_bits (n : nat) (z : Z) : list val :=    (* bit i of z, i < n, least significant first *)
  match n with
  | O => []
  | S n' => VBool (Z.odd z) :: value_bits n' (z / 2)
  end.

Definition bits_encode (w : nat) : val -> res bytes :=
  pub_encode (fun v =>
    let* n := py_len v in
    if negb (n =? 8 * Z.of_nat w) then Err DataError
    else let* items := py_iter v in pack_int false w (VInt (bits_value items))).

Definition bits_decode (w : nat) (bs : bytes) : dres :=
  dwrap (dbind (int_decode false w bs) (fun v rest => DOk (VList (value_bits (8 * w) (as_int v))) rest)).

(* FixedSizeString(size, len_type, capacity): `value = value[: cls.capacity]`, then the length, the
   characters and zero padding up to [size] *)
Definition fixedstr_encode (size : nat) (lsg : bool) (lw : nat) (cap : nat) : val -> res bytes :=
  pub_encode (fun v0 =>
    match fss_enc with
    | None => Err (Foreign AttributeError)
    | Some enc =>
        let* v := py_slice v0 0 cap in
        let* n := py_len v in
        let* l := int_encode lsg lw (VInt n) in
        match v with
        | VStr s => let* d := text_encode enc s in Ok (l ++ d ++ zeros (size - length s))
        | _ => Err (Foreign AttributeError)
        end
    end).

Definition fixedstr_decode (size : nat) (lsg : bool) (lw : nat) (bs : bytes) : dres :=
  match fss_enc with
  | None => DErr DataError
  | Some enc =>
      dwrap (dbind (int_decode lsg lw bs) (fun n r1 =>
        stream_read (Z.of_nat size) r1 (fun data r2 =>
          match text_decode enc (slice_to (as_int n) data) with Ok s => DOk (VStr s) r2 | Err e => DErr e end)))
  end.

(* IPAddress: ipaddress.IPv4Address(value).packed / IPv4Address(4 bytes).exploded *)
Definition is_dig (c : Z) : bool := (48 <=? c) && (c <=? 57).
Fixpoint digits_val (s : text) (acc : Z) : Z :=
  match s with [] => acc | c :: r => digits_val r (acc * 10 + (c - 48)) end.
Fixpoint split_dot (s : text) (cur : text) : list text :=
  match s with
  | [] => [rev cur]
  | c :: r => if c =? 46 then rev cur :: split_dot r [] else split_dot r (c :: cur)
  end.
(* one octet: 1-3 ASCII digits, no leading zero unless "0", <= 255 *)
Definition octet (s : text) : option Z :=
  match s with
  | [] => None
  | c :: r =>
      if forallb is_dig s && (length s <=? 3)%nat && negb ((c =? 48) && negb (length s =? 1)%nat)
      then let v := digits_val s 0 in if v <=? 255 then Some v else None
      else None
  end.
Definition parse_ipv4 (s : text) : option bytes :=
  match map octet (split_dot s []) with
  | [Some a; Some b; Some c; Some d] => Some [a; b; c; d]
  | _ => None
  end.
Definition be_enc4 (z : Z) : bytes := rev (le_enc 4 z).
(* anything that is not an int or bytes goes through str(value): no such string is an address *)
Definition ip_encode : val -> res bytes :=
  pub_encode (fun v =>
    match v with
    | VStr s => match parse_ipv4 s with Some b => Ok b | None => Err (Foreign ValueError) end
    | VInt z => if in_urange 4 z then Ok (be_enc4 z) else Err (Foreign ValueError)
    | VBool b => Ok (be_enc4 (if b then 1 else 0))
    | VBytes b => if (length b =? 4)%nat then Ok b else Err (Foreign ValueError)
    | _ => Err (Foreign ValueError)
    end).
(* str(n) for 0 <= n <= 255 *)
Definition dec3 (n : Z) : text :=
  if n <? 10 then [48 + n]
  else if n <? 100 then [48 + n / 10; 48 + n mod 10]
  else [48 + n / 100; 48 + (n / 10) mod 10; 48 + n mod 10].
Definition ip_decode (bs : bytes) : dres :=
  dwrap (stream_read 4 bs (fun data rest =>
    match data with
    | [a; b; c; d] => DOk (VStr (dec3 a ++ [46] ++ dec3 b ++ [46] ++ dec3 c ++ [46] ++ dec3 d)) rest
    | _ => DErr (Foreign ValueError)
    end)).

(* PCCC string types: PCCCStringType._slc_string_swap *)
Fixpoint slc_swap (data : bytes) : option bytes :=
  match data with
  | [] => Some []
  | [_] => None                                   (* `x1, x2 = data[i:i+2]` : ValueError *)
  | x1 :: x2 :: r => option_map (fun t => x2 :: x1 :: t) (slc_swap r)
  end.

(* (x or " ").encode(enc) *)
Definition or_space_encode (enc : tenc) (x : val) : res bytes :=
  if truthy x then match x with VStr s => text_encode enc s | _ => Err (Foreign AttributeError) end
  else text_encode enc [32].
(* char1, char2 = value[:2]; (char2 or " ").encode() + (char1 or " ").encode() *)
Definition pccc_ascii_encode : val -> res bytes :=
  pub_encode (fun v =>
    match pccc_ascii_enc with
    | None => Err (Foreign AttributeError)
    | Some enc =>
        let* sl := py_slice v 0 2 in
        let* items := py_iter sl in
        match items with
        | [c1; c2] => let* a := or_space_encode enc c2 in let* b := or_space_encode enc c1 in Ok (a ++ b)
        | _ => Err (Foreign ValueError)
        end
    end).
(* _stream_read(stream, 2) *)
Definition pccc_ascii_decode (bs : bytes) : dres :=
  match pccc_ascii_enc with
  | None => DErr DataError
  | Some enc =>
      dwrap (stream_read 2 bs (fun d r =>
             match slc_swap d with
             | None => DErr (Foreign ValueError)
             | Some sw => match text_decode enc sw with Ok s => DOk (VStr s) r | Err e => DErr e end
             end))
  end.

Definition pccc_string_encode : val -> res bytes :=
  pub_encode (fun v =>
    match pccc_string_enc with
    | Some enc =>
        let* n := py_len v in
        let* l := named_int_encode n_UINT (VInt n) in
        match v with
        | VStr s => let* d := text_encode enc s in
                    match slc_swap d with Some sw => Ok (l ++ sw) | None => Err (Foreign ValueError) end
        | _ => Err (Foreign AttributeError)
        end
    | _ => Err (Foreign AttributeError)
    end).
(* the length word is read and ignored; plain stream.read(82) *)
Definition pccc_string_decode (bs : bytes) : dres :=
  match pccc_string_enc with
  | Some enc =>
      dwrap (dbind (named_int_decode n_UINT bs) (fun _ r1 =>
             let '(d, r2) := stream_take 82 r1 in
             match slc_swap d with
             | None => DErr (Foreign ValueError)
             | Some sw => match text_decode enc sw with Ok s => DOk (VStr s) r2 | Err e => DErr e end
             end))
  | _ => DErr DataError
  end.

(* ------------------------------------------------------------------ STRINGI *)
(* str_type.encode(string) / _str_type.decode(stream) for a type class given by NAME.  Only the
   non-recursive elementary classes are modelled here (the value decides the type, so this cannot be
   the structural recursion of [encode]); any other name: marker NotImplementedError. *)
Definition named_encode (n : text) : val -> res bytes :=
  match ty_of_name n with
  | Some TBool => bool_encode
  | Some (TInt sg w) => int_encode sg w
  | Some (TReal dbl) => real_encode dbl
  | Some TDateTime => datetime_encode
  | Some (TStr a b c) => str_encode a b c
  | Some TStringN => stringn_encode
  | Some (TBits w) => bits_encode w
  | _ => fun _ => Err (Foreign NotImplementedError)
  end.
Definition named_decode (n : text) : bytes -> dres :=
  match ty_of_name n with
  | Some (TStr a b c) => str_decode a b c
  | Some TStringN => stringn_decode
  | _ => fun _ => DErr (Foreign NotImplementedError)
  end.

Definition all_ascii (s : text) : bool := forallb (fun c => (0 <=? c) && (c <? 128)) s.

(* one `(string, str_type, lang, char_set)` item of the loop body *)
Definition stringi_encode_item (item : val) : res bytes :=
  let* parts := py_iter item in
  match parts with
  | [string; str_type; lang; char_set] =>
      match str_type with
      | VType n =>
          match find_row type_rows n with
          | Some r =>
              if byte_ok (row_code r) then                                    (* bytes([str_type.code]) *)
                let* lg := match lang with                                     (* bytes(lang, "ascii") *)
                           | VStr s => if all_ascii s then Ok s else Err (Foreign UnicodeError)
                           | _ => Err (Foreign TypeError)
                           end in
                let* cs := named_int_encode n_UINT char_set in
                let* st := named_encode n string in
                Ok (lg ++ [row_code r] ++ cs ++ st)
              else Err (Foreign ValueError)
          | None => Err (Foreign AttributeError)
          end
      | _ => Err (Foreign AttributeError)                                      (* .code *)
      end
  | _ => Err (Foreign ValueError)                                              (* unpacking *)
  end.
Fixpoint stringi_encode_items (items : list val) : res bytes :=
  match items with
  | [] => Ok []
  | x :: r => let* a := stringi_encode_item x in let* b := stringi_encode_items r in Ok (a ++ b)
  end.
(* STRINGI.encode( *strings ) — an overriding public method with its own try *)
Definition stringi_encode_args (strings : list val) : res bytes :=
  wrap_all DataError (
    let* c := named_int_encode n_USINT (VInt (zlen strings)) in
    let* d := stringi_encode_items strings in
    Ok (c ++ d)).
Definition stringi_encode (v : val) : res bytes := stringi_encode_args [v].

Fixpoint stringi_decode_items (count : nat) (bs : bytes) (ss ls cs : list val) : dres :=
  match count with
  | O => DOk (VTuple [VList (rev ss); VList (rev ls); VList (rev cs)]) bs
  | S c =>
      (* lang = SHORT_STRING.decode(b"\x03" + stream.read(3)) : decoded from a bytes object *)
      let '(l3, r1) := stream_take 3 bs in
      match named_decode n_SHORT_STRING (3 :: l3) with
      | DOk lang _ =>
          match r1 with
          | [] => DErr (Foreign IndexError)                                    (* stream.read(1)[0] *)
          | code :: r2 =>
              match zlookup stringi_string_types code with
              | None => DErr (Foreign KeyError)
              | Some tn =>
                  dbind (named_int_decode n_UINT r2) (fun chs r3 =>
                  dbind (named_decode tn r3) (fun s r4 =>
                    stringi_decode_items c r4 (s :: ss) (lang :: ls) (chs :: cs)))
              end
          end
      | DEmpty _ => DEmpty r1
      | DErr e => DErr e
      | DOutOfFuel => DOutOfFuel
      end
  end.
(* STRINGI.decode — an overriding public method with its own try (BufferEmptyError re-raised) *)
Definition stringi_decode (bs : bytes) : dres :=
  dwrap (dbind (named_int_decode n_USINT bs) (fun count r1 =>
           stringi_decode_items (Z.to_nat (as_int count)) r1 [] [] [])).

(* ------------------------------------------------------------------ Array *)
(* b"".join(element_type.encode(values[i]) for i in range(n)), i counting up from [i] *)
Fixpoint encode_items (enc : val -> res bytes) (values : val) (i n : nat) : res bytes :=
  match n with
  | O => Ok []
  | S n' =>
      let* x := py_index values i in
      let* b := enc x in
      let* r := encode_items enc values (S i) n' in
      Ok (b ++ r)
  end.

(* [values[i : i + chunk] for i in range(0, len(values), chunk)] *)
Fixpoint chunk_vals (fuel : nat) (chunk : nat) (values : val) (i : nat) (n : nat) : res (list val) :=
  match fuel with
  | O => Ok []
  | S f => if (n <=? i)%nat then Ok []
           else let* c := py_slice values i (i + chunk) in
                let* r := chunk_vals f chunk values (i + chunk) n in
                Ok (c :: r)
  end.

(* Array.encode (everything inside its try).  [fixed] = Some n for an integer length; [bitsz] =
   Some w when the element type is (an instance of) a BitArrayType of w bytes. *)
Definition array_encode (fixed : option nat) (bitsz : option nat)
           (enc : val -> res bytes) (values : val) : res bytes :=
  wrap_all DataError (
    let* nv := py_len values in
    let* len0 := match fixed with
                 | Some n => if nv <? Z.of_nat n then Err DataError else Ok n
                 | None => Ok (Z.to_nat nv)
                 end in
    match bitsz with
    | Some w =>
        let chunk := (w * 8)%nat in
        match chunk with
        | O => Err (Foreign ValueError)
        | _ =>
            let len1 := Z.to_nat (nv / Z.of_nat chunk) in
            let* chunks := chunk_vals (S (Z.to_nat nv)) chunk values 0 (Z.to_nat nv) in
            encode_items enc (VList chunks) 0 len1
        end
    | None => encode_items enc values 0 len0
    end).

(* [element_type.decode(stream) for _ in range(n)] *)
Fixpoint decode_n (dec : bytes -> dres) (n : nat) (bs : bytes) : dres :=
  match n with
  | O => DOk (VList []) bs
  | S n' =>
      dbind (dec bs) (fun v r1 =>
      dbind (decode_n dec n' r1) (fun vs r2 =>
        match vs with VList l => DOk (VList (v :: l)) r2 | _ => DErr (Foreign TypeError) end))
  end.

(* list(chain.from_iterable(vals)) *)
Fixpoint chain_vals (l : list val) : res (list val) :=
  match l with
  | [] => Ok []
  | v :: r => let* a := py_iter v in let* b := chain_vals r in Ok (a ++ b)
  end.

(* the tail of Array.decode: bit-string elements are flattened *)
Definition array_flatten (is_bits : bool) (vs : val) (rest : bytes) : dres :=
  if is_bits then match vs with
                  | VList l => match chain_vals l with Ok f => DOk (VList f) rest | Err e => DErr e end
                  | _ => DErr (Foreign TypeError)
                  end
  else DOk vs rest.

Definition array_decode_fixed (n : nat) (is_bits : bool) (dec : bytes -> dres) (bs : bytes) : dres :=
  dwrap (dbind (decode_n dec n bs) (array_flatten is_bits)).

(* Array(L, T).decode with L a DataType class or instance: `_len = L.decode(stream)`, then
   `range(_len)` elements.  [count_limit] bounds the loop the model runs; a larger count whose first
   [count_limit] elements all decode (elements of no size) is reported as out of fuel. *)
Definition count_limit : Z := 1048576.
Definition array_decode_prefix (is_bits : bool) (declen : bytes -> dres) (dec : bytes -> dres) (bs : bytes) : dres :=
  dwrap (dbind (declen bs) (fun n r1 =>
    let count := match n with VInt z => Some z | VBool b => Some (if b then 1 else 0) | _ => None end in
    match count with
    | None => DErr (Foreign TypeError)               (* range(<not an integer>) *)
    | Some z =>
        match decode_n dec (Z.to_nat (Z.min z count_limit)) r1 with
        | DOk vs r2 => if count_limit <? z then DOutOfFuel else array_flatten is_bits vs r2
        | other => other
        end
    end)).

(* Array._decode_all: `while True: try: decode except BufferEmptyError: break`, and the loop also
   ends (dropping that value) when the element did not advance the stream *)
Fixpoint decode_all (dec : bytes -> dres) (fuel : nat) (bs : bytes) : dres :=
  match fuel with
  | O => DOutOfFuel
  | S f =>
      match dec bs with
      | DOk v r1 =>
          if (length r1 =? length bs)%nat then DOk (VList []) r1
          else
          dbind (decode_all dec f r1) (fun vs r2 =>
            match vs with VList l => DOk (VList (v :: l)) r2 | _ => DErr (Foreign TypeError) end)
      | DEmpty r => DOk (VList []) r
      | DErr e => DErr e
      | DOutOfFuel => DOutOfFuel
      end
  end.
Definition array_decode_all (is_bits : bool) (dec : bytes -> dres) (fuel : nat) (bs : bytes) : dres :=
  dwrap (dbind (decode_all dec fuel bs) (array_flatten is_bits)).

(* ------------------------------------------------------------------ Struct *)
(* dict form: b"".join(typ.encode(values[typ.name]) for typ in members) *)
Fixpoint struct_encode_dict (ms : list (key * (val -> res bytes))) (d : list (key * val)) : res bytes :=
  match ms with
  | [] => Ok []
  | (k, enc) :: r =>
      let* x := dict_get d k in
      let* b := enc x in
      let* rs := struct_encode_dict r d in
      Ok (b ++ rs)
  end.
(* positional form: zip(members, values) stops at the shorter one *)
Fixpoint struct_encode_seq (ms : list (key * (val -> res bytes))) (vs : list val) : res bytes :=
  match ms, vs with
  | (_, enc) :: r, x :: xs =>
      let* b := enc x in
      let* rs := struct_encode_seq r xs in
      Ok (b ++ rs)
  | _, _ => Ok []
  end.
(* `values = list(values)`; fewer values than members: DataError *)
Definition struct_encode_inner (ms : list (key * (val -> res bytes))) (v : val) : res bytes :=
  match v with
  | VDict d => struct_encode_dict ms d
  | _ => let* items := py_iter v in
         if (length items <? length ms)%nat then Err DataError else struct_encode_seq ms items
  end.

(* {typ.name: typ.decode(stream) for typ in members} *)
Fixpoint struct_decode_members (ms : list (key * (bytes -> dres))) (acc : list (key * val)) (bs : bytes) : dres :=
  match ms with
  | [] => DOk (VDict acc) bs
  | (k, dec) :: r =>
      dbind (dec bs) (fun v r1 => struct_decode_members r (dict_set acc k v) r1)
  end.
Definition struct_decode_inner (ms : list (key * (bytes -> dres))) (bs : bytes) : dres :=
  dbind (struct_decode_members ms [] bs) (fun v rest =>
    match v with
    | VDict d => DOk (VDict (dict_pop (dict_pop d (Some [])) None)) rest
    | _ => DErr (Foreign TypeError)
    end).

(* --- identity objects: custom_types.py ModuleIdentityObject / ListIdentityObject ---
   VENDORS / PRODUCT_TYPES = {**_T, **{v: k for k, v in _T.items()}} : the LAST binding wins *)
Fixpoint ilookup {A} (d : list (Z * A)) (k : Z) : option A :=
  match d with
  | [] => None
  | (k', v) :: r => match ilookup r k with Some v' => Some v' | None => if k' =? k then Some v else None end
  end.
Fixpoint rlookup (d : list (Z * text)) (n : text) : option Z :=
  match d with
  | [] => None
  | (k, v) :: r => match rlookup r n with Some k' => Some k' | None => if text_eqb v n then Some k else None end
  end.
Definition UNKNOWN : text := zs_of_string "UNKNOWN".
(* T.get(x, "UNKNOWN") *)
Definition table_get (t : list (Z * text)) (x : val) : val :=
  match x with
  | VInt i => match ilookup t i with Some n => VStr n | None => VStr UNKNOWN end
  | VBool b => match ilookup t (if b then 1 else 0) with Some n => VStr n | None => VStr UNKNOWN end
  | VStr n => match rlookup t n with Some i => VInt i | None => VStr UNKNOWN end
  | _ => VStr UNKNOWN
  end.
(* T[x] *)
Definition table_getitem (t : list (Z * text)) (x : val) : res val :=
  match x with
  | VInt i => match ilookup t i with Some n => Ok (VStr n) | None => Err (Foreign KeyError) end
  | VBool b => match ilookup t (if b then 1 else 0) with Some n => Ok (VStr n) | None => Err (Foreign KeyError) end
  | VStr n => match rlookup t n with Some i => Ok (VInt i) | None => Err (Foreign KeyError) end
  | _ => Err (Foreign KeyError)
  end.

(* format(n, "08x") for n >= 0: zero-padded on the left to a MINIMUM width of 8 *)
Fixpoint hex_digits (fuel : nat) (n : Z) (acc : text) : text :=
  match fuel with
  | O => acc
  | S f => let acc' := hexdigit (n mod 16) :: acc in
           if n <? 16 then acc' else hex_digits f (n / 16) acc'
  end.
Definition py_hex (n : Z) : text := hex_digits (S (Z.to_nat (Z.log2 n))) n [].
Definition fmt_08x (n : Z) : text := let d := py_hex n in repeat 48 (8 - length d) ++ d.
Definition is_space (c : Z) : bool := (c =? 32) || ((9 <=? c) && (c <=? 13)).
(* bytes.fromhex(s): pairs of hex digits of either case, ASCII whitespace allowed between pairs *)
Fixpoint bytes_fromhex (s : text) : res bytes :=
  match s with
  | [] => Ok []
  | c :: r =>
      if is_space c then bytes_fromhex r else
      match r with
      | [] => Err (Foreign ValueError)
      | d :: r' => match hexval c, hexval d with
                   | Some a, Some b => let* t := bytes_fromhex r' in Ok (16 * a + b :: t)
                   | _, _ => Err (Foreign ValueError)
                   end
      end
  end.
(* int.from_bytes(bs, "big") *)
Definition int_from_bytes_big (bs : bytes) : Z := fold_left (fun acc b => acc * 256 + b) bs 0.

Definition k_vendor : key := Some (zs_of_string "vendor").
Definition k_product_type : key := Some (zs_of_string "product_type").
Definition k_serial : key := Some (zs_of_string "serial").

(* the tail of ModuleIdentityObject._decode / ListIdentityObject._decode *)
Definition identity_post (d : list (key * val)) : res (list (key * val)) :=
  let* pt := dict_get d k_product_type in
  let d1 := dict_set d k_product_type (table_get product_types pt) in
  let* vd := dict_get d1 k_vendor in
  let d2 := dict_set d1 k_vendor (table_get vendors vd) in
  let* sr := dict_get d2 k_serial in
  match sr with
  | VInt z => if 0 <=? z then Ok (dict_set d2 k_serial (VStr (fmt_08x z))) else Err (Foreign NotImplementedError)
  | _ => Err (Foreign ValueError)                    (* format spec "08x" on a non-integer *)
  end.
(* the head of ModuleIdentityObject._encode *)
Definition identity_pre (v : val) : res val :=
  match v with
  | VDict d =>
      let* pt := dict_get d k_product_type in
      let* ptc := table_getitem product_types pt in
      let d1 := dict_set d k_product_type ptc in
      let* vd := dict_get d1 k_vendor in
      let* vc := table_getitem vendors vd in
      let d2 := dict_set d1 k_vendor vc in
      let* sr := dict_get d2 k_serial in
      let* sb := match sr with VStr s => bytes_fromhex s | _ => Err (Foreign TypeError) end in
      Ok (VDict (dict_set d2 k_serial (VInt (int_from_bytes_big sb))))
  | _ => Err (Foreign AttributeError)                (* values.copy() / values["product_type"] *)
  end.

Definition struct_encode (k : skind) (ms : list (key * (val -> res bytes))) : val -> res bytes :=
  pub_encode (fun v =>
    match k with
    | SModuleIdentity => let* v' := identity_pre v in struct_encode_inner ms v'
    | _ => struct_encode_inner ms v
    end).
Definition struct_decode (k : skind) (ms : list (key * (bytes -> dres))) (bs : bytes) : dres :=
  dwrap (dbind (struct_decode_inner ms bs) (fun v rest =>
    match k with
    | SPlain => DOk v rest
    | _ => match v with
           | VDict d => match identity_post d with Ok d' => DOk (VDict d') rest | Err e => DErr e end
           | _ => DErr (Foreign TypeError)
           end
    end)).

(* ------------------------------------------------------------------ StructTag *)
(* value[a : a + len(e)] = e on a bytearray (slice assignment clamps to the current length and
   may grow the array) *)
Definition splice (buf : bytes) (a : nat) (e : bytes) : bytes :=
  firstn a buf ++ e ++ skipn (a + length e) buf.

Fixpoint stag_encode_members (ms : list ((key * nat) * (val -> res bytes))) (priv : list text)
         (d : list (key * val)) (buf : bytes) : res bytes :=
  match ms with
  | [] => Ok buf
  | ((k, off), enc) :: r =>
      if key_in k priv then stag_encode_members r priv d buf
      else
        let* x := dict_get d k in
        let* e := enc x in
        stag_encode_members r priv d (splice buf off e)
  end.

Fixpoint set_nth (buf : bytes) (i : nat) (f : Z -> Z) : option bytes :=
  match buf, i with
  | [], _ => None
  | b :: r, O => Some (f b :: r)
  | b :: r, S i' => option_map (cons b) (set_nth r i' f)
  end.

Fixpoint stag_encode_bits (bits : list (text * (nat * nat))) (d : list (key * val)) (buf : bytes) : res bytes :=
  match bits with
  | [] => Ok buf
  | (name, (off, bit)) :: r =>
      let* x := dict_get d (Some name) in
      if truthy x then
        match nth_error buf off with
        | None => Err (Foreign IndexError)
        | Some b =>
            let nb := Z.lor b (2 ^ Z.of_nat bit) in
            if nb <? 256
            then match set_nth buf off (fun _ => nb) with Some buf' => stag_encode_bits r d buf' | None => Err (Foreign IndexError) end
            else Err (Foreign ValueError)        (* byte must be in range(0, 256) *)
        end
      else
        match set_nth buf off (fun b => Z.land b (Z.lnot (2 ^ Z.of_nat bit))) with
        | Some buf' => stag_encode_bits r d buf'
        | None => Err (Foreign IndexError)
        end
  end.

(* StructTag._encode (returns a bytearray) behind DataType.encode *)
Definition structtag_encode (ms : list ((key * nat) * (val -> res bytes)))
           (bits : list (text * (nat * nat))) (priv : list text) (size : nat) : val -> res bytes :=
  pub_encode (fun v =>
    match v with
    | VDict d =>
        let* buf := stag_encode_members ms priv d (zeros size) in
        stag_encode_bits bits d buf
    | _ => Err (Foreign AttributeError)          (* values.items() *)
    end).

(* members are decoded from a private sub-stream of the first [size] bytes, each after
   `stream.seek(offset)` *)
Fixpoint stag_decode_members (ms : list ((key * nat) * (bytes -> dres)))
         (acc : list (key * val)) (raw : bytes) : dres :=
  match ms with
  | [] => DOk (VDict acc) []
  | ((k, off), dec) :: r =>
      dbind (dec (skipn off raw)) (fun v _ => stag_decode_members r (dict_set acc k v) raw)
  end.

Fixpoint stag_decode_bits (bits : list (text * (nat * nat))) (raw : bytes) (acc : list (key * val)) : res (list (key * val)) :=
  match bits with
  | [] => Ok acc
  | (name, (off, bit)) :: r =>
      match nth_error raw off with
      | None => Err (Foreign IndexError)
      | Some b => stag_decode_bits r raw (dict_set acc (Some name) (VBool (Z.testbit b (Z.of_nat bit))))
      end
  end.

Definition structtag_decode (ms : list ((key * nat) * (bytes -> dres)))
           (bits : list (text * (nat * nat))) (priv : list text) (size : nat) (bs : bytes) : dres :=
  let raw := firstn size bs in
  let rest := skipn size bs in
  dwrap (
    if negb (length raw =? 0)%nat && (length raw <? size)%nat then DErr DataError else
    match stag_decode_members ms [] raw with
    | DOk (VDict d) _ =>
        match stag_decode_bits bits raw d with
        | Ok d' => DOk (VDict (filter (fun kv => negb (key_in (fst kv) priv)) d')) rest
        | Err e => DErr e
        end
    | DOk _ _ => DErr (Foreign TypeError)
    | DEmpty _ => DEmpty rest                     (* raised on the sub-stream; the outer stream is past the struct *)
    | DErr e => DErr e
    | DOutOfFuel => DOutOfFuel
    end).

(* ------------------------------------------------------------------ the codec *)
Definition bits_width (t : ty) : option nat := match t with TBits w => Some w | _ => None end.
Definition is_bits (t : ty) : bool := match t with TBits _ => true | _ => false end.
(* element / member types that are INSTANCES in every construction the library offers *)
Definition is_instance (t : ty) : bool := match t with TNBytes _ => true | _ => false end.

(* (kept for the clients of the model) every encoder now returns bytes: a member's encoding inside
   b"".join(...) is the encoding, and T.encode never returns another kind of object *)
Definition as_member (t : ty) (enc : val -> res bytes) (x : val) : res bytes := enc x.
Definition encode_result_kind (t : ty) (v : val) : Z := 0.

Fixpoint encode (t : ty) : val -> res bytes :=
  match t with
  | TBool => bool_encode
  | TInt sg w => int_encode sg w
  | TReal dbl => real_encode dbl
  | TDateTime => datetime_encode
  | TStr lsg lw enc => str_encode lsg lw enc
  | TStringN => stringn_encode
  | TStringI => stringi_encode
  | TNBytes n => nbytes_encode n
  | TBits w => bits_encode w
  | TArrFixed n e => array_encode (Some n) (bits_width e) (as_member e (encode e))
  | TArrPrefix _ _ e => array_encode None (bits_width e) (as_member e (encode e))
  | TArrAll e => array_encode None (bits_width e) (as_member e (encode e))
  | TStruct k ms => struct_encode k (map (fun m => (fst m, as_member (snd m) (encode (snd m)))) ms)
  | TFixedStr size lsg lw cap => fixedstr_encode size lsg lw cap
  | TStructTag ms bits priv size =>
      structtag_encode (map (fun m => (fst m, as_member (snd m) (encode (snd m)))) ms) bits priv size
  | TIPAddr => ip_encode
  | TPcccAscii => pccc_ascii_encode
  | TPcccString => pccc_string_encode
  end.

Fixpoint decode_fuel (fuel : nat) (t : ty) {struct t} : bytes -> dres :=
  match t with
  | TBool => bool_decode
  | TInt sg w => int_decode sg w
  | TReal dbl => real_decode dbl
  | TDateTime => datetime_decode
  | TStr lsg lw enc => str_decode lsg lw enc
  | TStringN => stringn_decode
  | TStringI => stringi_decode
  | TNBytes n => nbytes_decode n
  | TBits w => bits_decode w
  | TArrFixed n e => array_decode_fixed n (is_bits e) (decode_fuel fuel e)
  | TArrPrefix _ lt e => array_decode_prefix (is_bits e) (decode_fuel fuel lt) (decode_fuel fuel e)
  | TArrAll e => array_decode_all (is_bits e) (decode_fuel fuel e) fuel
  | TStruct k ms => struct_decode k (map (fun m => (fst m, decode_fuel fuel (snd m))) ms)
  | TFixedStr size lsg lw _ => fixedstr_decode size lsg lw
  | TStructTag ms bits priv size =>
      structtag_decode (map (fun m => (fst m, decode_fuel fuel (snd m))) ms) bits priv size
  | TIPAddr => ip_decode
  | TPcccAscii => pccc_ascii_decode
  | TPcccString => pccc_string_decode
  end.

(* The fuel-free view.  Fuel [S (length bs)] is enough for every call that terminates in the
   implementation on types whose elements consume input; a call that does NOT terminate within the
   fuel is mapped to a FOREIGN exception, so that no statement of the form "only library exceptions
   escape" can hold of it by accident. *)
Definition hang_marker : exn := Foreign StopIteration.
Definition res_of_dres (r : dres) : res (val * bytes) :=
  match r with
  | DOk v rest => Ok (v, rest)
  | DErr e => Err e
  | DEmpty _ => Err BufferEmpty
  | DOutOfFuel => Err hang_marker
  end.
Definition decode (t : ty) (bs : bytes) : res (val * bytes) :=
  res_of_dres (decode_fuel (S (length bs)) t bs).

(* ------------------------------------------------------------------ positional calls T.encode( *args ) *)
(* the `length=` argument of Array.encode / Array.decode: `_length = length or cls.length` *)
Definition elem_of (t : ty) : option ty :=
  match t with TArrFixed _ e | TArrPrefix _ _ e | TArrAll e => Some e | _ => None end.
(* the array type the call behaves as, for a `length` value; None: a non-integer truthy length
   (outside the model) *)
Definition with_length (t : ty) (len : val) : option ty :=
  match elem_of t with
  | Some e =>
      if truthy len then
        match len with
        | VInt z => if 0 <=? z then Some (TArrFixed (Z.to_nat z) e) else None
        | VBool _ => Some (TArrFixed 1 e)
        | _ => None
        end
      else Some t
  | None => None
  end.

Definition encode_args (t : ty) (args : list val) : res bytes :=
  match t, args with
  | TDateTime, time :: date :: _ => datetime_encode2 time date
  | TStringN, [v; cs] => stringn_encode_cs cs v
  | TStringI, _ => stringi_encode_args args
  | (TArrFixed _ _ | TArrPrefix _ _ _ | TArrAll _), [values; len] =>
      match with_length t len with
      | Some t' => encode t' values
      | None => Err (Foreign NotImplementedError)
      end
  | _, [v] => encode t v
  | _, _ => Err (Foreign TypeError)                (* missing / unexpected positional argument *)
  end.
Definition decode_len_fuel (fuel : nat) (t : ty) (len : val) (bs : bytes) : dres :=
  match with_length t len with
  | Some t' => decode_fuel fuel t' bs
  | None => DErr (Foreign NotImplementedError)
  end.

(* ------------------------------------------------------------------ Struct instances of custom_types.py *)
Definition n_BYTES := zs_of_string "BYTES".
Definition n_Revision := zs_of_string "Revision".
Definition n_IPAddress := zs_of_string "IPAddress".

Definition ty_of_desc (revision : option ty) (d : list Z * Z) : option ty :=
  let '(c, p) := d in
  if text_eqb c n_BYTES then Some (TNBytes p)
  else if text_eqb c n_Revision then revision
  else if text_eqb c n_IPAddress then Some TIPAddr
  else ty_of_name c.

Fixpoint members_of_desc (revision : option ty) (ms : list (option (list Z) * (list Z * Z))) : option (list (key * ty)) :=
  match ms with
  | [] => Some []
  | (k, d) :: r =>
      match ty_of_desc revision d, members_of_desc revision r with
      | Some t, Some rs => Some ((k, t) :: rs)
      | _, _ => None
      end
  end.

Definition Revision_ty : option ty := option_map (TStruct SPlain) (members_of_desc None revision_members).
Definition ModuleIdentityObject_ty : option ty :=
  option_map (TStruct SModuleIdentity) (members_of_desc Revision_ty module_identity_members).
Definition ListIdentityObject_ty : option ty :=
  option_map (TStruct SListIdentity) (members_of_desc Revision_ty list_identity_members).
