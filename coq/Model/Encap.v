(* Model/Encap.v — executable model of the encapsulation layer of pycomm3 (property C11):

     packets/base.py        RequestPacket.__init__ / add / _setup_message / build_message / build_request /
                            _build_header / _build_common_packet_format
     packets/ethernetip.py  SendUnitDataRequestPacket, SendRRDataRequestPacket, RegisterSessionRequestPacket,
                            UnRegisterSessionRequestPacket, ListIdentityRequestPacket
     cip_driver.py          CIPDriver.send (which session / connection id / context / option a request
                            gets) and the part of the driver state it reads, with the methods that
                            write that state: open, _register_session, _forward_open, with_forward_open,
                            close, _forward_close, _un_register_session

   Everything declarative (the join lists of the two builders, literals, class attributes, override
   shapes, _cfg defaults, the sources of send's keyword arguments) is INTERPRETED from
   Gen/EncapGen.v; this file holds the control flow.  Definitions only.

   Python values that can reach a join or an integer encoder are [pv] (None / bytes / int).
   A mutated object is returned: [build_message] and [build_request] return the packet after the
   call together with the result (the object keeps its partial updates when an exception escapes).
   Subclasses (Generic*, tag services) extend _setup_message with `super()._setup_message();
   self._msg += [...]`: for the message contents that is the same as `add(...)`, which is how their
   bodies enter this model ([p_added]). *)
From PV Require Import Base.Bytes Base.Res Model.EncapDefs Gen.EncapGen.
Open Scope Z_scope.

Definition zlen (l : bytes) : Z := Z.of_nat (length l).

Inductive pv := PNone | PBytes (b : bytes) | PInt (z : Z).

Definition pv_of_opt (o : option bytes) : pv := match o with Some b => PBytes b | None => PNone end.

(* `if x:` *)
Definition truthy (v : pv) : bool :=
  match v with PNone => false | PBytes b => negb (zlen b =? 0) | PInt z => negb (z =? 0) end.
(* `x == 0` / `x != 0` for an int literal 0 *)
Definition eq_int (v : pv) (k : Z) : bool := match v with PInt z => z =? k | _ => false end.

(* <unsigned little-endian integer type>.encode(v): struct.pack inside DataType.encode's wrapper —
   whatever fails (out of range, None, bytes) surfaces as DataError *)
Definition enc_uint (size : nat) (v : pv) : res bytes :=
  match v with
  | PInt z => if in_urange size z then Ok (le_enc size z) else Err DataError
  | _ => Err DataError
  end.

(* the elements of a list display are evaluated left to right; the first exception wins *)
Fixpoint eval_all {A} (l : list (res A)) : res (list A) :=
  match l with
  | [] => Ok []
  | x :: r => let* a := x in let* t := eval_all r in Ok (a :: t)
  end.

(* b"".join(elements): an element that is not bytes-like is a TypeError *)
Fixpoint join (l : list pv) : res bytes :=
  match l with
  | [] => Ok []
  | PBytes b :: r => let* t := join r in Ok (b ++ t)
  | _ :: _ => Err (Foreign TypeError)
  end.

(* ---------------------------------------------------------------- RequestPacket._build_header *)
Record hargs := { ha_command : pv; ha_length : pv; ha_session : pv; ha_context : pv; ha_option : pv }.

Definition harg_val (h : hargs) (a : harg) : pv :=
  match a with
  | ACommand => ha_command h | ALength => ha_length h | ASession => ha_session h
  | AContext => ha_context h | AOption => ha_option h
  end.

Definition hfield_eval (h : hargs) (f : hfield) : res pv :=
  match f with
  | HLit b => Ok (PBytes b)
  | HRaw a => Ok (harg_val h a)
  | HEnc size a => let* b := enc_uint size (harg_val h a) in Ok (PBytes b)
  end.

Definition build_header (h : hargs) : res bytes :=
  let r := (let* xs := eval_all (map (hfield_eval h) header_layout) in join xs) in
  match header_wrap with Some e => wrap_all e r | None => r end.

(* ---------------------------------------------------------------- RequestPacket._build_common_packet_format *)
Definition cattr_val (c : pclass) (a : cattr) : pv :=
  match a with
  | ATimeout => pv_of_opt (pc_timeout c)
  | AAddrType => pv_of_opt (pc_address_type c)
  | AMsgType => pv_of_opt (pc_message_type c)
  end.

(* addr_data = ADDR_DATA_NONE if addr_data is None else <T>.encode(len(addr_data)) + addr_data *)
Definition addr_data_of (target : pv) : res pv :=
  match target with
  | PNone => Ok (PBytes ADDR_DATA_NONE)
  | PBytes c => let* l := enc_uint ADDR_LEN_SIZE (PInt (zlen c)) in Ok (PBytes (l ++ c))
  | PInt _ => Err (Foreign TypeError)            (* len(<int>) *)
  end.

Definition cfield_eval (c : pclass) (ad : pv) (message : bytes) (f : cfield) : res pv :=
  match f with
  | CLit b => Ok (PBytes b)
  | CAttr a => Ok (cattr_val c a)
  | CAddrData => Ok ad
  | CMsgLen size => let* b := enc_uint size (PInt (zlen message)) in Ok (PBytes b)
  | CMsg => Ok (PBytes message)
  end.

Definition base_cpf (c : pclass) (message : bytes) (target : pv) : res bytes :=
  let* ad := addr_data_of target in
  let* xs := eval_all (map (cfield_eval c ad message) cpf_layout) in
  join xs.

(* the class's _build_common_packet_format(message, addr_data=target) *)
Definition build_common_packet_format (c : pclass) (message : bytes) (target : pv) : res bytes :=
  match pc_cpf c with
  | CpfBase => base_cpf c message target
  | CpfSuperNoAddr => base_cpf c message PNone
  | CpfMessage => Ok message
  | CpfEmpty => Ok []
  end.

(* ---------------------------------------------------------------- request packets *)
Inductive kind := KSendUnit | KSendRR | KRegister | KUnRegister | KListIdentity.

Definition class_of (k : kind) : pclass :=
  match k with
  | KSendUnit => cls_SendUnitData
  | KSendRR => cls_SendRRData
  | KRegister => cls_RegisterSession
  | KUnRegister => cls_UnRegisterSession
  | KListIdentity => cls_ListIdentity
  end.

Record packet := {
  p_kind : kind;
  p_sequence : pv;                   (* SendUnitData: self._sequence (drawn at construction) *)
  p_protocol_version : pv;           (* RegisterSession *)
  p_option_flags : pv;
  p_msg : list pv;                   (* self._msg *)
  p_added : list pv;                 (* self._added *)
  p_msg_setup : bool;                (* self._msg_setup *)
  p_message : bytes                  (* self.message *)
}.

(* <Class>(...) : RequestPacket.__init__ *)
Definition new_packet (k : kind) (sequence protocol_version option_flags : pv) : packet :=
  {| p_kind := k; p_sequence := sequence; p_protocol_version := protocol_version; p_option_flags := option_flags;
     p_msg := []; p_added := []; p_msg_setup := false; p_message := [] |}.

Definition with_msg (p : packet) (m : list pv) : packet :=
  {| p_kind := p_kind p; p_sequence := p_sequence p; p_protocol_version := p_protocol_version p;
     p_option_flags := p_option_flags p; p_msg := m; p_added := p_added p; p_msg_setup := p_msg_setup p;
     p_message := p_message p |}.
Definition with_added (p : packet) (a : list pv) : packet :=
  {| p_kind := p_kind p; p_sequence := p_sequence p; p_protocol_version := p_protocol_version p;
     p_option_flags := p_option_flags p; p_msg := p_msg p; p_added := a; p_msg_setup := p_msg_setup p;
     p_message := p_message p |}.
Definition with_setup (p : packet) (b : bool) : packet :=
  {| p_kind := p_kind p; p_sequence := p_sequence p; p_protocol_version := p_protocol_version p;
     p_option_flags := p_option_flags p; p_msg := p_msg p; p_added := p_added p; p_msg_setup := b;
     p_message := p_message p |}.
Definition with_message (p : packet) (m : bytes) : packet :=
  {| p_kind := p_kind p; p_sequence := p_sequence p; p_protocol_version := p_protocol_version p;
     p_option_flags := p_option_flags p; p_msg := p_msg p; p_added := p_added p; p_msg_setup := p_msg_setup p;
     p_message := m |}.

(* add(value, ...) *)
Definition add (p : packet) (value : list pv) : packet := with_added p (p_added p ++ value).

(* the class's _setup_message() *)
Definition setup_message (p : packet) : packet * res unit :=
  match pc_setup (class_of (p_kind p)) with
  | SetupBase => (with_setup p true, Ok tt)
  | SetupSuperSeq size =>
      let p1 := with_setup p true in
      match enc_uint size (p_sequence p1) with
      | Ok b => (with_msg p1 (p_msg p1 ++ [PBytes b]), Ok tt)
      | Err e => (p1, Err e)
      end
  | SetupRegister => (with_msg p (p_msg p ++ [p_protocol_version p; p_option_flags p]), Ok tt)
  end.

(* build_message() *)
Definition finish_message (p : packet) : packet * res bytes :=
  match join (p_msg p) with
  | Ok m => (with_message p m, Ok m)
  | Err e => (p, Err e)
  end.

Definition build_message (p : packet) : packet * res bytes :=
  if negb (p_msg_setup p) then
    match setup_message p with
    | (p1, Err e) => (p1, Err e)
    | (p1, Ok _) => finish_message (with_msg p1 (p_msg p1 ++ p_added p1))
    end
  else finish_message p.

(* build_request(target_cid, session_id, context, option) *)
Definition build_request (p : packet) (target_cid session_id context option : pv) : packet * res bytes :=
  match build_message p with
  | (p1, Err e) => (p1, Err e)
  | (p1, Ok msg) =>
      let c := class_of (p_kind p1) in
      (p1,
       let* common := build_common_packet_format c msg target_cid in
       let* header := build_header {| ha_command := pv_of_opt (pc_command c); ha_length := PInt (zlen common);
                                      ha_session := session_id; ha_context := context; ha_option := option |} in
       Ok (header ++ common))
  end.

(* ---------------------------------------------------------------- the driver state CIPDriver.send reads *)
Record dstate := {
  d_sock : bool;             (* self._sock is not None *)
  d_opened : bool;           (* self._connection_opened *)
  d_session : pv;            (* self._session *)
  d_target_cid : pv;         (* self._target_cid *)
  d_connected : bool;        (* self._target_is_connected *)
  d_ext_fo : bool            (* self._cfg["extended forward open"] *)
}.

Definition init_dstate : dstate :=
  {| d_sock := false; d_opened := false; d_session := PInt INIT_SESSION; d_target_cid := PNone;
     d_connected := false; d_ext_fo := true |}.

Definition src_val (s : src) (st : dstate) : pv :=
  match s with
  | SelfTargetCid => d_target_cid st
  | SelfSession => d_session st
  | SelfSequence => PNone              (* the generator object: neither bytes nor an int *)
  | CfgContext => PBytes CFG_CONTEXT
  | CfgOption => PInt CFG_OPTION
  | CfgProtocolVersion => PBytes CFG_PROTOCOL_VERSION
  end.

(* CIPDriver.send up to the write on the socket: the frame handed to self._sock.send, or the
   exception (a missing socket is an AttributeError that _send turns into CommError) *)
Definition send (st : dstate) (p : packet) : packet * res bytes :=
  match build_request p (src_val SEND_TARGET_CID st) (src_val SEND_SESSION_ID st)
                        (src_val SEND_CONTEXT st) (src_val SEND_OPTION st) with
  | (p1, Err e) => (p1, Err e)
  | (p1, Ok f) => (p1, if d_sock st then Ok f else Err CommError)
  end.

Definition set_session (st : dstate) (s : pv) : dstate :=
  {| d_sock := d_sock st; d_opened := d_opened st; d_session := s; d_target_cid := d_target_cid st;
     d_connected := d_connected st; d_ext_fo := d_ext_fo st |}.
Definition set_cid_connected (st : dstate) (c : pv) : dstate :=
  {| d_sock := d_sock st; d_opened := d_opened st; d_session := d_session st; d_target_cid := c;
     d_connected := true; d_ext_fo := d_ext_fo st |}.
Definition set_connected (st : dstate) (b : bool) : dstate :=
  {| d_sock := d_sock st; d_opened := d_opened st; d_session := d_session st; d_target_cid := d_target_cid st;
     d_connected := b; d_ext_fo := d_ext_fo st |}.
Definition set_ext_fo (st : dstate) (b : bool) : dstate :=
  {| d_sock := d_sock st; d_opened := d_opened st; d_session := d_session st; d_target_cid := d_target_cid st;
     d_connected := d_connected st; d_ext_fo := b |}.
Definition set_sock_opened (st : dstate) (b : bool) : dstate :=
  {| d_sock := b; d_opened := b; d_session := d_session st; d_target_cid := d_target_cid st;
     d_connected := d_connected st; d_ext_fo := d_ext_fo st |}.

(* what happens, in order: frames written to the socket, replies the driver accepted, the close *)
Inductive event :=
  | EvFrame (k : kind) (f : bytes)   (* written to the socket by a request of class k *)
  | EvRegistered (h : Z)              (* a valid RegisterSession reply carrying handle h was stored *)
  | EvForwardOpened (value : bytes)   (* a successful Forward Open reply: _target_cid = value[:4] *)
  | EvClosed.                         (* close() reset the state *)

(* result of a driver call: state, events, how it ended *)
Definition call (A : Type) : Type := dstate * list event * res A.

(* _register_session(); [reg] = the valid reply's handle, None = no valid reply *)
Definition register_session (st : dstate) (reg : option Z) : call bool :=
  if truthy (d_session st) then (st, [], Ok true)
  else
    match send st (new_packet KRegister PNone (src_val CfgProtocolVersion st) (PBytes REGISTER_OPTION_FLAGS_DEFAULT)) with
    | (_, Err e) => (st, [], Err e)
    | (_, Ok f) =>
        match reg with
        | Some h => (set_session st (PInt h), [EvFrame KRegister f; EvRegistered h], Ok true)
        | None => (st, [EvFrame KRegister f], Ok false)
        end
    end.

(* open() without socket faults *)
Definition open (st : dstate) (reg : option Z) : call bool :=
  if d_opened st then (st, [], Ok true)
  else
    match register_session (set_sock_opened st true) reg with
    | (st1, evs, Err _) => (st1, evs, Err CommError)          (* except Exception -> CommError *)
    | r => r
    end.

(* an unconnected request of kind k (SendRRData and subclasses: generic_message(connected=False);
   ListIdentity: _list_identity) whose message body is [body] *)
Definition send_unconnected (st : dstate) (k : kind) (body : list pv) : call unit :=
  match send st (add (new_packet k PNone PNone PNone) body) with
  | (_, Err e) => (st, [], Err e)
  | (_, Ok f) => (st, [EvFrame k f], Ok tt)
  end.

(* _forward_open(); [msg] = the Forward Open service request, [reply] = Some value on success *)
Definition forward_open (st : dstate) (msg : list pv) (reply : option bytes) : call bool :=
  if d_connected st then (st, [], Ok true)
  else if eq_int (d_session st) 0 then (st, [], Err CommError)
  else
    match send_unconnected st KSendRR msg with
    | (st1, evs, Err e) => (st1, evs, Err e)
    | (st1, evs, Ok _) =>
        match reply with
        | Some value => (set_cid_connected st1 (PBytes (firstn 4 value)), evs ++ [EvForwardOpened value], Ok true)
        | None => (st1, evs, Ok false)
        end
    end.

Definition nth_fo (fo : list (list pv * option bytes)) (n : nat) : list pv * option bytes :=
  nth n fo ([], None).

(* the with_forward_open wrapper up to the call of the wrapped function; [fo] = (request, reply) of
   the first and of the second attempt *)
Definition with_forward_open (st : dstate) (fo : list (list pv * option bytes)) : call unit :=
  if d_connected st then (st, [], Ok tt)
  else
    match forward_open st (fst (nth_fo fo 0)) (snd (nth_fo fo 0)) with
    | (st1, evs, Err e) => (st1, evs, Err e)
    | (st1, evs, Ok true) => (st1, evs, Ok tt)
    | (st1, evs, Ok false) =>
        if d_ext_fo st1 then
          match forward_open (set_ext_fo st1 false) (fst (nth_fo fo 1)) (snd (nth_fo fo 1)) with
          | (st2, evs2, Err e) => (st2, evs ++ evs2, Err e)
          | (st2, evs2, Ok true) => (st2, evs ++ evs2, Ok tt)
          | (st2, evs2, Ok false) => (st2, evs ++ evs2, Err ResponseError)
          end
        else (st1, evs, Err ResponseError)
    end.

(* a connected request behind with_forward_open (generic_message(connected=True), read, write, ...):
   SendUnitData with sequence count [seq] and message body [body] *)
Definition send_connected (st : dstate) (seq : pv) (body : list pv) (fo : list (list pv * option bytes)) : call unit :=
  match with_forward_open st fo with
  | (st1, evs, Err e) => (st1, evs, Err e)
  | (st1, evs, Ok _) =>
      match send st1 (add (new_packet KSendUnit seq PNone PNone) body) with
      | (_, Err e) => (st1, evs, Err e)
      | (_, Ok f) => (st1, evs ++ [EvFrame KSendUnit f], Ok tt)
      end
  end.

(* _forward_close(); [ok] = the reply is valid *)
Definition forward_close (st : dstate) (msg : list pv) (ok : bool) : call bool :=
  if eq_int (d_session st) 0 then (st, [], Err CommError)
  else
    match send_unconnected st KSendRR msg with
    | (st1, evs, Err e) => (st1, evs, Err e)
    | (st1, evs, Ok _) => if ok then (set_connected st1 false, evs, Ok true) else (st1, evs, Ok false)
    end.

(* _un_register_session() *)
Definition un_register_session (st : dstate) : call unit :=
  match send st (new_packet KUnRegister PNone PNone PNone) with
  | (_, Err e) => (st, [], Err e)
  | (_, Ok f) => (set_session st PNone, [EvFrame KUnRegister f], Ok tt)
  end.

(* close() *)
Definition close (st : dstate) (fc_msg : list pv) (fc_ok : bool) : call unit :=
  let '(st1, evs1, r1) :=
    if d_connected st then
      match forward_close st fc_msg fc_ok with
      | (s, e, Err x) => (s, e, Err x)
      | (s, e, Ok _) => (s, e, Ok tt)
      end
    else (st, [], Ok tt) in
  let '(st2, evs2, r2) :=
    match r1 with
    | Err x => (st1, [], Err x)                          (* the exception skips the rest of the try *)
    | Ok _ => if negb (eq_int (d_session st1) 0) then un_register_session st1 else (st1, [], Ok tt)
    end in
  let st3 := set_session (set_connected (set_sock_opened st2 false) false) (PInt 0) in
  (st3, evs1 ++ evs2 ++ [EvClosed], match r2 with Err _ => Err CommError | Ok _ => Ok tt end).

(* ---------------------------------------------------------------- histories *)
Inductive op :=
  | OOpen (reg : option Z)
  | OUnconnected (k : kind) (body : list pv)
  | OConnected (seq : pv) (body : list pv) (fo : list (list pv * option bytes))
  | OClose (fc_msg : list pv) (fc_ok : bool).

(* how the call ended: 0 = returned, else the exception code *)
Definition outcome {A} (r : res A) : Z := match r with Ok _ => 0 | Err e => exn_code e end.

Definition step (st : dstate) (o : op) : dstate * list event * Z :=
  match o with
  | OOpen reg => let '(s, e, r) := open st reg in (s, e, outcome r)
  | OUnconnected k body => let '(s, e, r) := send_unconnected st k body in (s, e, outcome r)
  | OConnected seq body fo => let '(s, e, r) := send_connected st seq body fo in (s, e, outcome r)
  | OClose m ok => let '(s, e, r) := close st m ok in (s, e, outcome r)
  end.

Fixpoint run (st : dstate) (ops : list op) : list (dstate * list event * Z) :=
  match ops with
  | [] => []
  | o :: r => let '(s, e, c) := step st o in (s, e, c) :: run s r
  end.

Fixpoint trace (st : dstate) (ops : list op) : list event :=
  match ops with
  | [] => []
  | o :: r => let '(s, e, _) := step st o in e ++ trace s r
  end.
