(* Model/Identity.v — executable model of the identity decoding of pycomm3:
     custom_types.py   ModuleIdentityObject (_decode / _encode), ListIdentityObject, IPAddress, Revision
     cip/data_types.py DataType.decode / encode wrappers, _stream_read, ElementaryDataType._decode /
                       _encode, StringDataType (SHORT_STRING), BytesDataType (n_bytes), Struct
     packets/*.py      ResponsePacket / SendRRDataResponsePacket / GenericUnconnectedResponsePacket /
                       ListIdentityResponsePacket ._parse_reply and .is_valid (offsets 8, 26, 40, 42, 44)
     cip_driver.py     _list_identity, _broadcast_discover (response handling), get_module_info
     logix_driver.py   get_plc_info (KEYSWITCH lookup)
     cip/status_info.py VENDORS / PRODUCT_TYPES (bidirectional merges) and KEYSWITCH: Gen/Vendors.v, Gen/Status.v
   Sizes and struct formats of USINT/UINT/INT/DINT/UDINT/ULINT and len_type / encoding of SHORT_STRING
   are read from the regenerated Gen/Types.v.  Self-contained (does not use Model/Codec.v).
   Definitions only.  Spec.IdentitySpec is required ONLY for the record types of the dicts. *)
From Coq Require Import String.
From PV Require Import Base.Bytes Base.Res Base.Proto Base.PyStr.
From PV Require Gen.Types Gen.Vendors Gen.Status Gen.Consts.
From PV Require Spec.IdentitySpec.
Open Scope Z_scope.

Notation mi_dict := IdentitySpec.mi_dict.
Notation li_dict := IdentitySpec.li_dict.
Notation plc_dict := IdentitySpec.plc_dict.

(* ------------------------------------------------------------------ streams (BytesIO = unread rest) *)
Definition stream := bytes.

(* DataType._stream_read (as of fix d2bc837 / bcb4254): data = stream.read(size);
   BufferEmptyError if no data and size != 0; DataError if fewer bytes than requested; else the data *)
Definition stream_read (size : nat) (s : stream) : res (bytes * stream) :=
  let d := firstn size s in
  match d with
  | [] => if (size =? 0)%nat then Ok ([], s) else Err BufferEmpty
  | _ => if (length d <? size)%nat then Err DataError else Ok (d, skipn size s)
  end.

(* ------------------------------------------------------------------ elementary types from Gen/Types.v *)
(* (size, struct format, len_type, encoding) of a type class *)
Fixpoint find_row (rows : list (list Z * Z * Z * list Z * list Z * list Z * list Z)) (name : list Z)
  : option (Z * list Z * list Z * list Z) :=
  match rows with
  | [] => None
  | (n, _, sz, f, lt, enc, _) :: r => if zs_eqb n name then Some (sz, f, lt, enc) else find_row r name
  end.
Definition type_row (name : list Z) := find_row Gen.Types.type_rows name.

(* meaning of the struct format strings the identity members use: (signed, width) *)
Definition fmt_sem (fmt : list Z) : option (bool * nat) :=
  if zs_eqb fmt (zs_of_string "<B") then Some (false, 1%nat)
  else if zs_eqb fmt (zs_of_string "<H") then Some (false, 2%nat)
  else if zs_eqb fmt (zs_of_string "<h") then Some (true, 2%nat)
  else if zs_eqb fmt (zs_of_string "<I") then Some (false, 4%nat)
  else if zs_eqb fmt (zs_of_string "<i") then Some (true, 4%nat)
  else if zs_eqb fmt (zs_of_string "<Q") then Some (false, 8%nat)
  else None.

(* struct.unpack(fmt, data)[0]: struct.error unless len(data) == calcsize(fmt) *)
Definition unpack (sg : bool) (w : nat) (d : bytes) : res Z :=
  if (length d =? w)%nat then Ok (if sg then to_signed w (le_dec d) else le_dec d)
  else Err (Foreign StructError).
(* struct.pack(fmt, v): struct.error when out of range *)
Definition pack (sg : bool) (w : nat) (v : Z) : res bytes :=
  if (if sg then in_srange w v else in_urange w v) then Ok (le_enc w (if sg then of_signed w v else v))
  else Err (Foreign StructError).

(* a format this model does not interpret: reported as a foreign NotImplementedError so that it can
   never be mistaken for a result (the correspondence would disagree) *)
Definition not_modelled {A} : res A := Err (Foreign NotImplementedError).

(* cls.decode(stream) for an ElementaryDataType: the public wrapper around
   data = _stream_read(stream, cls.size); unpack(cls._format, data)[0] *)
Definition elem_decode (name : list Z) (s : stream) : res (Z * stream) :=
  match type_row name with
  | Some (size, fmt, _, _) =>
      match fmt_sem fmt with
      | Some (sg, w) =>
          wrap_decode (let* (d, r) := stream_read (Z.to_nat size) s in
                       let* v := unpack sg w d in Ok (v, r))
      | None => not_modelled
      end
  | None => not_modelled
  end.
(* cls.encode(value): pack(cls._format, value), any exception -> DataError *)
Definition elem_encode (name : list Z) (v : Z) : res bytes :=
  match type_row name with
  | Some (_, fmt, _, _) =>
      match fmt_sem fmt with
      | Some (sg, w) => wrap_all DataError (pack sg w v)
      | None => not_modelled
      end
  | None => not_modelled
  end.

Definition T_USINT := zs_of_string "USINT".
Definition T_UINT := zs_of_string "UINT".
Definition T_INT := zs_of_string "INT".
Definition T_DINT := zs_of_string "DINT".
Definition T_UDINT := zs_of_string "UDINT".
Definition T_ULINT := zs_of_string "ULINT".
Definition T_SHORT_STRING := zs_of_string "SHORT_STRING".
Definition ENC_LATIN1 := zs_of_string "iso-8859-1".

(* StringDataType.decode: str_len = len_type.decode(stream); "" if 0; data = _stream_read(stream,
   str_len * char_size) with char_size = 1 for the iso-8859-1 types (a short read is a DataError);
   iso-8859-1 maps byte b to code point b *)
Definition string_decode (name : list Z) (s : stream) : res (text * stream) :=
  match type_row name with
  | Some (_, _, len_type, enc) =>
      if zs_eqb enc ENC_LATIN1 then
        wrap_decode (let* (n, s1) := elem_decode len_type s in
                     if n =? 0 then Ok ([], s1)
                     else let* (d, r) := stream_read (Z.to_nat n) s1 in Ok (d, r))
      else not_modelled
  | None => not_modelled
  end.
(* StringDataType.encode: data = value.encode("iso-8859-1"); len_type.encode(len(data) // 1) + data
   (either failure becomes DataError in the wrapper) *)
Definition latin1_encode (s : text) : res bytes :=
  if latin1_ok s then Ok s else Err (Foreign UnicodeError).
Definition string_encode (name : list Z) (v : text) : res bytes :=
  match type_row name with
  | Some (_, _, len_type, enc) =>
      if zs_eqb enc ENC_LATIN1 then
        wrap_all DataError (let* l := elem_encode len_type (Z.of_nat (length v)) in
                            let* b := latin1_encode v in Ok (l ++ b))
      else not_modelled
  | None => not_modelled
  end.

(* n_bytes(count).decode: data = _stream_read(stream, count) *)
Definition bytes_decode (count : nat) (s : stream) : res (bytes * stream) :=
  wrap_decode (stream_read count s).
(* n_bytes(count).encode(value) = bytes(value[:count]) *)
Definition bytes_encode (count : nat) (v : bytes) : res bytes := Ok (firstn count v).

(* IPAddress.decode: ipaddress.IPv4Address(_stream_read(stream, 4)).exploded;
   AddressValueError (a ValueError) unless exactly 4 bytes *)
Definition dot : text := [46].
Definition IPAddress_decode (s : stream) : res (text * stream) :=
  wrap_decode (let* (d, r) := stream_read 4 s in
               if (length d =? 4)%nat then Ok (join dot (map py_str_int d), r)
               else Err (Foreign ValueError)).

(* Revision = Struct(USINT("major"), USINT("minor")) *)
Definition Revision_decode (s : stream) : res ((Z * Z) * stream) :=
  wrap_decode (let* (major, s) := elem_decode T_USINT s in
               let* (minor, s) := elem_decode T_USINT s in
               Ok ((major, minor), s)).
Definition Revision_encode (major minor : Z) : res bytes :=
  wrap_all DataError (let* a := elem_encode T_USINT major in
                      let* b := elem_encode T_USINT minor in Ok (a ++ b)).

(* ------------------------------------------------------------------ status_info tables *)
(* a dict built from a literal / by merging: the LAST binding of a key wins *)
Fixpoint ilookup {A} (d : list (Z * A)) (k : Z) : option A :=
  match d with
  | [] => None
  | (k', v) :: r => match ilookup r k with Some v' => Some v' | None => if k' =? k then Some v else None end
  end.
(* {v: k for k, v in d.items()}: the LAST id that carries the name *)
Fixpoint rlookup (d : list (Z * text)) (n : text) : option Z :=
  match d with
  | [] => None
  | (k, v) :: r => match rlookup r n with Some k' => Some k' | None => if text_eqb v n then Some k else None end
  end.
(* T = {**_T, **{v: k for k, v in _T.items()}}: int keys only meet the first half, str keys only the second *)
Inductive mkey := MInt (z : Z) | MStr (s : text).
Definition merged_lookup (t : list (Z * text)) (k : mkey) : option mkey :=
  match k with
  | MInt i => option_map MStr (ilookup t i)
  | MStr n => option_map MInt (rlookup t n)
  end.

Definition UNKNOWN : text := zs_of_string "UNKNOWN".
(* T.get(int id, "UNKNOWN") *)
Definition table_get_name (t : list (Z * text)) (i : Z) : text :=
  match merged_lookup t (MInt i) with Some (MStr n) => n | _ => UNKNOWN end.
(* T[name] *)
Definition table_getitem (t : list (Z * text)) (n : text) : res Z :=
  match merged_lookup t (MStr n) with Some (MInt i) => Ok i | _ => Err (Foreign KeyError) end.

Definition VENDORS_get (i : Z) : text := table_get_name Gen.Vendors.vendors i.
Definition PRODUCT_TYPES_get (i : Z) : text := table_get_name Gen.Status.product_types i.
Definition VENDORS_getitem (n : text) : res Z := table_getitem Gen.Vendors.vendors n.
Definition PRODUCT_TYPES_getitem (n : text) : res Z := table_getitem Gen.Status.product_types n.

(* ------------------------------------------------------------------ f"{n:08x}", bytes.fromhex, int.from_bytes *)
Fixpoint hex_digits (fuel : nat) (n : Z) (acc : text) : text :=
  match fuel with
  | O => acc
  | S f => let acc' := hexdigit (n mod 16) :: acc in
           if n <? 16 then acc' else hex_digits f (n / 16) acc'
  end.
(* format(n, "x") for n >= 0 (negative numbers do not occur: the value is an unpacked "<I") *)
Definition py_hex (n : Z) : text := hex_digits (S (Z.to_nat (Z.log2 n))) n [].
(* format(n, "08x"): zero-padded on the left to a MINIMUM width of 8 *)
Definition fmt_08x (n : Z) : text := let d := py_hex n in repeat 48 (8 - length d) ++ d.

Definition is_space (c : Z) : bool := (c =? 32) || ((9 <=? c) && (c <=? 13)).
(* bytes.fromhex(s): pairs of hex digits of either case, ASCII whitespace allowed between pairs *)
Fixpoint bytes_fromhex (s : text) : res bytes :=
  match s with
  | [] => Ok []
  | c :: r =>
      if is_space c then bytes_fromhex r else
      match r with
      | [] => Err (Foreign ValueError)
      | d :: r' => match hexval c, hexval d with
                   | Some a, Some b => let* t := bytes_fromhex r' in Ok (16 * a + b :: t)
                   | _, _ => Err (Foreign ValueError)
                   end
      end
  end.
(* int.from_bytes(bs, "big") *)
Definition int_from_bytes_big (bs : bytes) : Z := fold_left (fun acc b => acc * 256 + b) bs 0.

(* ------------------------------------------------------------------ ModuleIdentityObject *)
(* values of super()._decode before the post-processing *)
Record raw_identity := {
  r_vendor : Z; r_product_type : Z; r_product_code : Z; r_major : Z; r_minor : Z;
  r_status : bytes; r_serial : Z; r_product_name : text }.

(* the seven identity members, in declaration order (shared tail of both structs) *)
Definition identity_members_decode (s : stream) : res (raw_identity * stream) :=
  let* (vendor, s) := elem_decode T_UINT s in
  let* (product_type, s) := elem_decode T_UINT s in
  let* (product_code, s) := elem_decode T_UINT s in
  let* (rev, s) := Revision_decode s in
  let* (status, s) := bytes_decode 2 s in
  let* (serial, s) := elem_decode T_UDINT s in
  let* (product_name, s) := string_decode T_SHORT_STRING s in
  Ok ({| r_vendor := vendor; r_product_type := product_type; r_product_code := product_code;
         r_major := fst rev; r_minor := snd rev; r_status := status; r_serial := serial;
         r_product_name := product_name |}, s).

(* values["product_type"] = PRODUCT_TYPES.get(.., "UNKNOWN"); values["vendor"] = VENDORS.get(.., "UNKNOWN");
   values["serial"] = f"{values['serial']:08x}" *)
Definition post_process (r : raw_identity) : mi_dict :=
  IdentitySpec.Build_mi_dict
    (VENDORS_get (r_vendor r)) (PRODUCT_TYPES_get (r_product_type r)) (r_product_code r)
    (r_major r) (r_minor r) (r_status r) (fmt_08x (r_serial r)) (r_product_name r).

Definition ModuleIdentityObject_decode_stream (s : stream) : res (mi_dict * stream) :=
  let* (r, s) := identity_members_decode s in Ok (post_process r, s).
(* ModuleIdentityObject.decode(buffer) *)
Definition ModuleIdentityObject_decode (buf : bytes) : res mi_dict :=
  wrap_decode (let* (d, _) := ModuleIdentityObject_decode_stream buf in Ok d).

(* ModuleIdentityObject.encode(values): the table lookups and the serial conversion, then
   b"".join(typ.encode(values[typ.name]) for typ in members); every exception -> DataError *)
Definition ModuleIdentityObject_encode_inner (d : mi_dict) : res bytes :=
  let* product_type := PRODUCT_TYPES_getitem (IdentitySpec.d_product_type d) in
  let* vendor := VENDORS_getitem (IdentitySpec.d_vendor d) in
  let* sb := bytes_fromhex (IdentitySpec.d_serial d) in
  let serial := int_from_bytes_big sb in
  let* b1 := elem_encode T_UINT vendor in
  let* b2 := elem_encode T_UINT product_type in
  let* b3 := elem_encode T_UINT (IdentitySpec.d_product_code d) in
  let* b4 := Revision_encode (IdentitySpec.d_major d) (IdentitySpec.d_minor d) in
  let* b5 := bytes_encode 2 (IdentitySpec.d_status d) in
  let* b6 := elem_encode T_UDINT serial in
  let* b7 := string_encode T_SHORT_STRING (IdentitySpec.d_product_name d) in
  Ok (b1 ++ b2 ++ b3 ++ b4 ++ b5 ++ b6 ++ b7).
Definition ModuleIdentityObject_encode (d : mi_dict) : res bytes :=
  wrap_all DataError (ModuleIdentityObject_encode_inner d).

(* ------------------------------------------------------------------ ListIdentityObject *)
(* Struct(UINT, UINT, UINT("encap_protocol_version"), INT, UINT, IPAddress("ip_address"), ULINT,
          <the seven identity members>, USINT("state")); unnamed members are dropped *)
Definition ListIdentityObject_decode_stream (s : stream) : res (li_dict * stream) :=
  let* (_, s) := elem_decode T_UINT s in          (* item type id *)
  let* (_, s) := elem_decode T_UINT s in          (* item length *)
  let* (encap, s) := elem_decode T_UINT s in
  let* (_, s) := elem_decode T_INT s in           (* sin_family *)
  let* (_, s) := elem_decode T_UINT s in          (* sin_port *)
  let* (ip, s) := IPAddress_decode s in
  let* (_, s) := elem_decode T_ULINT s in         (* sin_zero *)
  let* (r, s) := identity_members_decode s in
  let* (state, s) := elem_decode T_USINT s in
  Ok (IdentitySpec.Build_li_dict encap ip (post_process r) state, s).
Definition ListIdentityObject_decode (buf : bytes) : res li_dict :=
  wrap_decode (let* (d, _) := ListIdentityObject_decode_stream buf in Ok d).

(* ------------------------------------------------------------------ reply packets *)
(* X.decode(bytes) of a slice: decode the value, drop the rest *)
Definition decode_slice (name : list Z) (b : bytes) : res Z :=
  let* (v, _) := elem_decode name b in Ok v.

(* ResponsePacket._parse_reply: command_status = DINT.decode(raw[8:12]) inside its own try/except *)
Record base_reply := { b_error : bool; b_command_status : option Z }.
Definition ResponsePacket_parse (raw : bytes) : base_reply :=
  match decode_slice T_DINT (slice 8 12 raw) with
  | Ok v => {| b_error := false; b_command_status := Some v |}
  | Err _ => {| b_error := true; b_command_status := None |}
  end.
Definition opt_is (o : option Z) (v : Z) : bool := match o with Some x => x =? v | None => false end.
(* ResponsePacket.is_valid: _error is None, command is not None (always), command_status == SUCCESS *)
Definition base_is_valid (b : base_reply) : bool :=
  negb (b_error b) && opt_is (b_command_status b) Gen.Consts.SUCCESS.

(* ListIdentityResponsePacket: identity = {} until ListIdentityObject.decode(raw[26:]) succeeds *)
Record li_reply := { lr_base : base_reply; lr_error : bool; lr_identity : option li_dict (* None = {} *) }.
Definition ListIdentityResponsePacket (raw : bytes) : li_reply :=
  let b := ResponsePacket_parse raw in
  match ListIdentityObject_decode (skipn 26 raw) with
  | Ok d => {| lr_base := b; lr_error := false; lr_identity := Some d |}
  | Err _ => {| lr_base := b; lr_error := true; lr_identity := None |}
  end.
Definition li_is_valid (r : li_reply) : bool := base_is_valid (lr_base r) && negb (lr_error r).

(* CIPDriver._list_identity / list_identity: response.identity whatever the validity *)
Definition list_identity (raw : bytes) : option li_dict := lr_identity (ListIdentityResponsePacket raw).

(* CIPDriver._broadcast_discover, the response loop: every datagram received before the timeout is
   parsed; the identity of each response that is truthy is appended *)
Definition broadcast_discover_responses (datagrams : list bytes) : list li_dict :=
  flat_map (fun raw => let r := ListIdentityResponsePacket raw in
                       if li_is_valid r then match lr_identity r with Some d => [d] | None => [] end else [])
           datagrams.

(* SendRRDataResponsePacket._parse_reply: service = Services.get(Services.from_reply(raw[40:41]))
   (USINT.encode(code - 128) fails below 0x80), service_status = USINT.decode(raw[42:43]),
   data = raw[44:]; the first exception leaves the later attributes None and sets _error *)
Record rr_reply := { rr_base : base_reply; rr_error : bool; rr_service_status : option Z; rr_data : option bytes }.
Definition from_reply (b : bytes) : res bytes :=
  let* c := decode_slice T_USINT b in elem_encode T_USINT (c - 128).
Definition SendRRDataResponsePacket_parse (raw : bytes) : rr_reply :=
  let b := ResponsePacket_parse raw in
  match from_reply (slice 40 41 raw) with
  | Err _ => {| rr_base := b; rr_error := true; rr_service_status := None; rr_data := None |}
  | Ok _ =>
      match decode_slice T_USINT (slice 42 43 raw) with
      | Err _ => {| rr_base := b; rr_error := true; rr_service_status := None; rr_data := None |}
      | Ok st => {| rr_base := b; rr_error := false; rr_service_status := Some st; rr_data := Some (skipn 44 raw) |}
      end
  end.
Definition rr_is_valid (r : rr_reply) : bool :=
  base_is_valid (rr_base r) && negb (rr_error r) && opt_is (rr_service_status r) Gen.Consts.SUCCESS.

(* CIPDriver.get_module_info: generic_message without data_type -> Tag(value = response.data,
   error = response.error); `if response:` needs value is not None and error is None (= is_valid);
   then ModuleIdentityObject.decode(response.value); everything wrapped into ResponseError *)
Definition get_module_info (raw : bytes) : res mi_dict :=
  wrap_all ResponseError
    (let r := SendRRDataResponsePacket_parse raw in
     match rr_data r with
     | Some data => if rr_is_valid r then ModuleIdentityObject_decode data else Err ResponseError
     | None => Err ResponseError
     end).

(* KEYSWITCH.get(status[0], {}).get(status[1], "UNKNOWN") *)
Definition bytes_index (b : bytes) (i : nat) : res Z :=
  match nth_error b i with Some x => Ok x | None => Err (Foreign IndexError) end.
Definition keyswitch_text (status : bytes) : res text :=
  let* b0 := bytes_index status 0 in
  let sub := match ilookup Gen.Status.keyswitch b0 with Some m => m | None => [] end in
  let* b1 := bytes_index status 1 in
  Ok (match ilookup sub b1 with Some s => s | None => UNKNOWN end).

(* LogixDriver.get_plc_info: data_type = ModuleIdentityObject, so the packet decodes the value when it
   is valid (a decode failure sets _error); `if not response: raise`; then the keyswitch text *)
Definition get_plc_info (raw : bytes) : res plc_dict :=
  wrap_all ResponseError
    (let r := SendRRDataResponsePacket_parse raw in
     if rr_is_valid r then
       match rr_data r with
       | Some data =>
           match ModuleIdentityObject_decode data with
           | Ok info => let* ks := keyswitch_text (IdentitySpec.d_status info) in
                        Ok (IdentitySpec.Build_plc_dict info ks)
           | Err _ => Err ResponseError
           end
       | None => Err ResponseError
       end
     else Err ResponseError).
