(* Model/Slc.v — executable model of pycomm3/slc_driver.py: address parsing and the PCCC request /
   reply handling of SLCDriver.read / write.  Same names as the Python, function by function.

     parse_tag            the cascade CT_RE, LFBN_RE, IO_RE, ST_RE, A_RE, S_RE, B_RE (all applied with the
                          method Gen/SlcTables.v records: fullmatch) with its range checks; a match whose
                          range check fails FALLS THROUGH to the next pattern, exactly as the
                          `if t: ... if (ranges): return` code does; the I/O branch `return None`s at once
                          when the spelled file number is not the I/O file's
     _msg_start, _read_tag / _write_tag request bytes (message-router request of the connected item)
     writeable_value      mask + value
     request_status       byte 58 of the raw reply frame
     _parse_read_reply    bit / PRE / ACC extraction, lists
     get_bit

   The patterns, PCCC_DATA_SIZE / PCCC_DATA_TYPE / PCCC_CT / PCCCDataTypes, PCCC_ERROR_CODE and the
   SLC constants are regenerated from /repo (Gen/SlcTables.v, Gen/Status.v).  The dictionary a parsed
   tag is in Python becomes the record [tagd]; numeric strings are kept as the integers int() makes
   of them (they are digit runs, so int() cannot fail; the model still goes through [py_int]).
   Codecs: INT / DINT ("<h", "<i") and REAL ("<f", values = binary32 bit patterns, SlcVal.v); the
   string codecs of ST / A files are not modelled (explicit [Foreign NotImplementedError]).
   Definitions only; lemmas in Proofs/Slc*.v. *)
From Coq Require Import String.
From PV Require Import Base.Bytes Base.Proto Base.Res Base.PyStr Model.Regex Model.SlcVal.
From PV Require Import Gen.SlcTables Gen.Status.
Open Scope Z_scope.

(* ------------------------------------------------------------------ the parsed tag *)
Record tagd := {
  t_file_type : text;             (* upper-cased *)
  t_file_number : Z;              (* int(tag["file_number"]) *)
  t_element_number : Z;           (* int(tag["element_number"]) *)
  t_pos_number : option Z;        (* int(tag["pos_number"]); None = key absent (only I/O tags have it) *)
  t_sub_element : option Z;       (* int(tag["sub_element"]); None = key absent or value None *)
  t_address_field : Z;
  t_element_count : Z;
  t_tag : text }.

Inductive pres :=
  | PTag (t : tagd)
  | PNone                          (* a step: nothing returned, go on with the next pattern; parse_tag: None *)
  | PStop                          (* a step executed `return None` *)
  | PExn (e : exn)                 (* an exception escaped (never for the regenerated patterns) *)
  | PFuel.                         (* the matcher ran out of fuel (never: fuel = S (length tag)) *)

Definition pbind {A} (r : res A) (k : A -> pres) : pres :=
  match r with Ok a => k a | Err e => PExn e end.

Definition gi (rx : regex) (g : groups) (n : string) : res (option text) := group_named rx g (zs_of_string n).

(* int(x) where x is a group: int(None) is a TypeError *)
Definition int_of (o : option text) : res Z :=
  match o with Some t => py_int t | None => Err (Foreign TypeError) end.
Definition text_of (o : option text) : res text :=
  match o with Some t => Ok t | None => Err (Foreign AttributeError) end.

Fixpoint assoc_text {A} (tbl : list (text * A)) (k : text) : option A :=
  match tbl with
  | [] => None
  | (k', v) :: r => if text_eqb k' k then Some v else assoc_text r k
  end.
Fixpoint assoc_z {A} (tbl : list (Z * A)) (k : Z) : option A :=
  match tbl with
  | [] => None
  | (k', v) :: r => if k' =? k then Some v else assoc_z r k
  end.
Definition dict_get {A} (tbl : list (text * A)) (k : text) : res A :=
  match assoc_text tbl k with Some v => Ok v | None => Err (Foreign KeyError) end.

Definition in_range (lo hi z : Z) : bool := (lo <=? z) && (z <=? hi).

(* `int(element_count) if element_count is not None else 1` *)
Definition count_of (o : option text) : res Z :=
  match o with Some t => py_int t | None => Ok 1 end.

(* `t.group(0).replace(_cnt, "") if _cnt else t.group(0)` *)
Definition tag_name_of (whole : text) (cnt : option text) : text :=
  match cnt with
  | Some c => match c with [] => whole | _ => replace_str c [] whole end
  | None => whole
  end.

(* X_RE.fullmatch(tag) / X_RE.search(tag), as parse_tag calls it *)
Definition re_apply (rx : regex) (s : text) : sres :=
  if PARSE_TAG_FULLMATCH then fullmatch rx s else search rx s.

Definition search_then (rx : regex) (s : text) (k : text -> groups -> pres) : pres :=
  match re_apply rx s with
  | SMatch _ whole g => k whole g
  | SNoMatch => PNone
  | SOutOfFuel => PFuel
  end.

(* ------------------------------------------------------------------ parse_tag, one step per pattern *)
Definition step_ct (s : text) : pres :=
  search_then CT_RE s (fun whole g =>
    pbind (gi CT_RE g "file_number") (fun fno => pbind (int_of fno) (fun fnum =>
    if in_range 1 255 fnum then
      pbind (gi CT_RE g "element_number") (fun eno => pbind (int_of eno) (fun el =>
      if in_range 0 255 el then
        pbind (gi CT_RE g "file_type") (fun ft => pbind (text_of ft) (fun ft =>
        pbind (gi CT_RE g "sub_element") (fun se => pbind (text_of se) (fun se =>
        pbind (dict_get pccc_ct (upper se)) (fun code =>
        PTag {| t_file_type := upper ft; t_file_number := fnum; t_element_number := el;
                t_pos_number := None; t_sub_element := Some code; t_address_field := 3;
                t_element_count := 1; t_tag := whole |})))))
      else PNone))
    else PNone))).

Definition step_lfbn (s : text) : pres :=
  search_then LFBN_RE s (fun whole g =>
    pbind (gi LFBN_RE g "_elem_cnt_token") (fun cnt =>
    let tag_name := tag_name_of whole cnt in
    pbind (gi LFBN_RE g "sub_element") (fun se =>
    pbind (gi LFBN_RE g "file_number") (fun fno => pbind (int_of fno) (fun fnum =>
    match se with
    | Some _ =>
        if in_range 1 255 fnum then
          pbind (gi LFBN_RE g "element_number") (fun eno => pbind (int_of eno) (fun el =>
          if in_range 0 255 el then
            pbind (int_of se) (fun sub =>
            if in_range 0 15 sub then
              pbind (gi LFBN_RE g "element_count") (fun ec => pbind (count_of ec) (fun cntv =>
              pbind (gi LFBN_RE g "file_type") (fun ft => pbind (text_of ft) (fun ft =>
              PTag {| t_file_type := upper ft; t_file_number := fnum; t_element_number := el;
                      t_pos_number := None; t_sub_element := Some sub; t_address_field := 3;
                      t_element_count := cntv; t_tag := tag_name |}))))
            else PNone)
          else PNone))
        else PNone
    | None =>
        if in_range 1 255 fnum then
          pbind (gi LFBN_RE g "element_number") (fun eno => pbind (int_of eno) (fun el =>
          if in_range 0 255 el then
            pbind (gi LFBN_RE g "element_count") (fun ec => pbind (count_of ec) (fun cntv =>
            pbind (gi LFBN_RE g "file_type") (fun ft => pbind (text_of ft) (fun ft =>
            PTag {| t_file_type := upper ft; t_file_number := fnum; t_element_number := el;
                    t_pos_number := None; t_sub_element := None; t_address_field := 2;
                    t_element_count := cntv; t_tag := tag_name |}))))
          else PNone))
        else PNone
    end))))).

Definition step_io (s : text) : pres :=
  search_then IO_RE s (fun whole g =>
    pbind (gi IO_RE g "_elem_cnt_token") (fun cnt =>
    let tag_name := tag_name_of whole cnt in
    pbind (gi IO_RE g "file_type") (fun ft => pbind (text_of ft) (fun ft =>
    let file_number := if text_eqb (upper ft) [79] then 0 else 1 in      (* "0" if O else "1" *)
    pbind (gi IO_RE g "position_number") (fun pn =>
    pbind (match pn with None => Ok 0 | Some p => py_int p end) (fun pos =>
    pbind (gi IO_RE g "file_number") (fun fno =>
    pbind (match fno with None => Ok true | Some f => let* z := py_int f in Ok (z =? file_number) end) (fun file_ok =>
    if negb file_ok then PStop else                                       (* return None *)
    pbind (gi IO_RE g "sub_element") (fun se =>
    pbind (gi IO_RE g "element_number") (fun eno => pbind (int_of eno) (fun el =>
    match se with
    | Some _ =>
        if in_range 0 255 file_number && in_range 0 255 el then
          pbind (int_of se) (fun sub =>
          if in_range 0 15 sub then
            pbind (gi IO_RE g "element_count") (fun ec => pbind (count_of ec) (fun cntv =>
            PTag {| t_file_type := upper ft; t_file_number := file_number; t_element_number := el;
                    t_pos_number := Some pos; t_sub_element := Some sub; t_address_field := 3;
                    t_element_count := cntv; t_tag := tag_name |}))
          else PNone)
        else PNone
    | None =>
        if in_range 0 255 el then
          pbind (gi IO_RE g "element_count") (fun ec => pbind (count_of ec) (fun cntv =>
          PTag {| t_file_type := upper ft; t_file_number := file_number; t_element_number := el;
                  t_pos_number := Some pos; t_sub_element := Some 0; t_address_field := 2;
                  t_element_count := cntv; t_tag := tag_name |}))
        else PNone
    end))))))))))).

(* ST_RE and A_RE have the same body *)
Definition step_plain (rx : regex) (s : text) : pres :=
  search_then rx s (fun whole g =>
    pbind (gi rx g "file_number") (fun fno => pbind (int_of fno) (fun fnum =>
    if in_range 1 255 fnum then
      pbind (gi rx g "element_number") (fun eno => pbind (int_of eno) (fun el =>
      if in_range 0 255 el then
        pbind (gi rx g "_elem_cnt_token") (fun cnt =>
        pbind (gi rx g "element_count") (fun ec => pbind (count_of ec) (fun cntv =>
        pbind (gi rx g "file_type") (fun ft => pbind (text_of ft) (fun ft =>
        PTag {| t_file_type := upper ft; t_file_number := fnum; t_element_number := el;
                t_pos_number := None; t_sub_element := None; t_address_field := 2;
                t_element_count := cntv; t_tag := tag_name_of whole cnt |})))))
      else PNone))
    else PNone))).

Definition step_s (s : text) : pres :=
  search_then S_RE s (fun whole g =>
    pbind (gi S_RE g "_elem_cnt_token") (fun cnt =>
    let tag_name := tag_name_of whole cnt in
    pbind (gi S_RE g "element_count") (fun ec =>
    pbind (gi S_RE g "sub_element") (fun se =>
    pbind (gi S_RE g "element_number") (fun eno => pbind (int_of eno) (fun el =>
    match se with
    | Some _ =>
        if in_range 0 255 el then
          pbind (int_of se) (fun sub =>
          if in_range 0 15 sub then
            pbind (gi S_RE g "file_type") (fun ft => pbind (text_of ft) (fun ft =>
            pbind (count_of ec) (fun cntv =>
            PTag {| t_file_type := upper ft; t_file_number := 2; t_element_number := el;
                    t_pos_number := None; t_sub_element := Some sub; t_address_field := 3;
                    t_element_count := cntv; t_tag := whole |})))       (* t.group(0), not tag_name *)
          else PNone)
        else PNone
    | None =>
        if in_range 0 255 el then
          pbind (gi S_RE g "file_type") (fun ft => pbind (text_of ft) (fun ft =>
          pbind (count_of ec) (fun cntv =>
          PTag {| t_file_type := upper ft; t_file_number := 2; t_element_number := el;
                  t_pos_number := None; t_sub_element := None; t_address_field := 2;
                  t_element_count := cntv; t_tag := tag_name |})))
        else PNone
    end)))))).

Definition step_b (s : text) : pres :=
  search_then B_RE s (fun whole g =>
    pbind (gi B_RE g "file_number") (fun fno => pbind (int_of fno) (fun fnum =>
    if in_range 1 255 fnum then
      pbind (gi B_RE g "element_number") (fun eno => pbind (int_of eno) (fun bit_position =>
      if in_range 0 4095 bit_position then
        pbind (gi B_RE g "_elem_cnt_token") (fun cnt =>
        let element_number := bit_position / 16 in                       (* bit_position // 16 *)
        let sub_element := bit_position - element_number * 16 in
        pbind (gi B_RE g "element_count") (fun ec => pbind (count_of ec) (fun cntv =>
        pbind (gi B_RE g "file_type") (fun ft => pbind (text_of ft) (fun ft =>
        PTag {| t_file_type := upper ft; t_file_number := fnum; t_element_number := element_number;
                t_pos_number := None; t_sub_element := Some sub_element; t_address_field := 3;
                t_element_count := cntv; t_tag := tag_name_of whole cnt |})))))
      else PNone))
    else PNone))).

Definition orelse (a : pres) (b : text -> pres) (s : text) : pres :=
  match a with PNone => b s | r => r end.

Definition finish (r : pres) : pres := match r with PStop => PNone | r => r end.

Definition parse_tag (s : text) : pres :=
  finish (
  orelse (step_ct s) (fun s =>
  orelse (step_lfbn s) (fun s =>
  orelse (step_io s) (fun s =>
  orelse (step_plain ST_RE s) (fun s =>
  orelse (step_plain A_RE s) (fun s =>
  orelse (step_s s) step_b s) s) s) s) s) s).

(* ------------------------------------------------------------------ element codecs *)
Definition USINT_encode (z : Z) : res bytes := if in_urange 1 z then Ok [z] else Err DataError.
Definition UINT_encode (z : Z) : res bytes := if in_urange 2 z then Ok (le_enc 2 z) else Err DataError.

Inductive codec := CSInt (w : nat) | CReal | CUnmodelled.

(* PCCCDataTypes[file_type]: an EnumMap, keys are compared lower-cased *)
Definition fmt_h : text := [60; 104].
Definition fmt_i : text := [60; 105].
Definition fmt_f : text := [60; 102].
Fixpoint find_codec (rows : list (text * text * Z * text)) (k : text) : option codec :=
  match rows with
  | [] => None
  | (n, _, sz, fmt) :: r =>
      if text_eqb n k then
        Some (if text_eqb fmt fmt_h && (sz =? 2) then CSInt 2
              else if text_eqb fmt fmt_i && (sz =? 4) then CSInt 4
              else if text_eqb fmt fmt_f && (sz =? 4) then CReal
              else CUnmodelled)
      else find_codec r k
  end.
Definition codec_of (ft : text) : res codec :=
  match find_codec pccc_data_types (lower ft) with Some c => Ok c | None => Err (Foreign KeyError) end.

(* <codec>.encode(value): every failure is DataError (the DataType.encode wrapper) *)
Definition pack (c : codec) (v : sval) : res bytes :=
  match c with
  | CSInt w => match v with
               | VInt z => if in_srange w z then Ok (le_enc w (of_signed w z)) else Err DataError
               | VBool b => Ok (le_enc w (if b then 1 else 0))
               | _ => Err DataError
               end
  | CReal => match v with
             | VF32 bits => if in_urange 4 bits then Ok (le_enc 4 bits) else Err (Foreign NotImplementedError)
             | VList _ => Err DataError
             | _ => Err (Foreign NotImplementedError)      (* int -> float conversion: not modelled *)
             end
  | CUnmodelled => Err (Foreign NotImplementedError)
  end.

(* <codec>.decode(bytes): nothing to read = BufferEmptyError, too short = DataError *)
Definition unpack (c : codec) (data : bytes) : res sval :=
  match c with
  | CSInt w => match data with
               | [] => Err BufferEmpty
               | _ => if (length data <? w)%nat then Err DataError
                      else Ok (VInt (to_signed w (le_dec (firstn w data))))
               end
  | CReal => match data with
             | [] => Err BufferEmpty
             | _ => if (length data <? 4)%nat then Err DataError else Ok (VF32 (le_dec (firstn 4 data)))
             end
  | CUnmodelled => Err (Foreign NotImplementedError)
  end.

(* get_bit(value, idx): (value & (1 << idx)) != 0 *)
Definition get_bit (v : sval) (idx : Z) : res sval :=
  match v with
  | VInt z => if idx <? 0 then Err (Foreign ValueError) else Ok (VBool (Z.testbit z idx))
  | VBool b => if idx <? 0 then Err (Foreign ValueError) else Ok (VBool (Z.testbit (if b then 1 else 0) idx))
  | _ => Err (Foreign TypeError)
  end.

(* ------------------------------------------------------------------ requests *)
Record cfg := { c_vid : bytes; c_vsn : bytes }.

Definition msg_start (c : cfg) : bytes :=
  [75; 2; 32] ++ PCCC_PATH ++ [7] ++ c_vid c ++ c_vsn c.

Definition sub_or_0 (t : tagd) : Z := match t_sub_element t with Some z => z | None => 0 end.
Definition pos_or_0 (t : tagd) : Z := match t_pos_number t with Some z => z | None => 0 end.

Definition is_ct (ft : text) : bool := text_eqb ft [84] || text_eqb ft [67].
Definition ct_code (n : string) : res Z := dict_get pccc_ct (zs_of_string n).

(* writeable_value(tag, value) *)
Definition writeable_value (t : tagd) (v : sval) : res bytes :=
  let bit_field := t_address_field t =? 3 in
  let bit_position := if bit_field then sub_or_0 t else 0 in
  let* bit_mask := (if bit_field then (if bit_position <? 0 then Err (Foreign ValueError) else UINT_encode (2 ^ bit_position))
                    else Ok [255; 255]) in
  let element_count := if t_element_count t =? 0 then 1 else t_element_count t in
  let* v := (if 1 <? element_count then
               match v with
               | VList vs =>
                   if Z.of_nat (length vs) <? element_count then Err RequestError
                   else Ok (VList (firstn (Z.to_nat element_count) vs))
               | _ => Err (Foreign TypeError)                            (* len() of a scalar *)
               end
             else Ok v) in
  let* mv := wrap_all RequestError (
    let* c := codec_of (t_file_type t) in
    if 1 <? element_count then
      match v with
      | VList vs =>
          let* parts := fold_right (fun x acc => let* a := acc in let* b := pack c x in Ok (b ++ a)) (Ok []) vs in
          Ok (bit_mask, parts)
      | _ => Err (Foreign TypeError)
      end
    else if bit_field then
      let* pre := ct_code "PRE" in
      let* acc := ct_code "ACC" in
      if is_ct (t_file_type t) && ((bit_position =? pre) || (bit_position =? acc)) then
        let* b := pack c v in Ok ([255; 255], b)
      else Ok (bit_mask, if truthy v then bit_mask else [0; 0])
    else
      let* b := pack c v in Ok (bit_mask, b)) in
  Ok (fst mv ++ snd mv).

(* _address_field(value): one byte for 0..254, 0xFF + two bytes little-endian from 255 on *)
Definition address_field (z : Z) : res bytes :=
  if z <? 255 then USINT_encode z else let* u := UINT_encode z in Ok (255 :: u).

Inductive rq (A : Type) := RqOk (a : A) | RqErr (e : exn) | RqFuel.
Arguments RqOk {A} a.
Arguments RqErr {A} e.
Arguments RqFuel {A}.
Definition rq_of_res {A} (r : res A) : rq A := match r with Ok a => RqOk a | Err e => RqErr e end.

(* the message-router request of _read_tag (what request.add() receives) *)
Definition read_request (c : cfg) (tns : Z) (t : tagd) : res bytes :=
  let* tn := UINT_encode tns in
  let* dsz := dict_get pccc_data_size (t_file_type t) in
  let* size := USINT_encode (dsz * t_element_count t) in
  let* fno := address_field (t_file_number t) in
  let* ty := dict_get pccc_data_type (t_file_type t) in
  let* el := address_field (t_element_number t) in
  let* sub := address_field (pos_or_0 t) in
  Ok (msg_start c ++ SLC_CMD_CODE ++ [0] ++ tn ++ SLC_FNC_READ ++ size ++ fno ++ ty ++ el ++ sub).

Definition write_request (c : cfg) (tns : Z) (t : tagd) (v : sval) : res bytes :=
  let* dsz := dict_get pccc_data_size (t_file_type t) in
  let* tn := UINT_encode tns in
  let* size := USINT_encode (dsz * t_element_count t) in
  let* fno := address_field (t_file_number t) in
  let* ty := dict_get pccc_data_type (t_file_type t) in
  let* el := address_field (t_element_number t) in
  let* sub := address_field (pos_or_0 t) in
  let* wv := writeable_value t v in
  Ok (msg_start c ++ SLC_CMD_CODE ++ [0] ++ tn ++ SLC_FNC_WRITE ++ size ++ fno ++ ty ++ el ++ sub ++ wv).

(* _read_tag / _write_tag up to the send: parse_tag None -> RequestError *)
Definition with_tag {A} (s : text) (k : tagd -> res A) : rq (tagd * A) :=
  match parse_tag s with
  | PTag t => match k t with Ok a => RqOk (t, a) | Err e => RqErr e end
  | PNone | PStop => RqErr RequestError
  | PExn e => RqErr e
  | PFuel => RqFuel
  end.
Definition read_tag_request (c : cfg) (tns : Z) (s : text) : rq (tagd * bytes) :=
  with_tag s (read_request c tns).
Definition write_tag_request (c : cfg) (tns : Z) (s : text) (v : sval) : rq (tagd * bytes) :=
  with_tag s (fun t => write_request c tns t v).

(* ------------------------------------------------------------------ replies *)
Definition unknown_status : text := zs_of_string "Unknown Status".
Definition failed_parsing : text := zs_of_string "Failed parsing tag read reply".

(* request_status(data): None = success *)
Definition request_status (raw : bytes) : option text :=
  match nth_error raw 58 with
  | None => Some unknown_status                         (* IndexError *)
  | Some code =>
      if code =? SUCCESS then None
      else match assoc_z pccc_error_code code with Some t => Some t | None => Some unknown_status end
  end.

Fixpoint chunks (fuel : nat) (n : nat) (data : bytes) : list bytes :=
  match fuel with
  | O => []
  | S f => match data with [] => [] | _ => firstn n data :: chunks f n (skipn n data) end
  end.
Fixpoint map_res {A B} (f : A -> res B) (xs : list A) : res (list B) :=
  match xs with
  | [] => Ok []
  | x :: r => let* y := f x in let* ys := map_res f r in Ok (y :: ys)
  end.

(* _parse_read_reply(tag, data) *)
Definition parse_read_reply (t : tagd) (data : bytes) : res sval :=
  wrap_all ResponseError (
    let bit_read := t_address_field t =? 3 in
    let bit_position := sub_or_0 t in
    let* dsz := dict_get pccc_data_size (t_file_type t) in
    let* c := codec_of (t_file_type t) in
    let ds := Z.to_nat dsz in
    if bit_read then
      let* pre := ct_code "PRE" in
      let* acc := ct_code "ACC" in
      if is_ct (t_file_type t) && (bit_position =? pre) then unpack c (slice 2 (2 + ds) data)
      else if is_ct (t_file_type t) && (bit_position =? acc) then unpack c (slice 4 (4 + ds) data)
      else let* tv := unpack c (slice 0 ds data) in get_bit tv bit_position
    else
      if (ds =? 0)%nat then Err (Foreign ValueError)                       (* range() step 0 *)
      else
        let* vs := map_res (unpack c) (chunks (length data) ds data) in
        match vs with
        | [] => Err (Foreign IndexError)                                   (* values_list[0] *)
        | [v] => Ok v
        | _ => Ok (VList vs)
        end).

(* what SLCDriver.read / write hand back: Tag(tag, value, type, error) *)
Record tagres := { tr_tag : text; tr_value : option sval; tr_type : text; tr_error : option text }.

Definition read_tag_finish (t : tagd) (raw : bytes) : tagres :=
  match request_status raw with
  | Some st => {| tr_tag := t_tag t; tr_value := None; tr_type := t_file_type t; tr_error := Some st |}
  | None =>
      match parse_read_reply t (skipn (Z.to_nat SLC_REPLY_START) raw) with
      | Ok v => {| tr_tag := t_tag t; tr_value := Some v; tr_type := t_file_type t; tr_error := None |}
      | Err _ => {| tr_tag := t_tag t; tr_value := None; tr_type := t_file_type t; tr_error := Some failed_parsing |}
      end
  end.

Definition write_tag_finish (t : tagd) (v : sval) (raw : bytes) : tagres :=
  match request_status raw with
  | Some st => {| tr_tag := t_tag t; tr_value := None; tr_type := t_file_type t; tr_error := Some st |}
  | None => {| tr_tag := t_tag t; tr_value := Some v; tr_type := t_file_type t; tr_error := None |}
  end.
